theories/Base/Values.vo theories/Base/Values.glob theories/Base/Values.v.beautified theories/Base/Values.required_vo: theories/Base/Values.v 
theories/Base/Values.vio: theories/Base/Values.v 
theories/Base/Values.vos theories/Base/Values.vok theories/Base/Values.required_vos: theories/Base/Values.v 
theories/Base/PyOps.vo theories/Base/PyOps.glob theories/Base/PyOps.v.beautified theories/Base/PyOps.required_vo: theories/Base/PyOps.v theories/Base/Values.vo
theories/Base/PyOps.vio: theories/Base/PyOps.v theories/Base/Values.vio
theories/Base/PyOps.vos theories/Base/PyOps.vok theories/Base/PyOps.required_vos: theories/Base/PyOps.v theories/Base/Values.vos
theories/Base/Regex.vo theories/Base/Regex.glob theories/Base/Regex.v.beautified theories/Base/Regex.required_vo: theories/Base/Regex.v 
theories/Base/Regex.vio: theories/Base/Regex.v 
theories/Base/Regex.vos theories/Base/Regex.vok theories/Base/Regex.required_vos: theories/Base/Regex.v 
theories/Model/Errors.vo theories/Model/Errors.glob theories/Model/Errors.v.beautified theories/Model/Errors.required_vo: theories/Model/Errors.v theories/Base/Values.vo theories/Base/PyOps.vo
theories/Model/Errors.vio: theories/Model/Errors.v theories/Base/Values.vio theories/Base/PyOps.vio
theories/Model/Errors.vos theories/Model/Errors.vok theories/Model/Errors.required_vos: theories/Model/Errors.v theories/Base/Values.vos theories/Base/PyOps.vos
theories/Model/Facts.vo theories/Model/Facts.glob theories/Model/Facts.v.beautified theories/Model/Facts.required_vo: theories/Model/Facts.v theories/Base/Values.vo theories/Base/PyOps.vo theories/Model/Errors.vo
theories/Model/Facts.vio: theories/Model/Facts.v theories/Base/Values.vio theories/Base/PyOps.vio theories/Model/Errors.vio
theories/Model/Facts.vos theories/Model/Facts.vok theories/Model/Facts.required_vos: theories/Model/Facts.v theories/Base/Values.vos theories/Base/PyOps.vos theories/Model/Errors.vos
theories/Model/Tree.vo theories/Model/Tree.glob theories/Model/Tree.v.beautified theories/Model/Tree.required_vo: theories/Model/Tree.v theories/Base/Values.vo theories/Base/PyOps.vo theories/Model/Errors.vo
theories/Model/Tree.vio: theories/Model/Tree.v theories/Base/Values.vio theories/Base/PyOps.vio theories/Model/Errors.vio
theories/Model/Tree.vos theories/Model/Tree.vok theories/Model/Tree.required_vos: theories/Model/Tree.v theories/Base/Values.vos theories/Base/PyOps.vos theories/Model/Errors.vos
theories/Model/Validate.vo theories/Model/Validate.glob theories/Model/Validate.v.beautified theories/Model/Validate.required_vo: theories/Model/Validate.v theories/Base/Values.vo theories/Base/PyOps.vo theories/Model/Errors.vo theories/Model/Tree.vo theories/Model/Facts.vo theories/Base/Regex.vo
theories/Model/Validate.vio: theories/Model/Validate.v theories/Base/Values.vio theories/Base/PyOps.vio theories/Model/Errors.vio theories/Model/Tree.vio theories/Model/Facts.vio theories/Base/Regex.vio
theories/Model/Validate.vos theories/Model/Validate.vok theories/Model/Validate.required_vos: theories/Model/Validate.v theories/Base/Values.vos theories/Base/PyOps.vos theories/Model/Errors.vos theories/Model/Tree.vos theories/Model/Facts.vos theories/Base/Regex.vos
theories/Proofs/TreeProofs.vo theories/Proofs/TreeProofs.glob theories/Proofs/TreeProofs.v.beautified theories/Proofs/TreeProofs.required_vo: theories/Proofs/TreeProofs.v theories/Base/Values.vo theories/Base/PyOps.vo theories/Model/Errors.vo theories/Model/Tree.vo
theories/Proofs/TreeProofs.vio: theories/Proofs/TreeProofs.v theories/Base/Values.vio theories/Base/PyOps.vio theories/Model/Errors.vio theories/Model/Tree.vio
theories/Proofs/TreeProofs.vos theories/Proofs/TreeProofs.vok theories/Proofs/TreeProofs.required_vos: theories/Proofs/TreeProofs.v theories/Base/Values.vos theories/Base/PyOps.vos theories/Model/Errors.vos theories/Model/Tree.vos
