(* Extract.v -- extraction of the executable model to OCaml.
   Directives used: ExtrOcamlBasic (bool, option, unit, prod, list, sumbool ->
   OCaml's) and ExtrOcamlString (ascii -> char, string -> char list).
   No Extract Constant of ours; Z / N / positive / nat stay Coq's inductive types. *)
From Coq Require Import Extraction ExtrOcamlBasic ExtrOcamlString.
From Cerb Require Import Values PyOps Regex Errors Facts SpecFacts Tree Pool Validate Normalize Handler Expand Accept.
From Cerb Require Import Current.
Extraction Language OCaml.
Extraction "model.ml"
  current documented validate_ctx api_validate api_normalized render expand_top accepts base_validation_rules base_normalization_rules pool_coerce pool_setter pool_check build fetch_errors fetch_node all_errors tree_is_empty
  flatten tflat regex_fullmatch py_eq py_lt py_in py_set py_len truthy hashable is_instance.
