(* PyOps.v -- the Python operators the cerberus handlers use, on JSON-like values.
   "None" results stand for a TypeError raised by CPython. Modelled, not verified
   against CPython: bound to the real interpreter by the primitive-table
   correspondence run (harness/primtable.py). *)
From Coq Require Import List ZArith String Bool Ascii Lia.
From Cerb Require Import Values.
Import ListNotations.
Open Scope string_scope.
Open Scope Z_scope.
Open Scope list_scope.

(** Numeric view in quarter units: bool, int and float compare exactly. *)
Definition num_of (v : value) : option Z :=
  match v with
  | VBool b => Some (if b then 4 else 0)
  | VInt z => Some (4 * z)
  | VFloat q => Some q
  | _ => None
  end.

(** ** Equality (Python [==]) *)
Fixpoint py_eq (a b : value) : bool :=
  match a, b with
  | VNone, VNone => true
  | VStr s, VStr t => String.eqb s t
  | VFun f, VFun g => String.eqb f g
  | VList l1, VList l2 =>
      (fix go (l1 l2 : list value) : bool :=
         match l1, l2 with
         | [], [] => true
         | x :: xs, y :: ys => py_eq x y && go xs ys
         | _, _ => false
         end) l1 l2
  | VDict d1, VDict d2 =>
      Nat.eqb (List.length d1) (List.length d2) &&
      (fix go (d : list (key * value)) : bool :=
         match d with
         | [] => true
         | (k, v) :: d' =>
             match assoc_get k d2 with
             | Some v' => py_eq v v' && go d'
             | None => false
             end
         end) d1
  | _, _ =>
      match num_of a, num_of b with
      | Some x, Some y => Z.eqb x y
      | _, _ => false
      end
  end.

(** ** Ordering (Python [<]); None = TypeError *)
Fixpoint py_lt (a b : value) : option bool :=
  match a, b with
  | VStr s, VStr t => Some (String.ltb s t)
  | VList l1, VList l2 =>
      (fix go (l1 l2 : list value) : option bool :=
         match l1, l2 with
         | [], [] => Some false
         | [], _ :: _ => Some true
         | _ :: _, [] => Some false
         | x :: xs, y :: ys => if py_eq x y then go xs ys else py_lt x y
         end) l1 l2
  | _, _ =>
      match num_of a, num_of b with
      | Some x, Some y => Some (Z.ltb x y)
      | _, _ => None
      end
  end.

Definition py_gt (a b : value) : option bool := py_lt b a.

(** ** Truthiness, length, iteration *)
Definition truthy (v : value) : bool :=
  match v with
  | VNone => false
  | VBool b => b
  | VInt z => negb (Z.eqb z 0)
  | VFloat q => negb (Z.eqb q 0)
  | VStr s => negb (String.eqb s "")
  | VList l => match l with [] => false | _ => true end
  | VDict d => match d with [] => false | _ => true end
  | VFun _ => true
  end.

Definition py_len (v : value) : option nat :=
  match v with
  | VStr s => Some (String.length s)
  | VList l => Some (List.length l)
  | VDict d => Some (List.length d)
  | _ => None
  end.

Fixpoint chars_of (s : string) : list value :=
  match s with
  | EmptyString => []
  | String c s' => VStr (String c EmptyString) :: chars_of s'
  end.

(* iter(v): str -> one-character strings, list -> members, dict -> keys *)
Definition py_iter (v : value) : option (list value) :=
  match v with
  | VStr s => Some (chars_of s)
  | VList l => Some l
  | VDict d => Some (map (fun kv => key_to_value (fst kv)) d)
  | _ => None
  end.

(** ** ABC membership of JSON-like values *)
Definition is_mapping (v : value) : bool := match v with VDict _ => true | _ => false end.
Definition is_str (v : value) : bool := match v with VStr _ => true | _ => false end.
Definition is_sequence (v : value) : bool :=
  match v with VStr _ | VList _ => true | _ => false end.
Definition is_iterable (v : value) : bool :=
  match v with VStr _ | VList _ | VDict _ => true | _ => false end.
Definition is_sized := is_iterable.
Definition is_container := is_iterable.
Definition is_none (v : value) : bool := match v with VNone => true | _ => false end.

Fixpoint hashable (v : value) : bool :=
  match v with
  | VList _ | VDict _ => false
  | _ => true
  end.

(* isinstance(v, <name>) for the class names that occur in types_mapping /
   platform.py.  Names that have no JSON-like inhabitant never match. *)
Definition is_instance (v : value) (cls : string) : bool :=
  if String.eqb cls "bool" then match v with VBool _ => true | _ => false end
  else if String.eqb cls "int" then match v with VBool _ | VInt _ => true | _ => false end
  else if String.eqb cls "float" then match v with VFloat _ => true | _ => false end
  else if String.eqb cls "str" then is_str v
  else if String.eqb cls "Mapping" then is_mapping v
  else if String.eqb cls "Sequence" then is_sequence v
  else if String.eqb cls "Container" then is_container v
  else if String.eqb cls "Iterable" then is_iterable v
  else if String.eqb cls "Sized" then is_sized v
  else if String.eqb cls "Hashable" then hashable v
  else if String.eqb cls "Callable" then match v with VFun _ => true | _ => false end
  else false.

(** ** Membership *)
Fixpoint is_substring_at (pat s : string) : bool :=
  match pat, s with
  | EmptyString, _ => true
  | String a p', String b s' => Ascii.eqb a b && is_substring_at p' s'
  | String _ _, EmptyString => false
  end.

Fixpoint is_substring (pat s : string) : bool :=
  is_substring_at pat s ||
  match s with
  | EmptyString => false
  | String _ s' => is_substring pat s'
  end.

(* x in c ; None = TypeError *)
Definition py_in (x c : value) : option bool :=
  match c with
  | VList l => Some (existsb (py_eq x) l)
  | VDict d =>
      if hashable x
      then Some (existsb (fun kv => py_eq x (key_to_value (fst kv))) d)
      else None
  | VStr s =>
      match x with
      | VStr p => Some (is_substring p s)
      | _ => None
      end
  | _ => None
  end.

(** ** Sets (as duplicate-free lists modulo py_eq); None = unhashable member *)
Fixpoint dedup (l : list value) : list value :=
  match l with
  | [] => []
  | x :: xs => if existsb (py_eq x) xs then dedup xs else x :: dedup xs
  end.

Definition set_of_list (l : list value) : option (list value) :=
  if forallb hashable l then Some (dedup l) else None.

Definition py_set (v : value) : option (list value) :=
  match py_iter v with
  | Some l => set_of_list l
  | None => None
  end.

Definition set_diff (a b : list value) : list value :=
  filter (fun x => negb (existsb (py_eq x) b)) a.
Definition set_inter (a b : list value) : list value :=
  filter (fun x => existsb (py_eq x) b) a.

(** ** dict helpers on values *)
Definition dict_items (v : value) : list (key * value) :=
  match v with VDict d => d | _ => [] end.

Definition vget (k : string) (v : value) : option value :=
  match v with VDict d => assoc_get (KStr k) d | _ => None end.

Definition vget_key (k : key) (v : value) : option value :=
  match v with VDict d => assoc_get k d | _ => None end.

Definition vmem (k : string) (v : value) : bool :=
  match vget k v with Some _ => true | None => false end.

Definition vget_default (k : string) (dflt : value) (v : value) : value :=
  match vget k v with Some x => x | None => dflt end.

(** ** Python's [str.startswith], [split('.')] for dependency paths *)
Fixpoint split_on (c : ascii) (s : string) (acc : string) : list string :=
  match s with
  | EmptyString => [acc]
  | String a s' =>
      if Ascii.eqb a c then acc :: split_on c s' EmptyString
      else split_on c s' (acc ++ String a EmptyString)%string
  end.

Definition split_dot (s : string) : list string := split_on "."%char s EmptyString.

Definition starts_with_caret (s : string) : bool :=
  match s with String c _ => Ascii.eqb c "^"%char | EmptyString => false end.

Definition tail_string (s : string) : string :=
  match s with String _ s' => s' | EmptyString => EmptyString end.

Fixpoint ends_with_dollar (s : string) : bool :=
  match s with
  | EmptyString => false
  | String c EmptyString => Ascii.eqb c "$"%char
  | String _ s' => ends_with_dollar s'
  end.

(** py_eq is reflexive on function-free... (used by proofs) *)
Lemma num_of_eq_refl v x : num_of v = Some x -> Z.eqb x x = true.
Proof. intros _; apply Z.eqb_refl. Qed.
