(* Regex.v -- a model of Python's  re.compile(p if p.endswith('$') else p+'$').match(s)
   for the pattern grammar the generator emits: literals, '.', classes
   [a-z] / [^...], \d \w \s, escapes of punctuation, * + ?, groups, |, ^ and $.
   Patterns outside the grammar yield None (never generated).  Strings contain
   no newline (domain restriction), so '$' means end of input and '.' any char.
   MODELLED, not verified against CPython's sre: bound to it by the regex
   correspondence run over the pattern pool x string pool on every run. *)
From Coq Require Import List String Bool Ascii Arith Lia.
Import ListNotations.
Open Scope list_scope.

Inductive re :=
| RFail | REps | RStart | REnd
| RAny
| RChr (c : ascii)
| RCls (neg : bool) (ranges : list (ascii * ascii))
| RSeq (a b : re)
| RAlt (a b : re)
| RStar (a : re).

Definition in_range (c : ascii) (r : ascii * ascii) : bool :=
  (nat_of_ascii (fst r) <=? nat_of_ascii c) && (nat_of_ascii c <=? nat_of_ascii (snd r)).

Definition cls_matches (neg : bool) (ranges : list (ascii * ascii)) (c : ascii) : bool :=
  xorb neg (existsb (in_range c) ranges).

(* can r match the empty string here?  at_start / at_end: position flags *)
Fixpoint nullable (at_start at_end : bool) (r : re) : bool :=
  match r with
  | RFail => false
  | REps => true
  | RStart => at_start
  | REnd => at_end
  | RAny | RChr _ | RCls _ _ => false
  | RSeq a b => nullable at_start at_end a && nullable at_start at_end b
  | RAlt a b => nullable at_start at_end a || nullable at_start at_end b
  | RStar _ => true
  end.

(* derivative w.r.t. the next character (so we are not at the end) *)
Fixpoint deriv (at_start : bool) (c : ascii) (r : re) : re :=
  match r with
  | RFail | REps | RStart | REnd => RFail
  | RAny => REps
  | RChr d => if Ascii.eqb c d then REps else RFail
  | RCls neg rs => if cls_matches neg rs c then REps else RFail
  | RSeq a b =>
      let da := RSeq (deriv at_start c a) b in
      if nullable at_start false a then RAlt da (deriv at_start c b) else da
  | RAlt a b => RAlt (deriv at_start c a) (deriv at_start c b)
  | RStar a => RSeq (deriv at_start c a) (RStar a)
  end.

(* light simplification keeps derivatives small *)
Fixpoint simp (r : re) : re :=
  match r with
  | RSeq a b =>
      match simp a, simp b with
      | RFail, _ => RFail
      | _, RFail => RFail
      | REps, b' => b'
      | a', b' => RSeq a' b'
      end
  | RAlt a b =>
      match simp a, simp b with
      | RFail, b' => b'
      | a', RFail => a'
      | a', b' => RAlt a' b'
      end
  | _ => r
  end.

(* re.match: some prefix of s matches *)
Fixpoint prefix_match (at_start : bool) (r : re) (s : list ascii) : bool :=
  match s with
  | [] => nullable at_start true r
  | c :: s' => nullable at_start false r || prefix_match false (simp (deriv at_start c r)) s'
  end.

(** ** Parser *)
Definition is_alnum (c : ascii) : bool :=
  let n := nat_of_ascii c in
  ((48 <=? n) && (n <=? 57)) || ((65 <=? n) && (n <=? 90)) || ((97 <=? n) && (n <=? 122)).

Definition digit_cls := RCls false [("0"%char, "9"%char)].
Definition word_cls := RCls false [("a"%char, "z"%char); ("A"%char, "Z"%char); ("0"%char, "9"%char); ("_"%char, "_"%char)].
Definition space_cls := RCls false [(" "%char, " "%char); (ascii_of_nat 9, ascii_of_nat 13)].

Definition escape (c : ascii) : option re :=
  if Ascii.eqb c "d"%char then Some digit_cls
  else if Ascii.eqb c "w"%char then Some word_cls
  else if Ascii.eqb c "s"%char then Some space_cls
  else if is_alnum c then None
  else Some (RChr c).

(* class body after '[' and optional '^' ; returns ranges and rest after ']' *)
Fixpoint parse_class (fuel : nat) (s : list ascii) (acc : list (ascii * ascii))
  : option (list (ascii * ascii) * list ascii) :=
  match fuel with
  | O => None
  | S f =>
      match s with
      | [] => None
      | "]"%char :: rest => match acc with [] => None | _ => Some (rev acc, rest) end
      | "\"%char :: c :: rest =>
          if is_alnum c then None else parse_class f rest ((c, c) :: acc)
      | "["%char :: _ => None
      | a :: "-"%char :: b :: rest =>
          if Ascii.eqb b "]"%char then parse_class f ("-"%char :: b :: rest) ((a, a) :: acc)
          else if Ascii.eqb b "\"%char then None
          else if nat_of_ascii a <=? nat_of_ascii b then parse_class f rest ((a, b) :: acc) else None
      | a :: rest => parse_class f rest ((a, a) :: acc)
      end
  end.

Definition is_special (c : ascii) : bool :=
  existsb (Ascii.eqb c) ["*"; "+"; "?"; "{"; "}"; ")"; "|"]%char.

Fixpoint postfix (r : re) (s : list ascii) (seen : bool) : option (re * list ascii) :=
  match s with
  | "*"%char :: rest => if seen then None else postfix (RStar r) rest true
  | "+"%char :: rest => if seen then None else postfix (RSeq r (RStar r)) rest true
  | "?"%char :: rest => if seen then None else postfix (RAlt r REps) rest true
  | "{"%char :: _ => None
  | _ => Some (r, s)
  end.

Fixpoint parse_alt (fuel : nat) (s : list ascii) : option (re * list ascii) :=
  match fuel with
  | O => None
  | S f =>
      let parse_atom (s : list ascii) : option (re * list ascii) :=
        match s with
        | [] => None
        | "("%char :: rest =>
            match rest with
            | "?"%char :: _ => None
            | _ =>
                match parse_alt f rest with
                | Some (r, ")"%char :: rest') => Some (r, rest')
                | _ => None
                end
            end
        | "["%char :: "^"%char :: rest =>
            match parse_class f rest [] with
            | Some (rs, rest') => Some (RCls true rs, rest')
            | None => None
            end
        | "["%char :: rest =>
            match parse_class f rest [] with
            | Some (rs, rest') => Some (RCls false rs, rest')
            | None => None
            end
        | "."%char :: rest => Some (RAny, rest)
        | "^"%char :: rest => Some (RStart, rest)
        | "$"%char :: rest => Some (REnd, rest)
        | "\"%char :: c :: rest =>
            match escape c with Some r => Some (r, rest) | None => None end
        | "\"%char :: [] => None
        | c :: rest => if is_special c then None else Some (RChr c, rest)
        end in
      let fix parse_seq (g : nat) (s : list ascii) (acc : re) : option (re * list ascii) :=
        match g with
        | O => None
        | S g' =>
            match s with
            | [] => Some (acc, s)
            | "|"%char :: _ => Some (acc, s)
            | ")"%char :: _ => Some (acc, s)
            | _ =>
                match parse_atom s with
                | Some (a, rest) =>
                    match a with
                    | RStart | REnd =>
                        (* quantified anchors are not modelled *)
                        match rest with
                        | "*"%char :: _ | "+"%char :: _ | "?"%char :: _ | "{"%char :: _ => None
                        | _ => parse_seq g' rest (RSeq acc a)
                        end
                    | _ =>
                        match postfix a rest false with
                        | Some (a', rest') => parse_seq g' rest' (RSeq acc a')
                        | None => None
                        end
                    end
                | None => None
                end
            end
        end in
      match parse_seq fuel s REps with
      | Some (a, "|"%char :: rest) =>
          match parse_alt f rest with
          | Some (b, rest') => Some (RAlt a b, rest')
          | None => None
          end
      | other => other
      end
  end.

Definition parse_regex (p : string) : option re :=
  let l := list_ascii_of_string p in
  match parse_alt (S (List.length l)) l with
  | Some (r, []) => Some (simp r)
  | _ => None
  end.

Fixpoint ends_with_dollar_l (l : list ascii) : bool :=
  match l with
  | [] => false
  | [c] => Ascii.eqb c "$"%char
  | _ :: l' => ends_with_dollar_l l'
  end.

(* _validate_regex: pattern += '$' unless it ends with '$'; re_obj.match(value) *)
Definition regex_fullmatch (pat : string) (s : string) : option bool :=
  let pat' := if ends_with_dollar_l (list_ascii_of_string pat) then pat else (pat ++ "$")%string in
  match parse_regex pat' with
  | Some r => Some (prefix_match true r (list_ascii_of_string s))
  | None => None
  end.
