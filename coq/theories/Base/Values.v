(* Values.v -- JSON-like Python values, keys, and the error monad of the model.
   Stdlib only.  Everything is total, computable Gallina. *)
From Coq Require Import List ZArith String Bool Ascii Lia.
Import ListNotations.
Open Scope string_scope.
Open Scope Z_scope.
Open Scope list_scope.

(** * Keys and values *)

Inductive key := KStr (s : string) | KInt (z : Z).

(* VFloat q stands for the float q/4 (the generator emits only multiples of
   0.25 of moderate magnitude, all exactly representable in binary64).
   VFun id is an opaque callable, named from a pool; it occurs in schemas only. *)
Inductive value :=
| VNone
| VBool (b : bool)
| VInt (z : Z)
| VFloat (q : Z)
| VStr (s : string)
| VList (l : list value)
| VDict (kvs : list (key * value))
| VFun (id : string).

Definition key_eqb (a b : key) : bool :=
  match a, b with
  | KStr x, KStr y => String.eqb x y
  | KInt x, KInt y => Z.eqb x y
  | _, _ => false
  end.

Lemma key_eqb_eq a b : key_eqb a b = true <-> a = b.
Proof.
  destruct a, b; simpl; split; intro H; try discriminate.
  - apply String.eqb_eq in H; congruence.
  - inversion H; apply String.eqb_refl.
  - apply Z.eqb_eq in H; congruence.
  - inversion H; apply Z.eqb_refl.
Qed.

Lemma key_eqb_refl a : key_eqb a a = true.
Proof. apply key_eqb_eq; reflexivity. Qed.

Lemma key_eqb_neq a b : key_eqb a b = false <-> a <> b.
Proof.
  split; intro H.
  - intro E; apply key_eqb_eq in E; congruence.
  - destruct (key_eqb a b) eqn:E; [apply key_eqb_eq in E; contradiction|reflexivity].
Qed.

Lemma key_eqb_sym a b : key_eqb a b = key_eqb b a.
Proof.
  destruct (key_eqb a b) eqn:E.
  - apply key_eqb_eq in E; subst; symmetry; apply key_eqb_refl.
  - symmetry; apply key_eqb_neq; apply key_eqb_neq in E; congruence.
Qed.

Definition key_eq_dec (a b : key) : {a = b} + {a <> b}.
Proof.
  destruct (key_eqb a b) eqn:E.
  - left; apply key_eqb_eq; exact E.
  - right; apply key_eqb_neq; exact E.
Defined.

Definition key_to_value (k : key) : value :=
  match k with KStr s => VStr s | KInt z => VInt z end.

Definition value_to_key (v : value) : option key :=
  match v with
  | VStr s => Some (KStr s)
  | VInt z => Some (KInt z)
  | _ => None
  end.

(** Paths: tuples of keys. *)
Definition path := list key.

Fixpoint path_eqb (p q : path) : bool :=
  match p, q with
  | [], [] => true
  | a :: p', b :: q' => key_eqb a b && path_eqb p' q'
  | _, _ => false
  end.

Lemma path_eqb_eq p q : path_eqb p q = true <-> p = q.
Proof.
  revert q; induction p as [|a p IH]; intros [|b q]; simpl; split; intro H;
    try discriminate; try reflexivity.
  - apply andb_true_iff in H as [H1 H2].
    apply key_eqb_eq in H1; apply IH in H2; congruence.
  - inversion H; subst. rewrite key_eqb_refl. simpl. apply IH; reflexivity.
Qed.

Lemma path_eqb_refl p : path_eqb p p = true.
Proof. apply path_eqb_eq; reflexivity. Qed.

Fixpoint is_prefix (p q : path) : bool :=
  match p, q with
  | [], _ => true
  | a :: p', b :: q' => key_eqb a b && is_prefix p' q'
  | _ :: _, [] => false
  end.

Lemma is_prefix_spec p q : is_prefix p q = true <-> exists r, q = p ++ r.
Proof.
  revert q; induction p as [|a p IH]; intros q; simpl.
  - split; [intros _; exists q; reflexivity|reflexivity].
  - destruct q as [|b q].
    + split; [discriminate|intros [r Hr]; discriminate].
    + rewrite andb_true_iff, key_eqb_eq, IH. split.
      * intros [-> [r ->]]. exists r; reflexivity.
      * intros [r Hr]. inversion Hr; subst. split; [reflexivity|exists r; reflexivity].
Qed.

(** * Association lists with Python dict update semantics *)

Section Assoc.
  Context {A : Type}.

  Fixpoint assoc_get (k : key) (l : list (key * A)) : option A :=
    match l with
    | [] => None
    | (k', v) :: l' => if key_eqb k k' then Some v else assoc_get k l'
    end.

  Definition assoc_mem (k : key) (l : list (key * A)) : bool :=
    match assoc_get k l with Some _ => true | None => false end.

  (* d[k] = v : existing key keeps its position, new key is appended *)
  Fixpoint assoc_set (k : key) (v : A) (l : list (key * A)) : list (key * A) :=
    match l with
    | [] => [(k, v)]
    | (k', v') :: l' =>
        if key_eqb k k' then (k', v) :: l' else (k', v') :: assoc_set k v l'
    end.

  Fixpoint assoc_del (k : key) (l : list (key * A)) : list (key * A) :=
    match l with
    | [] => []
    | (k', v') :: l' => if key_eqb k k' then l' else (k', v') :: assoc_del k l'
    end.

  Definition assoc_keys (l : list (key * A)) : list key := map fst l.

  Lemma assoc_get_set_same k v l : assoc_get k (assoc_set k v l) = Some v.
  Proof.
    induction l as [|[k' v'] l IH]; simpl.
    - rewrite key_eqb_refl; reflexivity.
    - destruct (key_eqb k k') eqn:E; simpl; rewrite E; auto.
  Qed.

  Lemma assoc_get_set_other k k' v l :
    key_eqb k' k = false -> assoc_get k' (assoc_set k v l) = assoc_get k' l.
  Proof.
    intro Hn. induction l as [|[k2 v2] l IH]; simpl.
    - rewrite Hn; reflexivity.
    - destruct (key_eqb k k2) eqn:E; simpl.
      + apply key_eqb_eq in E; subst. rewrite Hn. reflexivity.
      + destruct (key_eqb k' k2); auto.
  Qed.
End Assoc.

(** * The error monad of the model: Python exceptions and fuel *)

Inductive pyexn :=
| TypeError | AttributeError | KeyError | IndexError | ValueError
| RuntimeError | RecursionError | DocumentError | SchemaError | UserError
| SchemaRuleTypeError.

Inductive res (A : Type) :=
| Ok (a : A)
| Raise (e : pyexn) (site : string)
| OutOfFuel.
Arguments Ok {A} a.
Arguments Raise {A} e site.
Arguments OutOfFuel {A}.

Definition bind {A B} (r : res A) (f : A -> res B) : res B :=
  match r with
  | Ok a => f a
  | Raise e s => Raise e s
  | OutOfFuel => OutOfFuel
  end.

Notation "'do' x <- r ; f" := (bind r (fun x => f))
  (at level 200, x pattern, r at level 100, f at level 200, right associativity).

Definition is_ok {A} (r : res A) : bool :=
  match r with Ok _ => true | _ => false end.

Definition pyexn_eqb (a b : pyexn) : bool :=
  match a, b with
  | TypeError, TypeError | AttributeError, AttributeError | KeyError, KeyError
  | IndexError, IndexError | ValueError, ValueError | RuntimeError, RuntimeError
  | RecursionError, RecursionError
  | DocumentError, DocumentError | SchemaError, SchemaError | UserError, UserError
  | SchemaRuleTypeError, SchemaRuleTypeError => true
  | _, _ => false
  end.

(** * Induction principle for the nested type [value] *)

Section ValueInd.
  Variable P : value -> Prop.
  Hypothesis HNone : P VNone.
  Hypothesis HBool : forall b, P (VBool b).
  Hypothesis HInt : forall z, P (VInt z).
  Hypothesis HFloat : forall q, P (VFloat q).
  Hypothesis HStr : forall s, P (VStr s).
  Hypothesis HList : forall l, Forall P l -> P (VList l).
  Hypothesis HDict : forall kvs, Forall (fun kv => P (snd kv)) kvs -> P (VDict kvs).
  Hypothesis HFun : forall id, P (VFun id).

  Fixpoint value_ind' (v : value) : P v :=
    match v with
    | VNone => HNone
    | VBool b => HBool b
    | VInt z => HInt z
    | VFloat q => HFloat q
    | VStr s => HStr s
    | VList l =>
        HList l ((fix go (l : list value) : Forall P l :=
                    match l with
                    | [] => Forall_nil _
                    | x :: xs => Forall_cons _ (value_ind' x) (go xs)
                    end) l)
    | VDict kvs =>
        HDict kvs ((fix go (l : list (key * value)) : Forall (fun kv => P (snd kv)) l :=
                      match l with
                      | [] => Forall_nil _
                      | x :: xs => Forall_cons _ (value_ind' (snd x)) (go xs)
                      end) kvs)
    | VFun id => HFun id
    end.
End ValueInd.

(** Nesting depth of a value (used for fuel bounds). *)
Fixpoint vdepth (v : value) : nat :=
  match v with
  | VList l => S (fold_right (fun x acc => Nat.max (vdepth x) acc) O l)
  | VDict kvs => S (fold_right (fun kv acc => Nat.max (vdepth (snd kv)) acc) O kvs)
  | _ => O
  end.
