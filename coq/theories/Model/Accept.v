(* Accept.v -- the documented constraint grammar of schemas as a boolean checker (C04): which schemas a
   validator class accepts.  Written from docs/validation-rules.rst, docs/normalization-rules.rst and the rules'
   constraint schemas; INDEPENDENT of the mechanism the code uses (a SchemaValidator interpreting a meta-schema).
   Tied to the code by diffing, on every run, this checker against the real acceptance (cold cache) of grammar
   schemas and of their single-point corruptions. *)
From Coq Require Import List ZArith String Bool.
From Cerb Require Import Values PyOps.
Import ListNotations.
Open Scope string_scope.
Open Scope list_scope.

(* what a validator class knows *)
Record vclass := {
  k_types : list string;
  k_coercers : list string;
  k_setters : list string;
  k_checkers : list string;
  k_validation_rules : list string;
  k_normalization_rules : list string
}.

Definition sin (s : string) (l : list string) : bool := existsb (String.eqb s) l.

Definition base_validation_rules : list string :=
  ["allof"; "allow_unknown"; "allowed"; "anyof"; "check_with"; "contains"; "dependencies"; "empty"; "excludes"; "forbidden";
   "items"; "keysrules"; "max"; "maxlength"; "meta"; "min"; "minlength"; "noneof"; "nullable"; "oneof"; "readonly"; "regex";
   "require_all"; "required"; "schema"; "type"; "valuesrules"].
Definition base_normalization_rules : list string :=
  ["coerce"; "default"; "default_setter"; "purge_unknown"; "rename"; "rename_handler"].

Definition is_bool (v : value) : bool := match v with VBool _ => true | _ => false end.
Definition is_integer (v : value) : bool := match v with VBool _ | VInt _ => true | _ => false end.
Definition is_list (v : value) : bool := match v with VList _ => true | _ => false end.
Definition is_empty_sized (v : value) : bool :=
  match v with VStr "" | VList [] | VDict [] => true | _ => false end.

Definition callable_or_named (names : list string) (v : value) : bool :=
  match v with VFun _ => true | VStr s => sin s names | _ => false end.

Definition callable_named_or_chain (names : list string) (v : value) : bool :=
  match v with
  | VList l => forallb (callable_or_named names) l
  | _ => callable_or_named names v
  end.

Section WithClass.
  Variable K : vclass.
  Variable rules_reg : list (string * value).
  Variable schema_reg : list (string * value).

  Definition reg_has (reg : list (string * value)) (n : string) : bool :=
    existsb (fun p => String.eqb (fst p) n) reg.
  Definition reg_lookup (reg : list (string * value)) (n : string) : option value :=
    match find (fun p => String.eqb (fst p) n) reg with Some p => Some (snd p) | None => None end.

  (* fuel: nesting + reference unfolding; [seen]: reference names already being checked (self-references are fine) *)
  Fixpoint wf_rules (fuel : nat) (in_of : bool) (seen : list string) (v : value) : bool :=
    match fuel with
    | O => false
    | S f =>
        let bulk (c : value) : bool :=         (* a rules set or the name of one *)
          match c with
          | VDict _ => wf_rules f false seen c
          | VStr n => if sin n seen then true
                      else match reg_lookup rules_reg n with
                           | Some d => wf_rules f false (n :: seen) d
                           | None => false
                           end
          | _ => false
          end in
        let mapping_schema (c : value) : bool :=   (* field -> rules set / name *)
          match c with
          | VDict fields => forallb (fun kv => bulk (snd kv)) fields
          | _ => false
          end in
        match v with
        | VDict d =>
            forallb (fun kv =>
              match fst kv with
              | KInt _ => false
              | KStr rule =>
                  let c := snd kv in
                  if negb (sin rule (k_validation_rules K) || (negb in_of && sin rule (k_normalization_rules K))) then false
                  else if String.eqb rule "default" then true
                  else if is_none c then false       (* constraints are not nullable unless the rule says so *)
                  else if String.eqb rule "allow_unknown" then is_bool c || bulk c
                  else if String.eqb rule "allowed" then (match c with VList _ | VDict _ => true | _ => false end)
                  else if sin rule ["allof"; "anyof"; "noneof"; "oneof"] then
                    (match c with VList l => forallb (fun x => match x with VDict _ => wf_rules f true seen x | _ => false end) l | _ => false end)
                  else if String.eqb rule "check_with" then callable_named_or_chain (k_checkers K) c
                  else if sin rule ["coerce"; "rename_handler"] then callable_named_or_chain (k_coercers K) c
                  else if String.eqb rule "contains" then negb (is_empty_sized c)
                  else if String.eqb rule "default_setter" then callable_or_named (k_setters K) c
                  else if String.eqb rule "dependencies" then
                    (match c with VDict _ => true | VList l => forallb hashable l | _ => hashable c end)
                  else if sin rule ["empty"; "nullable"; "purge_unknown"; "readonly"; "require_all"; "required"] then is_bool c
                  else if String.eqb rule "excludes" then (match c with VList l => forallb hashable l | _ => hashable c end)
                  else if String.eqb rule "forbidden" then is_list c
                  else if String.eqb rule "items" then (match c with VList l => forallb bulk l | _ => false end)
                  else if sin rule ["keysrules"; "valuesrules"] then bulk c
                  else if sin rule ["max"; "min"; "meta"] then true
                  else if sin rule ["maxlength"; "minlength"] then is_integer c
                  else if String.eqb rule "regex" then is_str c
                  else if String.eqb rule "rename" then hashable c
                  else if String.eqb rule "schema" then
                    (match c with
                     | VDict _ => mapping_schema c || bulk c
                     | VStr n => (if sin n seen then true
                                  else match reg_lookup schema_reg n with
                                       | Some (VDict fields) => forallb (fun kv => match snd kv with
                                                                                   | VDict _ => wf_rules f false (n :: seen) (snd kv)
                                                                                   | VStr m => if sin m seen then true
                                                                                               else match reg_lookup rules_reg m with
                                                                                                    | Some d2 => wf_rules f false (m :: n :: seen) d2
                                                                                                    | None => false
                                                                                                    end
                                                                                   | _ => false
                                                                                   end) fields
                                       | _ => false
                                       end)
                                 || bulk c
                     | _ => false
                     end)
                  else if String.eqb rule "type" then
                    (match c with
                     | VStr t => sin t (k_types K)
                     | VList l => forallb (fun x => match x with VStr t => sin t (k_types K) | _ => false end) l
                     | _ => false
                     end)
                  else true   (* a rule added by a subclass: its own constraint schema is not modelled *)
              end) d
        | _ => false
        end
    end.

  (* a whole schema: field -> rules set or the name of one *)
  Definition accepts (schema : list (key * value)) : bool :=
    let fuel := (6 + 2 * vdepth (VDict schema) + 2 * List.length rules_reg + 2 * List.length schema_reg)%nat in
    forallb (fun kv =>
               match snd kv with
               | VDict _ => wf_rules fuel false [] (snd kv)
               | VStr n => match reg_lookup rules_reg n with
                           | Some d => wf_rules fuel false [n] d
                           | None => false
                           end
               | _ => false
               end) schema.
End WithClass.
