(* Cache.v -- model of the validated-schema cache (schema.py 252-266, 355-371, 399-410, 455-467).
   A submitted schema is a tree of rule sets; each node is validated locally and through its parts;
   every node that validates is recorded under its key, and a node whose key is recorded is accepted
   without being looked at.  [valid] is what validation decides on a cold cache. *)
From Coq Require Import List Bool.
Import ListNotations.

Section Cache.
  Variable Label Key : Type.
  Variable key_eqb : Key -> Key -> bool.
  Hypothesis key_eqb_eq : forall a b, key_eqb a b = true <-> a = b.

  Inductive sch := SNode (l : Label) (parts : list sch).

  Variable local_ok : Label -> bool.      (* the node's own constraints, checked against the class's rules *)
  Variable key_of : sch -> Key.           (* (context tag, frozen structure, types hash); one set per class *)

  Fixpoint valid (s : sch) : bool :=
    match s with
    | SNode l parts => local_ok l && (fix all (ps : list sch) : bool :=
                                        match ps with [] => true | p :: ps' => valid p && all ps' end) parts
    end.

  Definition cache := list Key.
  Definition cached (c : cache) (k : Key) : bool := existsb (key_eqb k) c.

  (* validate with the cache: hit -> accept; else validate the parts (each through the cache), then the node;
     record the node on success.  Parts that validated stay recorded even if the whole is rejected. *)
  Fixpoint check (c : cache) (s : sch) : cache * bool :=
    if cached c (key_of s) then (c, true)
    else match s with
         | SNode l parts =>
             let '(c1, ok) := (fix go (c : cache) (ps : list sch) : cache * bool :=
                                 match ps with
                                 | [] => (c, true)
                                 | p :: ps' => let '(c', b) := check c p in
                                               let '(c'', bs) := go c' ps' in (c'', b && bs)
                                 end) c parts in
             if ok && local_ok l then (key_of s :: c1, true) else (c1, false)
         end.

  (* a submission history: schemas and clear_caches() *)
  Inductive op := Submit (s : sch) | Clear.

  Fixpoint run (c : cache) (h : list op) : list bool :=
    match h with
    | [] => []
    | Clear :: h' => run [] h'
    | Submit s :: h' => let '(c', b) := check c s in b :: run c' h'
    end.

  (* the outcomes with the cache cleared immediately before every submission *)
  Fixpoint run_cold (h : list op) : list bool :=
    match h with
    | [] => []
    | Clear :: h' => run_cold h'
    | Submit s :: h' => snd (check [] s) :: run_cold h'
    end.
End Cache.
