(* Errors.v -- error records, classification by bit mask, path comparison.
   Mirrors cerberus/errors.py (ValidationError) and utils.compare_paths_lt. *)
From Coq Require Import List ZArith String Bool Ascii Lia Permutation.
From Cerb Require Import Values PyOps.
Import ListNotations.
Open Scope string_scope.
Open Scope Z_scope.
Open Scope list_scope.

(** schema_path is a tuple, or (for required imposed by require_all) the
    literal string "__require_all__", which the code then slices and iterates
    like a tuple. *)
Inductive spath := SP (p : path) | SPStr (s : string).

Inductive error := Err {
  e_dp : path;
  e_sp : spath;
  e_code : Z;
  e_rule : option string;
  e_constraint : value;
  e_value : value;
  e_info : list value;          (* info, without the child-error list *)
  e_children : list error       (* info[0] of a group error *)
}.

(** Classification masks: extracted from errors.py on every run. *)
Record masks := { m_group : Z; m_logic : Z; m_norm : Z }.

Definition is_group (m : masks) (e : error) : bool :=
  negb (Z.eqb (Z.land (e_code e) (m_group m)) 0).
Definition is_logic (m : masks) (e : error) : bool :=
  negb (Z.eqb (Z.land (e_code e) (m_logic m)) 0).
Definition is_normalization (m : masks) (e : error) : bool :=
  negb (Z.eqb (Z.land (e_code e) (m_norm m)) 0).

(* error.child_errors: info[0] if is_group_error else None *)
Definition child_errors (m : masks) (e : error) : list error :=
  if is_group m e then e_children e else [].

(** The tree iterates a string path character-wise. *)
Fixpoint str_to_path (s : string) : path :=
  match s with
  | EmptyString => []
  | String c s' => KStr (String c EmptyString) :: str_to_path s'
  end.

Definition spath_list (sp : spath) : path :=
  match sp with SP p => p | SPStr s => str_to_path s end.

Definition spath_eqb (a b : spath) : bool :=
  match a, b with
  | SP p, SP q => path_eqb p q
  | SPStr s, SPStr t => String.eqb s t
  | _, _ => false
  end.

(** drop_item_from_tuple(t, i) = t[:i] + t[i+1:]  (works on strings, too) *)
Fixpoint drop_nth {A} (n : nat) (l : list A) : list A :=
  match n, l with
  | _, [] => []
  | O, _ :: l' => l'
  | S n', x :: l' => x :: drop_nth n' l'
  end.

Fixpoint drop_nth_str (n : nat) (s : string) : string :=
  match n, s with
  | _, EmptyString => EmptyString
  | O, String _ s' => s'
  | S n', String c s' => String c (drop_nth_str n' s')
  end.

Definition spath_drop (n : nat) (sp : spath) : spath :=
  match sp with SP p => SP (drop_nth n p) | SPStr s => SPStr (drop_nth_str n s) end.

(** compare_paths_lt on key tuples. *)
Definition key_lt (a b : key) : bool :=
  match a, b with
  | KInt x, KInt y => Z.ltb x y
  | KStr s, KStr t => String.ltb s t
  | _, _ => true      (* different kinds: the code answers True either way *)
  end.

Fixpoint paths_lt (x y : path) : bool :=
  match x, y with
  | [], _ => true                       (* x is a prefix of y (or equal) *)
  | _ :: _, [] => false
  | a :: x', b :: y' => if key_eqb a b then paths_lt x' y' else key_lt a b
  end.

Definition error_lt (a b : error) : bool :=
  if path_eqb (e_dp a) (e_dp b)
  then paths_lt (spath_list (e_sp a)) (spath_list (e_sp b))
  else paths_lt (e_dp a) (e_dp b).

(** list.sort(): stable insertion sort using [<] only.  The order of errors is
    never compared with the real code (it is algorithm-dependent on ties); all
    statements about error lists are up to permutation. *)
Fixpoint insert_err (e : error) (l : list error) : list error :=
  match l with
  | [] => [e]
  | x :: xs => if error_lt e x then e :: l else x :: insert_err e xs
  end.

Fixpoint sort_errs (l : list error) : list error :=
  match l with
  | [] => []
  | x :: xs => insert_err x (sort_errs xs)
  end.

Lemma insert_err_perm e l : Permutation (e :: l) (insert_err e l).
Proof.
  induction l as [|x xs IH]; simpl; [reflexivity|].
  destruct (error_lt e x); [reflexivity|].
  rewrite perm_swap. constructor. exact IH.
Qed.

Lemma sort_errs_perm l : Permutation l (sort_errs l).
Proof.
  induction l as [|x xs IH]; simpl; [constructor|].
  rewrite <- insert_err_perm. constructor. exact IH.
Qed.

(** ErrorList.__contains__(definition): any(x.code == wanted) *)
Definition errlist_has_code (c : Z) (l : list error) : bool :=
  existsb (fun e => Z.eqb (e_code e) c) l.

(** All errors reachable through child_errors. *)
Fixpoint flatten_err (m : masks) (e : error) : list error :=
  e :: (if is_group m e
        then (fix go (l : list error) : list error :=
                match l with
                | [] => []
                | c :: cs => flatten_err m c ++ go cs
                end) (e_children e)
        else []).

Definition flatten (m : masks) (l : list error) : list error :=
  flat_map (flatten_err m) l.

Lemma flatten_err_unfold m e :
  flatten_err m e = e :: (if is_group m e then flatten m (e_children e) else []).
Proof.
  destruct e as [dp sp c r k v i ch]. unfold flatten. simpl.
  destruct (is_group m _); reflexivity.
Qed.

(** Induction principle for the nested type [error]. *)
Section ErrorInd.
  Variable P : error -> Prop.
  Hypothesis H : forall dp sp c r k v i ch, Forall P ch -> P (Err dp sp c r k v i ch).
  Fixpoint error_ind' (e : error) : P e :=
    match e with
    | Err dp sp c r k v i ch =>
        H dp sp c r k v i ch
          ((fix go (l : list error) : Forall P l :=
              match l with
              | [] => Forall_nil _
              | x :: xs => Forall_cons _ (error_ind' x) (go xs)
              end) ch)
    end.
End ErrorInd.
