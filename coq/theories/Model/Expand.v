(* Expand.v -- model of DefinitionSchema.expand (schema.py 122-260): <of>_<rule> shorthands, recursion into
   sub-schemas / bulk rule sets / items / *of definitions / allow_unknown rule sets, spaces in rule names,
   deprecated rule names.  The code rewrites the submitted mapping in place; here the rewritten mapping is
   returned.  The swallow-all `except Exception: pass` around the first two steps is modelled: a failure
   stops them (keeping what was rewritten so far) and the renaming step still runs. *)
From Coq Require Import List ZArith String Bool Ascii Lia.
From Cerb Require Import Values PyOps.
Import ListNotations.
Open Scope string_scope.
Open Scope list_scope.

Definition of_prefixes : list string := ["allof_"; "anyof_"; "noneof_"; "oneof_"].

Definition is_of_rule (k : key) : bool :=
  match k with
  | KStr s => existsb (fun p => String.prefix p s) of_prefixes
  | KInt _ => false
  end.

(* of_rule.split('_', 1) *)
Fixpoint split_first_underscore (s : string) (acc : string) : string * string :=
  match s with
  | EmptyString => (acc, EmptyString)
  | String c s' => if Ascii.eqb c "_"%char then (acc, s') else split_first_underscore s' (acc ++ String c EmptyString)
  end.

(* one rules set: expand every <of>_<rule> key.  None = an exception (constraint not iterable ...) *)
Definition expand_one_shortcut (rules : list (key * value)) (k : key) : option (list (key * value)) :=
  match k with
  | KStr name =>
      let '(op, rule) := split_first_underscore name EmptyString in
      match assoc_get k rules with
      | Some v =>
          match py_iter v with
          | Some vals =>
              let defs := map (fun c => VDict [(KStr rule, c)]) vals in
              Some (assoc_del k (assoc_set (KStr op) (VList defs) rules))
          | None => None
          end
      | None => None
      end
  | KInt _ => Some rules
  end.

Fixpoint expand_shortcuts_keys (rules : list (key * value)) (ks : list key) : option (list (key * value)) :=
  match ks with
  | [] => Some rules
  | k :: ks' => match expand_one_shortcut rules k with
                | Some r => expand_shortcuts_keys r ks'
                | None => None
                end
  end.

Definition expand_shortcuts_rules (rules : value) : option value :=
  match rules with
  | VDict d => match expand_shortcuts_keys d (filter is_of_rule (map fst d)) with
               | Some d' => Some (VDict d')
               | None => None
               end
  | VStr _ => Some rules          (* iterating a reference name: no key is an *of shorthand *)
  | VList _ => Some rules
  | _ => None                     (* for x in rules: TypeError *)
  end.

(* _expand_logical_shortcuts: all fields; stops at the first failure *)
Fixpoint expand_shortcuts (schema : list (key * value)) : list (key * value) * bool :=
  match schema with
  | [] => ([], true)
  | (f, rules) :: rest =>
      match expand_shortcuts_rules rules with
      | Some r' => let '(rest', ok) := expand_shortcuts rest in ((f, r') :: rest', ok)
      | None => ((f, rules) :: rest, false)
      end
  end.

Definition deprecated : list (string * string) :=
  [("keyschema", "keysrules"); ("validator", "check_with"); ("valueschema", "valuesrules")].

Fixpoint has_space (s : string) : bool :=
  match s with
  | EmptyString => false
  | String c s' => Ascii.eqb c " "%char || has_space s'
  end.

Fixpoint spaces_to_underscores (s : string) : string :=
  match s with
  | EmptyString => EmptyString
  | String c s' => String (if Ascii.eqb c " "%char then "_"%char else c) (spaces_to_underscores s')
  end.

(* rules[new] = rules.pop(old)  : the new key goes to the end (or keeps its place if present) *)
Definition move_rule (d : list (key * value)) (old new : string) : list (key * value) :=
  match assoc_get (KStr old) d with
  | Some v => assoc_set (KStr new) v (assoc_del (KStr old) d)
  | None => d
  end.

(* _canonicalize_rule_names for one rules set: rule names written with spaces get underscores (first pass of expand) *)
Definition canon_rules (rules : value) : value :=
  match rules with
  | VDict d =>
      let spaced := flat_map (fun k => match k with KStr s => if has_space s then [s] else [] | _ => [] end) (map fst d) in
      VDict (fold_left (fun d s => move_rule d s (spaces_to_underscores s)) spaced d)
  | _ => rules          (* not a mapping (a registry reference, or ill-formed): left to schema validation *)
  end.

Definition canon_all (schema : list (key * value)) : list (key * value) :=
  map (fun kv => (fst kv, canon_rules (snd kv))) schema.

(* _rename_deprecated_rulenames for one rules set; RuntimeError when both names are present *)
Definition rename_rules (rules : value) : res value :=
  match rules with
  | VDict d =>
      (fix go (pairs : list (string * string)) (d : list (key * value)) : res value :=
         match pairs with
         | [] => Ok (VDict d)
         | (old, new) :: ps =>
             if negb (assoc_mem (KStr old) d) then go ps d
             else if assoc_mem (KStr new) d then Raise RuntimeError "_rename_deprecated_rulenames"
             else go ps (move_rule d old new)
         end) deprecated d
  | _ => Ok rules        (* not a mapping (a registry reference, or ill-formed): skipped, left to schema validation *)
  end.

Fixpoint rename_all (schema : list (key * value)) : res (list (key * value)) :=
  match schema with
  | [] => Ok []
  | (f, rules) :: rest =>
      do r' <- rename_rules rules;
      do rest' <- rename_all rest;
      Ok ((f, r') :: rest')
  end.

Definition is_mapping_schema_v (v : value) : bool :=
  match v with
  | VDict d => forallb (fun kv => is_mapping (snd kv)) d
  | _ => false
  end.

(** One level of expand, with the recursive call abstract *)
Section WithRec.
  Variable rec : list (key * value) -> res (list (key * value)).

  Definition expand0 (v : value) : res value :=          (* cls.expand({0: v})[0] *)
    do r <- rec [(KInt 0%Z, v)];
    match r with [(_, v')] => Ok v' | _ => Ok v end.

  Definition sub_schema (rules : list (key * value)) : res (list (key * value)) :=
    match assoc_get (KStr "schema") rules with
    | Some sv =>
        if is_mapping_schema_v sv
        then match sv with
             | VDict sd => do sd' <- rec sd; Ok (assoc_set (KStr "schema") (VDict sd') rules)
             | _ => Ok rules
             end
        else do sv' <- expand0 sv; Ok (assoc_set (KStr "schema") sv' rules)
    | None => Ok rules
    end.

  Fixpoint sub_bulk (names : list string) (d : list (key * value)) : res (list (key * value)) :=
    match names with
    | [] => Ok d
    | n :: ns => match assoc_get (KStr n) d with
                 | Some v => do v' <- expand0 v; sub_bulk ns (assoc_set (KStr n) v' d)
                 | None => sub_bulk ns d
                 end
    end.

  Definition sub_allow_unknown (d : list (key * value)) : res (list (key * value)) :=
    match assoc_get (KStr "allow_unknown") d with
    | Some (VDict au) => do v' <- expand0 (VDict au); Ok (assoc_set (KStr "allow_unknown") v' d)
    | _ => Ok d
    end.

  Fixpoint expand_each (l : list value) : res (list value) :=
    match l with
    | [] => Ok []
    | i :: l' => do i' <- expand0 i; do r <- expand_each l'; Ok (i' :: r)
    end.

  Fixpoint sub_lists (names : list string) (d : list (key * value)) : res (list (key * value)) :=
    match names with
    | [] => Ok d
    | n :: ns => match assoc_get (KStr n) d with
                 | Some (VList items) => do items' <- expand_each items; sub_lists ns (assoc_set (KStr n) (VList items') d)
                 | _ => sub_lists ns d
                 end
    end.

  Definition bulk_names : list string := ["keysrules"; "valuesrules"; "keyschema"; "valueschema"].
  Definition list_names : list string := ["allof"; "anyof"; "items"; "noneof"; "oneof"].

  (* the recursion positions of _expand_subschemas, in its order *)
  Definition sub_rules (rules : list (key * value)) : res (list (key * value)) :=
    do d1 <- sub_schema rules;
    do d2 <- sub_bulk bulk_names d1;
    do d3 <- sub_allow_unknown d2;
    sub_lists list_names d3.

  Fixpoint sub_fields (l : list (key * value)) : res (list (key * value)) :=
    match l with
    | [] => Ok []
    | (f, VDict rules) :: rest =>
        match sub_rules rules with
        | Ok r' => do rest' <- sub_fields rest; Ok ((f, VDict r') :: rest')
        | OutOfFuel => OutOfFuel
        | Raise _ _ => Ok l        (* swallowed: the remaining fields stay as they are *)
        end
    | (f, other) :: rest => do rest' <- sub_fields rest; Ok ((f, other) :: rest')
    end.

  (* step 0: spaces in rule names; step 1: shorthands of every field; step 2: sub-structures of every field (failures swallowed); step 3: renaming *)
  Definition expand_step (schema : list (key * value)) : res (list (key * value)) :=
    let '(s1, ok1) := expand_shortcuts (canon_all schema) in
    do s2 <- (if ok1 then sub_fields s1 else Ok s1);
    rename_all s2.
End WithRec.

Fixpoint expand (fuel : nat) (schema : list (key * value)) : res (list (key * value)) :=
  match fuel with
  | O => OutOfFuel
  | S fuel' => expand_step (expand fuel') schema
  end.

Definition expand_top (schema : list (key * value)) : res (list (key * value)) :=
  expand (4 + 2 * vdepth (VDict schema)) schema.
