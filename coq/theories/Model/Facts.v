(* Facts.v -- the record of facts that the translator re-reads from /repo's
   source on every run (translator/translate.py -> Extracted/Current.v), and
   the boolean side condition [facts_ok] under which the generic theorems hold.
   The model is a function of a [facts] value; nothing in this record is
   written by hand for the current tree. *)
From Coq Require Import List ZArith String Bool.
From Cerb Require Import Values PyOps Errors.
Import ListNotations.
Open Scope string_scope.
Open Scope Z_scope.
Open Scope list_scope.

Record typedef := { td_name : string; td_incl : list string; td_excl : list string }.

(* one *of operator: the comparison that FILES the error, as extracted from
   `if valids <op> <operand>:`; operand is the literal or "len" for len(definitions) *)
Inductive cmpop := CLt | CLe | CGt | CGe | CEq | CNe.
Inductive operand := OLit (z : Z) | OLen.
Record ofdef := { of_name : string; of_cmp : cmpop; of_operand : operand; of_err : string }.

Record facts := {
  (* errors.py *)
  f_errdefs : list (string * (Z * option string));   (* NAME -> (code, rule) *)
  f_masks : masks;
  f_messages : list Z;                               (* keys of BasicErrorHandler.messages *)
  (* validator.py: class attributes *)
  f_priority : list string;
  f_mandatory : list string;
  f_types : list typedef;
  (* __validate_definitions *)
  f_queue_excluded : list string;
  f_stops : list (string * string);    (* F3: rule handlers that can stop the field's remaining rules, with the condition *)
  f_normalization_rules : list string;
  (* drop lists *)
  f_nullable_drops : list string;
  f_empty_drops : list string;
  (* *of *)
  f_of_inherit : list string;
  f_ofdefs : list ofdef;
  (* crumb indices dropped from schema paths when child errors bubble up,
     keyed by the enclosing function *)
  f_sp_drops : list (string * list nat);
  (* does the call that runs the child validator forward update=self.update ? *)
  f_forwards_update : list (string * bool);
  (* __normalize_mapping: ordered step tokens *)
  f_pipeline : list string;
  f_worklist : list string;          (* F12: shape tokens of the default-setter work-list loop *)
  (* __init_processing reset list, in order *)
  f_resets : list string;
  (* validate(): per-call attributes assigned before __init_processing *)
  f_validate_prologue : list string;
  (* the validated-schema cache: (site, wrapper tag of the key); does the freezer tag numeric scalars with their
     type; does every class get its own cache set *)
  f_cache_sites : list (string * string);
  f_cache_typed_scalars : bool;
  f_cache_per_class : bool;
  (* BasicErrorHandler.add starts with a deep copy of the error and only then rewrites paths *)
  f_handler_add_copies : bool;
  (* F14: every statement of the normalization functions that writes through `mapping` / `schema`:
     (function, root, depth of the written container below the root, mapping[field] re-bound to a copy first?) *)
  f_write_sites : list (string * string * nat * bool);
  (* self.document = copy(document) on entry; schema = schema.copy() before references are resolved *)
  f_entry_copies : bool;
  (* DefinitionSchema.__new__: the lazily created class is assigned to the module global as the last statement
     of the creation block and never modified through the global afterwards *)
  f_lazy_publish_last : bool
}.

Definition errdef (F : facts) (name : string) : Z * option string :=
  match find (fun p => String.eqb (fst p) name) (f_errdefs F) with
  | Some p => snd p
  | None => (0, None)
  end.
Definition errcode (F : facts) (name : string) : Z := fst (errdef F name).
Definition errrule (F : facts) (name : string) : option string := snd (errdef F name).

Definition sp_drops (F : facts) (site : string) : list nat :=
  match find (fun p => String.eqb (fst p) site) (f_sp_drops F) with
  | Some p => snd p
  | None => []
  end.

Definition forwards_update (F : facts) (site : string) : bool :=
  match find (fun p => String.eqb (fst p) site) (f_forwards_update F) with
  | Some p => snd p
  | None => false
  end.

Definition str_in (s : string) (l : list string) : bool := existsb (String.eqb s) l.

Fixpoint list_eqb {A} (eqb : A -> A -> bool) (a b : list A) : bool :=
  match a, b with
  | [], [] => true
  | x :: a', y :: b' => eqb x y && list_eqb eqb a' b'
  | _, _ => false
  end.

Definition strs_eqb := list_eqb String.eqb.

Definition cmp_eval (c : cmpop) (a b : Z) : bool :=
  match c with
  | CLt => Z.ltb a b | CLe => Z.leb a b | CGt => Z.gtb a b | CGe => Z.geb a b
  | CEq => Z.eqb a b | CNe => negb (Z.eqb a b)
  end.
