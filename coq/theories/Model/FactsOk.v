(* FactsOk.v -- boolean side conditions, one per fact group, under which the
   generic theorems hold.  Each Properties file proves, by vm_compute on the
   freshly extracted facts, the conditions its theorems need. *)
From Coq Require Import List ZArith String Bool.
From Cerb Require Import Values PyOps Errors Facts SpecFacts.
Import ListNotations.
Open Scope string_scope.
Open Scope Z_scope.
Open Scope list_scope.

Definition opt_str_eqb (a b : option string) : bool :=
  match a, b with
  | Some x, Some y => String.eqb x y
  | None, None => true
  | _, _ => false
  end.

Definition errdef_eqb (a b : string * (Z * option string)) : bool :=
  String.eqb (fst a) (fst b) && Z.eqb (fst (snd a)) (fst (snd b)) && opt_str_eqb (snd (snd a)) (snd (snd b)).

Definition masks_eqb (a b : masks) : bool :=
  Z.eqb (m_group a) (m_group b) && Z.eqb (m_logic a) (m_logic b) && Z.eqb (m_norm a) (m_norm b).

Definition typedef_eqb (a b : typedef) : bool :=
  String.eqb (td_name a) (td_name b) && strs_eqb (td_incl a) (td_incl b) && strs_eqb (td_excl a) (td_excl b).

Definition cmpop_eqb (a b : cmpop) : bool :=
  match a, b with
  | CLt, CLt | CLe, CLe | CGt, CGt | CGe, CGe | CEq, CEq | CNe, CNe => true
  | _, _ => false
  end.
Definition operand_eqb (a b : operand) : bool :=
  match a, b with
  | OLit x, OLit y => Z.eqb x y
  | OLen, OLen => true
  | _, _ => false
  end.
Definition ofdef_eqb (a b : ofdef) : bool :=
  String.eqb (of_name a) (of_name b) && cmpop_eqb (of_cmp a) (of_cmp b)
  && operand_eqb (of_operand a) (of_operand b) && String.eqb (of_err a) (of_err b).

Definition drops_eqb (a b : string * list nat) : bool :=
  String.eqb (fst a) (fst b) && list_eqb Nat.eqb (snd a) (snd b).
Definition fwd_eqb (a b : string * bool) : bool :=
  String.eqb (fst a) (fst b) && Bool.eqb (snd a) (snd b).

(* F8: error definitions and classification masks *)
Definition ok_errors (F : facts) : bool :=
  list_eqb errdef_eqb (f_errdefs F) (f_errdefs documented) && masks_eqb (f_masks F) (f_masks documented).
(* F10: message table keys *)
Definition ok_messages (F : facts) : bool := list_eqb Z.eqb (f_messages F) (f_messages documented).
(* F1-F3: rule queue *)
Definition ok_queue (F : facts) : bool :=
  strs_eqb (f_priority F) (f_priority documented) && strs_eqb (f_mandatory F) (f_mandatory documented)
  && strs_eqb (f_queue_excluded F) (f_queue_excluded documented)
  && strs_eqb (f_normalization_rules F) (f_normalization_rules documented)
  && strs_eqb (f_nullable_drops F) (f_nullable_drops documented)
  && strs_eqb (f_empty_drops F) (f_empty_drops documented).
(* F2: type table *)
Definition ok_types (F : facts) : bool := list_eqb typedef_eqb (f_types F) (f_types documented).
(* F5: *of *)
Definition ok_of (F : facts) : bool :=
  strs_eqb (f_of_inherit F) (f_of_inherit documented) && list_eqb ofdef_eqb (f_ofdefs F) (f_ofdefs documented).
(* F6: child-validator sites *)
Definition ok_sites (F : facts) : bool :=
  list_eqb drops_eqb (f_sp_drops F) (f_sp_drops documented)
  && list_eqb fwd_eqb (f_forwards_update F) (f_forwards_update documented).
(* F11 / F16 *)
Definition ok_pipeline (F : facts) : bool := strs_eqb (f_pipeline F) (f_pipeline documented).
(* F12: the work-list loop is the one Worklist.v models: pop the head, re-queue at the BACK on KeyError only,
   file any other exception for the field itself, remember the pending list as a tuple, stop on a repeated list *)
Definition ok_worklist (F : facts) : bool := strs_eqb (f_worklist F) (f_worklist documented).
Definition ok_resets (F : facts) : bool := strs_eqb (f_resets F) (f_resets documented).

(* F16: the per-call attributes assigned by validate() before __init_processing *)
Definition ok_prologue (F : facts) : bool := strs_eqb (f_validate_prologue F) (f_validate_prologue documented).
(* F21: the cache key is type-aware and every class has its own cache *)
Definition ok_cache_keys (F : facts) : bool := f_cache_typed_scalars F && f_cache_per_class F.
Definition cache_tag (F : facts) (site : string) : string :=
  match find (fun p => String.eqb (fst p) site) (f_cache_sites F) with Some p => snd p | None => "?" end.
(* bulk rule sets and *of definitions are keyed apart (NOT the case on the current tree: known finding C08) *)
Definition cache_contexts_distinct (F : facts) : bool :=
  negb (String.eqb (cache_tag F "check_with_bulk_schema") (cache_tag F "validate_logical")).

(* F3: the only handler that may stop a field's remaining rules is `dependencies`, on the look-up the model transcribes
   (document error tree, schema path + (field, 'dependencies')) *)
Definition stop_eqb (a b : string * string) : bool := String.eqb (fst a) (fst b) && String.eqb (snd a) (snd b).
Definition ok_stops (F : facts) : bool := list_eqb stop_eqb (f_stops F) (f_stops documented).

Definition ok_validation (F : facts) : bool :=
  ok_errors F && ok_queue F && ok_types F && ok_of F && ok_sites F && ok_stops F.

Definition facts_ok (F : facts) : bool :=
  ok_validation F && ok_messages F && ok_pipeline F && ok_resets F.

(** Soundness of the comparisons: the compared components are equal. *)
Lemma list_eqb_eq {A} (eqb : A -> A -> bool) (H : forall x y, eqb x y = true -> x = y) :
  forall a b, list_eqb eqb a b = true -> a = b.
Proof.
  induction a as [|x a IH]; intros [|y b]; simpl; intro E; try discriminate; [reflexivity|].
  apply andb_true_iff in E as [E1 E2]. f_equal; [apply H; exact E1|apply IH; exact E2].
Qed.

Lemma strs_eqb_eq a b : strs_eqb a b = true -> a = b.
Proof. apply list_eqb_eq. intros x y E. apply String.eqb_eq. exact E. Qed.

Lemma opt_str_eqb_eq a b : opt_str_eqb a b = true -> a = b.
Proof. destruct a, b; simpl; intro E; try discriminate; [apply String.eqb_eq in E; congruence|reflexivity]. Qed.

Lemma errdef_eqb_eq a b : errdef_eqb a b = true -> a = b.
Proof.
  destruct a as [n [c r]], b as [n' [c' r']]. unfold errdef_eqb. simpl. intro E.
  apply andb_true_iff in E as [E E3]. apply andb_true_iff in E as [E1 E2].
  apply String.eqb_eq in E1. apply Z.eqb_eq in E2. apply opt_str_eqb_eq in E3. congruence.
Qed.

Lemma masks_eqb_eq a b : masks_eqb a b = true -> a = b.
Proof.
  destruct a, b. unfold masks_eqb. simpl. intro E.
  apply andb_true_iff in E as [E E3]. apply andb_true_iff in E as [E1 E2].
  apply Z.eqb_eq in E1, E2, E3. congruence.
Qed.

Lemma typedef_eqb_eq a b : typedef_eqb a b = true -> a = b.
Proof.
  destruct a, b. unfold typedef_eqb. simpl. intro E.
  apply andb_true_iff in E as [E E3]. apply andb_true_iff in E as [E1 E2].
  apply String.eqb_eq in E1. apply strs_eqb_eq in E2, E3. congruence.
Qed.

Lemma ofdef_eqb_eq a b : ofdef_eqb a b = true -> a = b.
Proof.
  destruct a as [n c o e], b as [n' c' o' e']. unfold ofdef_eqb. simpl. intro E.
  apply andb_true_iff in E as [E E4]. apply andb_true_iff in E as [E E3]. apply andb_true_iff in E as [E1 E2].
  apply String.eqb_eq in E1, E4.
  assert (c = c') by (destruct c, c'; simpl in E2; congruence).
  assert (o = o') by (destruct o, o'; simpl in E3; try discriminate; [apply Z.eqb_eq in E3; congruence|reflexivity]).
  congruence.
Qed.

Lemma drops_eqb_eq a b : drops_eqb a b = true -> a = b.
Proof.
  destruct a, b. unfold drops_eqb. simpl. intro E. apply andb_true_iff in E as [E1 E2].
  apply String.eqb_eq in E1. apply (list_eqb_eq Nat.eqb) in E2; [congruence|].
  intros x y Hxy. apply PeanoNat.Nat.eqb_eq. exact Hxy.
Qed.

Lemma fwd_eqb_eq a b : fwd_eqb a b = true -> a = b.
Proof.
  destruct a, b. unfold fwd_eqb. simpl. intro E. apply andb_true_iff in E as [E1 E2].
  apply String.eqb_eq in E1. apply Bool.eqb_prop in E2. congruence.
Qed.

Lemma ok_errors_eq F : ok_errors F = true ->
  f_errdefs F = f_errdefs documented /\ f_masks F = f_masks documented.
Proof.
  unfold ok_errors. intro E. apply andb_true_iff in E as [E1 E2]. split.
  - apply (list_eqb_eq errdef_eqb errdef_eqb_eq). exact E1.
  - apply masks_eqb_eq. exact E2.
Qed.

Lemma ok_of_eq F : ok_of F = true ->
  f_of_inherit F = f_of_inherit documented /\ f_ofdefs F = f_ofdefs documented.
Proof.
  unfold ok_of. intro E. apply andb_true_iff in E as [E1 E2]. split.
  - apply strs_eqb_eq. exact E1.
  - apply (list_eqb_eq ofdef_eqb ofdef_eqb_eq). exact E2.
Qed.

Lemma ok_sites_eq F : ok_sites F = true ->
  f_sp_drops F = f_sp_drops documented /\ f_forwards_update F = f_forwards_update documented.
Proof.
  unfold ok_sites. intro E. apply andb_true_iff in E as [E1 E2]. split.
  - apply (list_eqb_eq drops_eqb drops_eqb_eq). exact E1.
  - apply (list_eqb_eq fwd_eqb fwd_eqb_eq). exact E2.
Qed.

Lemma ok_types_eq F : ok_types F = true -> f_types F = f_types documented.
Proof. apply (list_eqb_eq typedef_eqb typedef_eqb_eq). Qed.

Lemma ok_queue_eq F : ok_queue F = true ->
  f_priority F = f_priority documented /\ f_mandatory F = f_mandatory documented
  /\ f_queue_excluded F = f_queue_excluded documented
  /\ f_normalization_rules F = f_normalization_rules documented
  /\ f_nullable_drops F = f_nullable_drops documented
  /\ f_empty_drops F = f_empty_drops documented.
Proof.
  unfold ok_queue. intro E.
  repeat (apply andb_true_iff in E as [E ?]).
  repeat split; apply strs_eqb_eq; assumption.
Qed.
