(* Handler.v -- model of errors.BasicErrorHandler (errors.py 463-650): the `errors`
   property.  Messages are tokens (code, field); wording / str.format are not
   modelled.  The live error list is an immutable value here, so "rendering does
   not alter the recorded errors" is modelled by [render] RETURNING the list it
   was given after running the path rewriting on copies (see HandlerProofs). *)
From Coq Require Import List ZArith String Bool Ascii Lia.
From Cerb Require Import Values PyOps Errors Facts Pool.
Import ListNotations.
Open Scope string_scope.
Open Scope Z_scope.
Open Scope list_scope.

Record msg := { g_code : Z; g_field : option key }.

(* tree: field -> (messages, sub-tree) ; the trailing dict of the Python list *)
Inductive rtree := RT (entries : list (key * (list msg * rtree))).

Definition rt_entries (t : rtree) := match t with RT e => e end.
Definition rt_empty : rtree := RT [].

Fixpoint rt_update (k : key) (f : list msg * rtree -> list msg * rtree)
         (es : list (key * (list msg * rtree))) : list (key * (list msg * rtree)) :=
  match es with
  | [] => [(k, f ([], rt_empty))]
  | (k', e) :: r => if key_eqb k k' then (k', f e) :: r else (k', e) :: rt_update k f r
  end.

(* _insert_error(path, message) *)
Fixpoint rt_insert (p : path) (m : msg) (t : rtree) : rtree :=
  match t with
  | RT es =>
      match p with
      | [] => t                                    (* path[0] would raise IndexError: excluded by nonempty paths *)
      | [k] => RT (rt_update k (fun e => (fst e ++ [m], snd e)) es)
      | k :: p' => RT (rt_update k (fun e => (fst e, rt_insert p' m (snd e))) es)
      end
  end.

Section WithFacts.
  Variable F : facts.
  Let M := f_masks F.

  Definition last_key (p : path) : option key :=
    match rev p with k :: _ => Some k | [] => None end.

  Fixpoint skipn_path (n : nat) (p : path) : path :=
    match n, p with
    | O, _ => p
    | S n', _ :: p' => skipn_path n' p'
    | S _, [] => []
    end.

  (* error.definitions_errors: group child errors by schema_path[len(self.schema_path)], insertion-ordered *)
  Fixpoint group_by_def (n : nat) (ch : list error) (acc : list (key * list error)) : list (key * list error) :=
    match ch with
    | [] => acc
    | c :: cs =>
        let i := nth n (spath_list (e_sp c)) (KStr "?") in
        let acc' := match assoc_get i acc with
                    | Some l => assoc_set i (l ++ [c]) acc
                    | None => acc ++ [(i, [c])]
                    end in
        group_by_def n cs acc'
    end.

  Definition definitions_errors (e : error) : list (key * list error) :=
    group_by_def (List.length (spath_list (e_sp e))) (child_errors M e) [].

  Definition key_text (k : key) : string :=
    match k with KStr s => s | KInt z => show_int z end.

  Definition set_dp (e : error) (dp : path) (ch : list error) : error :=
    Err dp (e_sp e) (e_code e) (e_rule e) (e_constraint e) (e_value e) (e_info e) ch.

  (* _rewrite_error_path on the deep copy.  fuel = nesting depth bound *)
  Fixpoint rewrite (fuel : nat) (offset : nat) (e : error) : error :=
    match fuel with
    | O => e
    | S f =>
        if is_logic M e then
          let child_start := (List.length (e_dp e) - offset)%nat in
          let rule := match e_rule e with Some r => r | None => "None" end in
          let n := List.length (spath_list (e_sp e)) in
          let ch' := map (fun c =>
                            let i := nth n (spath_list (e_sp c)) (KStr "?") in
                            let nodename := KStr (rule ++ " definition " ++ key_text i) in
                            let c1 := set_dp c (e_dp e ++ [nodename] ++ skipn_path child_start (e_dp c)) (e_children c) in
                            rewrite f (S offset) c1) (child_errors M e) in
          set_dp e (e_dp e) ch'
        else if is_group M e then
          let child_start := (List.length (e_dp e) - offset)%nat in
          let ch' := map (fun c =>
                            let c1 := set_dp c (e_dp e ++ skipn_path child_start (e_dp c)) (e_children c) in
                            rewrite f offset c1) (child_errors M e) in
          set_dp e (e_dp e) ch'
        else e
    end.

  Definition has_message (c : Z) : bool := existsb (Z.eqb c) (f_messages F).

  Definition mk_msg (field : option key) (e : error) : msg := {| g_code := e_code e; g_field := field |}.

  (* _insert_logic_error / _insert_group_error / leaf insertion *)
  Fixpoint insert_err (fuel : nat) (kind : nat) (parent_field : option key) (e : error) (t : rtree) : rtree :=
    (* kind 0: top-level dispatch of add(); 1: child of a group error; 2: child of a logic error *)
    match fuel with
    | O => t
    | S f =>
        if is_logic M e then
          let field := last_key (e_dp e) in
          let t1 := rt_insert (e_dp e) (mk_msg field e) t in
          fold_left (fun t c => insert_err f 2 field c t) (child_errors M e) t1
        else if is_group M e then
          fold_left (fun t c => insert_err f 1 None c t) (child_errors M e) t
        else
          match kind with
          | O => if has_message (e_code e) then rt_insert (e_dp e) (mk_msg (last_key (e_dp e)) e) t else t
          | 1%nat => rt_insert (e_dp e) (mk_msg (last_key (e_dp e)) e) t
          | _ => rt_insert (e_dp e) (mk_msg parent_field e) t
          end
    end.

  Fixpoint err_depth (e : error) : nat :=
    S ((fix go (l : list error) : nat :=
          match l with [] => O | c :: cs => Nat.max (err_depth c) (go cs) end) (e_children e)).

  (* handler.add(error) *)
  Definition add_error (t : rtree) (e : error) : rtree :=
    let d := err_depth e in
    insert_err (S d) 0 None (rewrite (S d) 0 e) t.

  (* handler(errors): clear; extend; pretty_tree.  Returns the tree AND the error list the
     validator still holds afterwards (untouched: add() works on deep copies). *)
  Definition render (errs : list error) : rtree * list error :=
    (fold_left add_error errs rt_empty, errs).
End WithFacts.
