(* Instance.v -- a validator instance as a state machine over API calls (C07).
   The instance holds persistent configuration (schema, options: changed only as documented) and PER-CALL
   attributes.  Every API call first assigns the attributes listed by the extracted reset lists
   (validate's prologue, __init_processing), then processes; processing may read per-call attributes
   only after they were reset.  The attribute names are those of validator.py. *)
From Coq Require Import List String Bool Ascii.
From Cerb Require Import Values Facts.
Import ListNotations.
Open Scope string_scope.
Open Scope list_scope.

(* attribute name of a reset entry "name=expr" *)
Fixpoint before_eq (s : string) : string :=
  match s with
  | EmptyString => EmptyString
  | String c s' => if Ascii.eqb c "="%char then EmptyString else String c (before_eq s')
  end.

Definition starts_with (p s : string) : bool := String.prefix p s.

(* the attributes assigned unconditionally (or, for _is_normalized, for root validators) by __init_processing *)
Definition init_resets (F : facts) : list string :=
  flat_map (fun e => if starts_with "if not self.is_child: self._is_normalized" e then ["_is_normalized"]
                     else if starts_with "if " e || starts_with "self." e then []
                     else [before_eq e]) (f_resets F).

Definition prologue_resets (F : facts) : list string := map before_eq (f_validate_prologue F).

(* per-call attributes processing reads, per entry point (hand-written from validator.py: the model's own
   read set; a new attribute added to the code is outside the theorem until it is listed here) *)
Definition reads_validate : list string :=
  ["_errors"; "recent_error"; "document_error_tree"; "schema_error_tree"; "document"; "_is_normalized";
   "update"; "_unrequired_by_excludes"].
Definition reads_normalized : list string :=
  ["_errors"; "recent_error"; "document_error_tree"; "schema_error_tree"; "document"; "_is_normalized"].

Definition covers (resets reads : list string) : bool :=
  forallb (fun r => existsb (String.eqb r) resets) reads.

Definition resets_cover_reads (F : facts) : bool :=
  covers (prologue_resets F ++ init_resets F) reads_validate && covers (init_resets F) reads_normalized.

Section Machine.
  Variable V : Type.                         (* attribute values *)
  Definition attrs := list (string * V).

  Definition aget (a : attrs) (n : string) : option V :=
    match find (fun p => String.eqb (fst p) n) a with Some p => Some (snd p) | None => None end.

  Fixpoint aset (n : string) (v : V) (a : attrs) : attrs :=
    match a with
    | [] => [(n, v)]
    | (n', v') :: r => if String.eqb n n' then (n', v) :: r else (n', v') :: aset n v r
    end.

  Variable Cfg Call Out : Type.
  Variable fresh_value : string -> Call -> V.         (* what a reset stores: ErrorList(), copy(document), the flag passed, ... *)
  Variable resets_of : Call -> list string.           (* which attributes the entry point resets *)
  Variable reads_of : Call -> list string.            (* which per-call attributes its processing reads *)
  (* processing: reads the configuration and (only) the listed attributes, handed over as the table of their
     current values; returns new attribute values and the outcome *)
  Variable process : Cfg -> Call -> list (option V) -> attrs * Out.

  Definition apply_resets (c : Call) (a : attrs) : attrs :=
    fold_left (fun a n => aset n (fresh_value n c) a) (resets_of c) a.

  Definition observe (names : list string) (a : attrs) : list (option V) := map (aget a) names.

  Definition step (cfg : Cfg) (a : attrs) (c : Call) : attrs * Out :=
    let a1 := apply_resets c a in
    let '(upd, out) := process cfg c (observe (reads_of c) a1) in
    (fold_left (fun a p => aset (fst p) (snd p) a) upd a1, out).

  Fixpoint run (cfg : Cfg) (a : attrs) (h : list Call) : attrs :=
    match h with [] => a | c :: h' => run cfg (fst (step cfg a c)) h' end.
End Machine.
