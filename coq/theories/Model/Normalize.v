(* Normalize.v -- executable, code-shaped model of the normalization phase
   (validator.py 666-1005): per-level pipeline, coercion chains, container
   recursion, purging, renaming, defaults work-list.  The order of the pipeline
   steps is the extracted token list f_pipeline F.
   The model is functional: a mapping is a value; what Python does by mutating
   the mapping in place is modelled by threading the new mapping.  Aliasing /
   ownership (C05) is modelled separately in Ownership.v. *)
From Coq Require Import List ZArith String Bool Ascii Lia.
From Cerb Require Import Values PyOps Errors Tree Facts Regex Pool Validate Worklist.
Import ListNotations.
Open Scope string_scope.
Open Scope Z_scope.
Open Scope list_scope.

Section WithFacts.
  Variable F : facts.
  Let M := f_masks F.

  Record nstate := { n_map : dict; n_errs : list error }.

  (* the resolved copy of the schema: field -> rules set, None when a reference does not resolve *)
  Definition rschema := list (key * option value).

  Definition resolve_fields (c : config) (sch : dict) : rschema :=
    map (fun kv => (fst kv, resolve_rules_set c (snd kv))) sch.

  Definition with_doc (x : ctx) (m : dict) : ctx :=
    {| x_cfg := x_cfg x; x_schema := x_schema x; x_doc := m; x_dp := x_dp x; x_sp := x_sp x;
       x_update := x_update x |}.

  (* unknown_rules = self._resolve_rules_set(self.allow_unknown): the rules set for unknown fields, if any *)
  Definition unknown_rules (x : ctx) : option dict :=
    match resolve_rules_set (x_cfg x) (c_allow_unknown (x_cfg x)) with
    | Some (VDict d) => Some d
    | _ => None
    end.

  Definition vs_of (ns : nstate) : vstate := {| s_errs := n_errs ns; s_unreq := [] |}.

  Definition nfile (x : ctx) (ns : nstate) (field : key) (defname : string) (info : list value) : res nstate :=
    do st <- file_error F (with_doc x (n_map ns)) (vs_of ns) field defname info [];
    Ok {| n_map := n_map ns; n_errs := s_errs st |}.

  Definition nadd (ns : nstate) (es : list error) : nstate :=
    {| n_map := n_map ns; n_errs := sort_errs (n_errs ns ++ es) |}.

  (* `rule in schema[field]` / schema[field][rule] on a resolved entry; None entry = Python None *)
  Definition rs_has (site : string) (rs : option value) (rule : string) : res bool :=
    match rs with
    | Some (VDict d) => Ok (assoc_mem (KStr rule) d)
    | _ => Raise TypeError site           (* argument of type 'NoneType' is not iterable *)
    end.
  Definition rs_get_default (site : string) (rs : option value) (rule : string) (dflt : value) : res value :=
    match rs with
    | Some (VDict d) => Ok (match assoc_get (KStr rule) d with Some v => v | None => dflt end)
    | _ => Raise AttributeError site      (* 'NoneType' object has no attribute 'get' *)
    end.

  (** ** __normalize_coerce: a named pool function, a callable, or a chain *)
  Definition exc_message (e : pyexn) : value := VStr "exception".

  Definition coerce_one (x : ctx) (ns : nstate) (p : value) (field : key) (v : value) (nullable : bool)
             (errname : string) : res (nstate * value) :=
    match p with
    | VStr name | VFun name =>
        match pool_coerce name v with
        | None => match p with
                  | VStr _ => Raise RuntimeError "__get_rule_handler"
                  | _ => Raise RuntimeError "pool"
                  end
        | Some (UOk r) => Ok (ns, r)
        | Some (URaise e) =>
            if nullable && is_none v then Ok (ns, v)
            else do ns' <- nfile x ns field errname [exc_message e]; Ok (ns', v)
        end
    | _ =>
        (* processor(value) on a non-callable: TypeError, caught by `except Exception` *)
        if nullable && is_none v then Ok (ns, v)
        else do ns' <- nfile x ns field errname [exc_message TypeError]; Ok (ns', v)
    end.

  Fixpoint coerce_chain (x : ctx) (ns : nstate) (ps : list value) (field : key) (v : value) (nullable : bool)
           (errname : string) : res (nstate * value) :=
    match ps with
    | [] => Ok (ns, v)
    | p :: ps' =>
        do r <- coerce_one x ns p field v nullable errname;
        let '(ns', v') := r in
        (* if error in self.document_error_tree.fetch_errors_from(path + (field,)): break *)
        (* `error` is the definition the chain files on failure: COERCION_FAILED for coercers, RENAMING_FAILED for rename handlers *)
        if errlist_has_code (errcode F errname)
             (fetch_errors (build M KDoc (n_errs ns')) (x_dp x ++ [field]))
        then Ok (ns', v')
        else coerce_chain x ns' ps' field v' nullable errname
    end.

  Definition do_coerce (x : ctx) (ns : nstate) (p : value) (field : key) (v : value) (nullable : bool)
             (errname : string) : res (nstate * value) :=
    match p with
    | VList ps => coerce_chain x ns ps field v nullable errname
    | _ => coerce_one x ns p field v nullable errname
    end.

  (** ** rename / rename_handler *)
  Definition value_key (site : string) (v : value) : res key :=
    match value_to_key v with
    | Some k => Ok k
    | None =>
        (* a hashable value that is neither str nor int (None, a float, a bool) IS a key in Python: outside the model's
           key type -- flagged as such, the correspondence check skips the case; an unhashable one raises TypeError *)
        if hashable v then Raise UserError "foreign-key" else Raise TypeError site
    end.

  (* mapping[new] = mapping[field]; del mapping[field] *)
  Definition move_key (site : string) (m : dict) (field new : key) : res dict :=
    match assoc_get field m with
    | None => Raise KeyError site
    | Some v => Ok (assoc_del field (assoc_set new v m))
    end.

  Definition rename_handler_step (x : ctx) (ns : nstate) (rs : option value) (field : key) : res nstate :=
    do has <- rs_has "_normalize_rename_handler" rs "rename_handler";
    if negb has || negb (assoc_mem field (n_map ns)) then Ok ns
    else
      do h <- rs_get_default "_normalize_rename_handler" rs "rename_handler" VNone;
      do r <- do_coerce x ns h field (key_to_value field) false "RENAMING_FAILED";
      let '(ns', newv) := r in
      if py_eq newv (key_to_value field) then Ok ns'
      else if negb (hashable newv) then
        (* mapping[new_name] = ... raised TypeError: reported as a failed renaming, the field keeps its name *)
        nfile x ns' field "RENAMING_FAILED" [VStr "The new name must be hashable."]
      else
        do nk <- value_key "_normalize_rename_handler" newv;
        do m' <- move_key "_normalize_rename_handler" (n_map ns') field nk;
        Ok {| n_map := m'; n_errs := n_errs ns' |}.

  Definition rename_step (x : ctx) (ns : nstate) (rsch : rschema) (field : key) : res nstate :=
    let au := c_allow_unknown (x_cfg x) in
    match assoc_get field rsch with
    | Some None => Raise SchemaRuleTypeError "__normalize_rename_fields"   (* no rules set resolved: the sub-document does not fit *)
    | Some rs =>
        do has <- rs_has "_normalize_rename" rs "rename";
        do ns1 <- (if has then
                     do tgt <- rs_get_default "_normalize_rename" rs "rename" VNone;
                     if py_eq tgt (key_to_value field) then Ok ns else       (* renamed to its own name: nothing to do *)
                     do nk <- value_key "_normalize_rename" tgt;
                     do m' <- move_key "_normalize_rename" (n_map ns) field nk;
                     Ok {| n_map := m'; n_errs := n_errs ns |}
                   else Ok ns);
        rename_handler_step x ns1 rs field
    | None =>
        match unknown_rules x with
        | Some d => if assoc_mem (KStr "rename_handler") d
                    then rename_handler_step x ns (Some (VDict d)) field else Ok ns
        | None => Ok ns
        end
    end.

  Fixpoint rename_fields (x : ctx) (ns : nstate) (rsch : rschema) (fields : list key) : res nstate :=
    match fields with
    | [] => Ok ns
    | f :: fs => do ns' <- rename_step x ns rsch f; rename_fields x ns' rsch fs
    end.

  (** ** purge *)
  Definition purge_unknown_step (ns : nstate) (rsch : rschema) : nstate :=
    {| n_map := filter (fun kv => assoc_mem (fst kv) rsch) (n_map ns); n_errs := n_errs ns |}.

  Fixpoint readonly_fields (rsch : rschema) (m : dict) : res (list key) :=
    match m with
    | [] => Ok []
    | (k, _) :: m' =>
        do ro <- match assoc_get k rsch with
                 | None => Ok false
                 | Some rs => do v <- rs_get_default "__normalize_purge_readonly" rs "readonly" (VBool false); Ok (truthy v)
                 end;
        do r <- readonly_fields rsch m';
        Ok (if ro then k :: r else r)
    end.

  Definition purge_readonly_step (ns : nstate) (rsch : rschema) : res nstate :=
    do ro <- readonly_fields rsch (n_map ns);
    Ok {| n_map := filter (fun kv => negb (key_in (fst kv) ro)) (n_map ns); n_errs := n_errs ns |}.

  (** ** readonly check during normalization (__validate_readonly_fields) *)
  Fixpoint readonly_check (x : ctx) (ns : nstate) (rsch : rschema) : res nstate :=
    match rsch with
    | [] => Ok ns
    | (field, rs) :: rest =>
        match assoc_get field (n_map ns) with
        | None => readonly_check x ns rest
        | Some v =>
            (* self._resolve_rules_set(schema[x]).get('readonly') : schema[x] is already resolved *)
            do ro <- match rs with
                     | Some (VDict d) => Ok (match assoc_get (KStr "readonly") d with Some r => r | None => VNone end)
                     | _ => Raise AttributeError "__validate_readonly_fields"
                     end;
            if truthy ro then
              do out <- h_readonly F (with_doc x (n_map ns)) (vs_of ns) ro field v;
              readonly_check x {| n_map := n_map ns; n_errs := s_errs (o_st out) |} rest
            else readonly_check x ns rest
        end
    end.

  (** ** defaults: `default`, then the default_setter work-list *)
  Fixpoint empty_fields (rsch : rschema) (m : dict) : res (list (key * option value)) :=
    match rsch with
    | [] => Ok []
    | (f, rs) :: rest =>
        do e <- match assoc_get f m with
                | None => Ok true
                | Some VNone =>
                    do n <- rs_get_default "__normalize_default_fields" rs "nullable" (VBool false);
                    Ok (negb (truthy n))
                | Some _ => Ok false
                end;
        do r <- empty_fields rest m;
        Ok (if e then (f, rs) :: r else r)
    end.

  Fixpoint with_rule (rule : string) (l : list (key * option value)) : res (list (key * option value)) :=
    match l with
    | [] => Ok []
    | (f, rs) :: rest =>
        match rs_has "__normalize_default_fields" rs rule with
        | Ok b => do r <- with_rule rule rest; Ok (if b then (f, rs) :: r else r)
        | _ => Raise SchemaRuleTypeError "__normalize_default_fields"   (* except TypeError: raise _SchemaRuleTypeError *)
        end
    end.

  Definition apply_defaults (ns : nstate) (l : list (key * option value)) : nstate :=
    fold_left (fun ns fr =>
                 match snd fr with
                 | Some (VDict d) =>
                     match assoc_get (KStr "default") d with
                     | Some v => {| n_map := assoc_set (fst fr) v (n_map ns); n_errs := n_errs ns |}
                     | None => ns
                     end
                 | _ => ns
                 end) l ns.

  (* one call of a default setter: Ok (Some v) set, Ok None = KeyError (re-queue), or a filed error *)
  Inductive setter_out := SetOk (v : value) | SetRequeue | SetFailed (e : pyexn).

  Definition call_setter (m : dict) (rs : option value) : res setter_out :=
    match rs with
    | Some (VDict d) =>
        match assoc_get (KStr "default_setter") d with
        | Some (VStr name) =>
            match pool_setter name m with
            | Some (UOk v) => Ok (SetOk v)
            | Some (URaise KeyError) => Ok SetRequeue
            | Some (URaise e) => Ok (SetFailed e)
            | None => Ok (SetFailed RuntimeError)      (* no handler: RuntimeError, caught by except Exception *)
            end
        | Some (VFun name) =>
            match pool_setter name m with
            | Some (UOk v) => Ok (SetOk v)
            | Some (URaise KeyError) => Ok SetRequeue
            | Some (URaise e) => Ok (SetFailed e)
            | None => Raise RuntimeError "pool"
            end
        | Some _ => Ok (SetFailed TypeError)           (* calling a non-callable *)
        | None => Ok (SetOk VNone)                      (* unreachable: filtered by with_rule *)
        end
    | _ => Raise TypeError "_normalize_default_setter"
    end.

  (* one work-list step: call the setter of field f (rules looked up in the table of fields with a setter) *)
  Definition setter_call (x : ctx) (table : list (key * option value)) (ns : nstate) (f : key) : res (disp nstate) :=
    let rs := match assoc_get f table with Some r => r | None => None end in
    do o <- call_setter (n_map ns) rs;
    match o with
    | SetOk v => Ok (DDone {| n_map := assoc_set f v (n_map ns); n_errs := n_errs ns |})
    | SetRequeue => Ok DRequeue
    | SetFailed e => do ns' <- nfile x ns f "SETTING_DEFAULT_FAILED" [exc_message e]; Ok (DFailed ns')
    end.

  Fixpoint setter_circular (x : ctx) (ns : nstate) (l : list key) : res nstate :=
    match l with
    | [] => Ok ns
    | g :: l' =>
        do ns' <- nfile x ns g "SETTING_DEFAULT_FAILED" [VStr "Circular dependencies of default setters."];
        setter_circular x ns' l'
    end.

  Definition default_fields (x : ctx) (ns : nstate) (rsch : rschema) : res nstate :=
    do ef <- empty_fields rsch (n_map ns);
    do wd <- with_rule "default" ef;
    let ns1 := apply_defaults ns wd in
    do ws <- with_rule "default_setter" ef;
    wl_run nstate (setter_call x ws) (setter_circular x) ns1 (map fst ws).

  (** ** coerce *)
  Fixpoint coerce_fields (x : ctx) (ns : nstate) (rsch : rschema) (fields : list key) : res nstate :=
    match fields with
    | [] => Ok ns
    | f :: fs =>
        let au := c_allow_unknown (x_cfg x) in
        do own <- match assoc_get f rsch with
                  | Some rs => rs_has "_normalize_coerce" rs "coerce"
                  | None => Ok false
                  end;
        do ns' <-
          match assoc_get f (n_map ns) with
          | None => Ok ns
          | Some v =>
              if own then
                match assoc_get f rsch with
                | Some rs =>
                    do c <- rs_get_default "_normalize_coerce" rs "coerce" VNone;
                    do nl <- rs_get_default "_normalize_coerce" rs "nullable" (VBool false);
                    do r <- do_coerce x ns c f v (truthy nl) "COERCION_FAILED";
                    let '(ns1, v') := r in
                    Ok {| n_map := assoc_set f v' (n_map ns1); n_errs := n_errs ns1 |}
                | None => Ok ns
                end
              else if assoc_mem f rsch then Ok ns       (* elif field not in schema and ... *)
              else
                match unknown_rules x with
                | Some d =>
                    match assoc_get (KStr "coerce") d with
                    | Some c =>
                        let nl := match assoc_get (KStr "nullable") d with Some n => truthy n | None => false end in
                        do r <- do_coerce x ns c f v nl "COERCION_FAILED";
                        let '(ns1, v') := r in
                        Ok {| n_map := assoc_set f v' (n_map ns1); n_errs := n_errs ns1 |}
                    | None => Ok ns
                    end
                | None => Ok ns
                end
          end;
        coerce_fields x ns' rsch fs
    end.

  (** ** containers.  [childn] = a child validator's normalized(doc, always_return_document=True):
      returns its document and its error list. *)
  Section WithChild.
    Variable childn : ctx -> res (dict * list error).

    Definition nchild (x : ctx) (m : dict) (cfg' : config) (schema : dict) (doc : dict)
               (dcrumb scrumb : list key) : ctx :=
      {| x_cfg := as_child cfg' (VDict m); x_schema := schema; x_doc := doc;
         x_dp := x_dp x ++ dcrumb; x_sp := x_sp x ++ scrumb; x_update := x_update x |}.

    Definition bubble (x : ctx) (ns : nstate) (site : string) (ces : list error) : nstate :=
      match ces with
      | [] => ns
      | _ => nadd ns (drop_sp_all F x site ces)
      end.

    Definition norm_keysrules (x : ctx) (ns : nstate) (field : key) (d : dict) (prules : value) : res nstate :=
      let cx := nchild x (n_map ns) (x_cfg x) (map (fun kv => (fst kv, prules)) d)
                       (map (fun kv => (fst kv, key_to_value (fst kv))) d) [field] [field; KStr "keysrules"] in
      do r <- childn cx;
      let '(result, ces) := r in
      let ns1 := bubble x ns "normalize_mapping_per_keysrules" ces in
      (* for k in result: if k == result[k]: continue; ... mapping[field][result[k]] = mapping[field][k] ... *)
      do d' <- (fix go (l : dict) (d : dict) : res dict :=
                  match l with
                  | [] => Ok d
                  | (k, nk) :: l' =>
                      if py_eq (key_to_value k) nk then go l' d
                      else if negb (hashable nk) then go l' d      (* reported below; the entry keeps its key *)
                      else
                        do nkk <- value_key "__normalize_mapping_per_keysrules" nk;
                        match assoc_get k d with
                        | None => Raise KeyError "__normalize_mapping_per_keysrules"
                        | Some v =>
                            if assoc_mem nkk d then go l' (assoc_set nkk v d)
                            else go l' (assoc_del k (assoc_set nkk v d))
                        end
                  end) result d;
      (* one custom error per key that normalization turned into an unhashable value *)
      do ns2 <- (fix rep (l : dict) (ns : nstate) : res nstate :=
                   match l with
                   | [] => Ok ns
                   | (k, nk) :: l' =>
                       if negb (py_eq (key_to_value k) nk) && negb (hashable nk)
                       then do ns' <- nfile x ns field "CUSTOM" [VStr "Normalized keys must be hashable."]; rep l' ns'
                       else rep l' ns
                   end) result ns1;
      Ok {| n_map := assoc_set field (VDict d') (n_map ns2); n_errs := n_errs ns2 |}.

    Definition norm_valuesrules (x : ctx) (ns : nstate) (field : key) (d : dict) (vrules : value) : res nstate :=
      let cx := nchild x (n_map ns) (x_cfg x) (map (fun kv => (fst kv, vrules)) d) d
                       [field] [field; KStr "valuesrules"] in
      do r <- childn cx;
      let '(result, ces) := r in
      let ns1 := {| n_map := assoc_set field (VDict result) (n_map ns); n_errs := n_errs ns |} in
      Ok (bubble x ns1 "normalize_mapping_per_valuesrules" ces).

    Definition norm_mapping_schema (x : ctx) (ns : nstate) (field : key) (d : dict) (rs : option value)
      : res nstate :=
      let au := c_allow_unknown (x_cfg x) in
      (* rules = schema.get(field, {}); if not rules and isinstance(self.allow_unknown, Mapping): rules = allow_unknown *)
      do rules <- match rs with
                  | Some (VDict r) => Ok (match r, unknown_rules x with [], Some a => a | _, _ => r end)
                  | Some _ => Raise AttributeError "__normalize_mapping_per_schema"
                  | None => Ok (match unknown_rules x with Some a => a | None => [] end)
                  end;
      let getd k dflt := match assoc_get (KStr k) rules with Some v => v | None => dflt end in
      let sch := getd "schema" (VDict []) in
      let cfg1 := set_allow_unknown (x_cfg x) (getd "allow_unknown" au) in
      let cfg2 := set_purge_unknown cfg1 (truthy (getd "purge_unknown" (VBool (c_purge_unknown (x_cfg x))))) in
      let cfg3 := set_require_all cfg2 (truthy (getd "require_all" (VBool (c_require_all (x_cfg x))))) in
      (* the child resolves a schema given by name; anything that is not a mapping fails in .copy() *)
      (* a name that is not in the schema registry: _SchemaRuleTypeError in the child, ignored by the container dispatch *)
      (* ... a name that is not the name of a schema is looked up among the rules sets (held against the mapping as the inline
         definition would be) *)
      let resolved := match sch, resolve_schema (x_cfg x) sch with
                      | VStr _, None => resolve_rules_set (x_cfg x) sch
                      | _, r => r
                      end in
      match sch, resolved with
      | _, Some (VDict schd) =>
          let cx := nchild x (n_map ns) cfg3 schd d [field] [field; KStr "schema"] in
          match childn cx with
          | Ok (result, ces) =>
              let ns1 := {| n_map := assoc_set field (VDict result) (n_map ns); n_errs := n_errs ns |} in
              Ok (match ces with [] => ns1 | _ => nadd ns1 ces end)
          | Raise SchemaRuleTypeError _ => Ok ns        (* except _SchemaRuleTypeError: pass *)
          | Raise e s => Raise e s
          | OutOfFuel => OutOfFuel
          end
      | VStr _, None => Ok ns
      | _, _ => Raise AttributeError "__normalize_mapping"
      end.

    Definition dict_values (d : dict) : list value := map snd d.

    Definition norm_sequence_schema (x : ctx) (ns : nstate) (field : key) (l : list value) (srules : value)
      : res nstate :=
      let doc := enumerate l in
      (* a name that is not the name of a rules set is looked up among the schemas *)
      let srules :=
        match srules with
        | VStr _ =>
            match resolve_rules_set (x_cfg x) srules with
            | Some _ => srules
            | None => match resolve_schema (x_cfg x) srules with Some d => d | None => VNone end
            end
        | _ => srules
        end in
      let cx := nchild x (n_map ns) (x_cfg x) (map (fun kv => (fst kv, srules)) doc) doc
                       [field] [field; KStr "schema"] in
      match childn cx with
      | Ok (result, ces) =>
          let ns1 := {| n_map := assoc_set field (VList (dict_values result)) (n_map ns); n_errs := n_errs ns |} in
          Ok (bubble x ns1 "normalize_sequence_per_schema" ces)
      | Raise SchemaRuleTypeError _ => Ok ns        (* except _SchemaRuleTypeError: pass *)
      | Raise e s => Raise e s
      | OutOfFuel => OutOfFuel
      end.

    Definition norm_sequence_items (x : ctx) (ns : nstate) (field : key) (l : list value) (items : value)
      : res nstate :=
      match items with
      | VList its =>
          if negb (Nat.eqb (List.length its) (List.length l)) then Ok ns
          else
            let doc := enumerate l in
            let cx := nchild x (n_map ns) (x_cfg x) (enumerate its) doc [field] [field; KStr "items"] in
            do r <- childn cx;
            let '(result, ces) := r in
            let ns1 := {| n_map := assoc_set field (VList (dict_values result)) (n_map ns); n_errs := n_errs ns |} in
            Ok (bubble x ns1 "normalize_sequence_per_items" ces)
      | _ => Raise TypeError "__normalize_sequence_per_items"
      end.

    Definition rs_rules (rs : option (option value)) : res dict :=
      (* rules = set(schema.get(field, ())) *)
      match rs with
      | None => Ok []
      | Some (Some (VDict d)) => Ok d
      | Some _ => Raise TypeError "__normalize_containers"
      end.

    Fixpoint containers (x : ctx) (ns : nstate) (rsch : rschema) (fields : list key) : res nstate :=
      match fields with
      | [] => Ok ns
      | f :: fs =>
          do ns' <-
            match assoc_get f (n_map ns) with
            | None => Ok ns
            | Some v =>
                (* an unknown field's containers are normalized against the rules for unknown fields *)
                do rules <- match assoc_get f rsch, unknown_rules x with
                            | None, Some d => Ok d
                            | r, _ => rs_rules r
                            end;
                let has r := assoc_mem (KStr r) rules in
                let get r := match assoc_get (KStr r) rules with Some c => c | None => VNone end in
                match v with
                | VDict d =>
                    do ns1 <- (if has "keysrules" then norm_keysrules x ns f d (get "keysrules") else Ok ns);
                    do ns2 <- (if has "valuesrules"
                               then match assoc_get f (n_map ns1) with
                                    | Some (VDict d1) => norm_valuesrules x ns1 f d1 (get "valuesrules")
                                    | _ => Ok ns1
                                    end
                               else Ok ns1);
                    if has "allow_unknown" || has "purge_unknown" || has "schema"
                       || (match unknown_rules x with Some _ => true | None => false end)
                    then match assoc_get f (n_map ns2) with
                         | Some (VDict d2) =>
                             norm_mapping_schema x ns2 f d2
                               (match assoc_get f rsch with Some rs => rs | None => Some (VDict []) end)
                         | _ => Ok ns2
                         end
                    else Ok ns2
                | VStr _ => Ok ns
                | VList l =>
                    if has "schema" then norm_sequence_schema x ns f l (get "schema")
                    else if has "items" then norm_sequence_items x ns f l (get "items")
                    else Ok ns
                | _ => Ok ns
                end
            end;
          containers x ns' rsch fs
      end.

    (** ** the pipeline: a fold over the extracted step tokens *)
    Definition run_step (x : ctx) (rsch : rschema) (tok : string) (ns : nstate) : res nstate :=
      let cfg := x_cfg x in
      if String.eqb tok "normalize_rename_fields" then rename_fields x ns rsch (map fst (n_map ns))
      else if String.eqb tok "normalize_purge_unknown?self.purge_unknown and (not self.allow_unknown)" then
        Ok (if c_purge_unknown cfg && negb (truthy (c_allow_unknown cfg)) then purge_unknown_step ns rsch else ns)
      else if String.eqb tok "normalize_purge_readonly?self.purge_readonly" then
        (if c_purge_readonly cfg then purge_readonly_step ns rsch else Ok ns)
      else if String.eqb tok "validate_readonly_fields" then readonly_check x ns rsch
      else if String.eqb tok "normalize_default_fields" then default_fields x ns rsch
      else if String.eqb tok "normalize_coerce" then coerce_fields x ns rsch (map fst (n_map ns))
      else if String.eqb tok "normalize_containers" then containers x ns rsch (map fst (n_map ns))
      else if String.eqb tok "set_is_normalized" then Ok ns
      else Raise RuntimeError "unknown pipeline step".

    Fixpoint run_pipeline (x : ctx) (rsch : rschema) (toks : list string) (ns : nstate) : res nstate :=
      match toks with
      | [] => Ok ns
      | t :: ts => do ns' <- run_step x rsch t ns; run_pipeline x rsch ts ns'
      end.
  End WithChild.

  (* a (child) validator's normalized(document, always_return_document=True) *)
  Fixpoint normalize_ctx (fuel : nat) (x : ctx) : res (dict * list error) :=
    match fuel with
    | O => OutOfFuel
    | S fuel' =>
        let rsch := resolve_fields (x_cfg x) (x_schema x) in
        (* a field whose rules do not resolve to a rules set: the document is held against something that is no schema *)
        if existsb (fun kv => match snd kv with None => true | Some _ => false end) rsch
        then Raise SchemaRuleTypeError "__normalize_mapping" else
        do ns <- run_pipeline (normalize_ctx fuel') x rsch (f_pipeline F) {| n_map := x_doc x; n_errs := [] |};
        Ok (n_map ns, n_errs ns)
    end.

  (** * API level on a fresh validator *)
  Record outcome := { out_verdict : bool; out_doc : dict; out_errs : list error }.

  Definition root_ctx (cfg : config) (schema doc : dict) (update : bool) : ctx :=
    {| x_cfg := cfg; x_schema := schema; x_doc := doc; x_dp := []; x_sp := []; x_update := update |}.

  (* validate(document, update=u, normalize=n) *)
  Definition api_validate (fuel : nat) (cfg : config) (schema doc : dict) (update normalize : bool)
    : res outcome :=
    if normalize then
      do r <- normalize_ctx fuel (root_ctx (set_is_normalized cfg false) schema doc update);
      let '(doc', nerrs) := r in
      let x' := root_ctx (set_is_normalized cfg true) schema doc' update in
      do errs <- validate_after F fuel x' nerrs;
      Ok {| out_verdict := match errs with [] => true | _ => false end; out_doc := doc'; out_errs := errs |}
    else
      do errs <- validate_ctx F fuel (root_ctx (set_is_normalized cfg false) schema doc update);
      Ok {| out_verdict := match errs with [] => true | _ => false end; out_doc := doc; out_errs := errs |}.

  (* normalized(document, always_return_document=True) and its error list *)
  Definition api_normalized (fuel : nat) (cfg : config) (schema doc : dict) : res outcome :=
    do r <- normalize_ctx fuel (root_ctx (set_is_normalized cfg false) schema doc false);
    let '(doc', nerrs) := r in
    Ok {| out_verdict := match nerrs with [] => true | _ => false end; out_doc := doc'; out_errs := nerrs |}.

  (* validated(document, update, normalize, always_return_document): None exactly when validation recorded errors *)
  Definition api_validated (fuel : nat) (cfg : config) (schema doc : dict) (update normalize always : bool)
    : res (option dict) :=
    do o <- api_validate fuel cfg schema doc update normalize;
    Ok (match out_errs o with
        | [] => Some (out_doc o)
        | _ :: _ => if always then Some (out_doc o) else None
        end).

  (* normalized(document, always_return_document): None exactly when normalization recorded errors *)
  Definition api_normalized_ret (fuel : nat) (cfg : config) (schema doc : dict) (always : bool) : res (option dict) :=
    do o <- api_normalized fuel cfg schema doc;
    Ok (match out_errs o with
        | [] => Some (out_doc o)
        | _ :: _ => if always then Some (out_doc o) else None
        end).
End WithFacts.
