(* Ownership.v -- C05: who owns the container a normalization statement writes into.
   Objects are mappings/sequences with an owner: the caller (the document passed in, at any depth), the schema
   (rule sets, default values, registry entries) or the validator itself (Fresh: created by a copy during this
   call).  validate()/normalized() bind `mapping` to a Fresh shallow copy of the document (its members still
   belong to whoever owned them); every child validator does the same with the sub-document it is handed.
   The write statements of the normalization functions are EXTRACTED from the source (fact group F14) as
   (function, root, depth below the root, re-bound to a copy first?). *)
From Coq Require Import List String Bool Arith.
From Cerb Require Import Values Facts.
Import ListNotations.
Open Scope string_scope.
Open Scope list_scope.

Inductive owner := Caller | SchemaOwned | Fresh.

Definition owner_eqb (a b : owner) : bool :=
  match a, b with Caller, Caller | SchemaOwned, SchemaOwned | Fresh, Fresh => true | _, _ => false end.

Definition site := (string * string * nat * bool)%type.
Definition s_root (s : site) : string := snd (fst (fst s)).
Definition s_depth (s : site) : nat := snd (fst s).
Definition s_copied (s : site) : bool := snd s.

(* the owner of the container a site writes into, given who owns the nested member mapping[field]:
   depth 0 is `mapping` / the copied `schema` itself; deeper is the nested member unless it was re-bound to a copy *)
Definition target_owner (s : site) (nested : owner) : owner :=
  match s_depth s with
  | O => Fresh
  | S _ => if s_copied s then Fresh else nested
  end.

Definition site_ok (s : site) : bool :=
  match s_depth s with
  | O => true
  | S _ => String.eqb (s_root s) "mapping" && s_copied s
  end.

Definition ok_writes (F : facts) : bool := f_entry_copies F && forallb site_ok (f_write_sites F).

(* a run of normalization, abstractly: a sequence of executed write sites, each with the owner of the nested member it meets *)
Definition foreign_writes (run : list (site * owner)) : list (site * owner) :=
  filter (fun so => negb (owner_eqb (target_owner (fst so) (snd so)) Fresh)) run.
