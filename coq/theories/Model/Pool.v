(* Pool.v -- the named pool of user-supplied callables (coercers, rename handlers,
   default setters, check_with functions).  Implemented twice: here in Gallina and
   in harness/pool.py in Python (as plain callables and as methods of a generated
   Validator subclass); the two are diffed against each other on every run.
   User code is an ORACLE of the model, never an axiom: all theorems quantify over
   arbitrary pools where that matters (see Defaults.v). *)
From Coq Require Import List ZArith String Bool Ascii.
From Cerb Require Import Values PyOps.
Import ListNotations.
Open Scope string_scope.
Open Scope Z_scope.
Open Scope list_scope.

(* result of calling user code: a value, or an exception of some class *)
Inductive ures := UOk (v : value) | URaise (e : pyexn).

Definition is_digit (c : ascii) : bool :=
  let n := nat_of_ascii c in (48 <=? n)%nat && (n <=? 57)%nat.

Fixpoint digits_val (s : string) (acc : Z) : option Z :=
  match s with
  | EmptyString => Some acc
  | String c s' =>
      if is_digit c then digits_val s' (10 * acc + Z.of_nat (nat_of_ascii c - 48)) else None
  end.

(* int(s) for the string pool: optional sign, then at least one digit *)
Definition parse_int (s : string) : option Z :=
  match s with
  | EmptyString => None
  | String "-"%char EmptyString => None
  | String "+"%char EmptyString => None
  | String "-"%char s' => match digits_val s' 0 with Some z => Some (- z) | None => None end
  | String "+"%char s' => digits_val s' 0
  | _ => digits_val s 0
  end.

Fixpoint nat_digits (fuel : nat) (n : Z) (acc : string) : string :=
  match fuel with
  | O => acc
  | S f =>
      let d := ascii_of_nat (48 + Z.to_nat (n mod 10)) in
      if Z.ltb n 10 then String d acc else nat_digits f (n / 10) (String d acc)
  end.

Definition show_int (z : Z) : string :=
  if Z.ltb z 0 then String "-"%char (nat_digits 40 (- z) EmptyString) else nat_digits 40 z EmptyString.

(** coercers / rename handlers: value -> value *)
Definition pool_coerce (name : string) (v : value) : option ures :=
  if String.eqb name "to_int" then
    Some (match v with
          | VInt z => UOk (VInt z)
          | VBool b => UOk (VInt (if b then 1 else 0))
          | VFloat q => UOk (VInt (Z.quot q 4))
          | VStr s => match parse_int s with Some z => UOk (VInt z) | None => URaise ValueError end
          | _ => URaise TypeError
          end)
  else if String.eqb name "to_str" then
    Some (match v with
          | VStr s => UOk (VStr s)
          | VInt z => UOk (VStr (show_int z))
          | _ => URaise TypeError
          end)
  else if String.eqb name "inc" then
    Some (match v with
          | VInt z => UOk (VInt (z + 1))
          | VBool b => UOk (VInt (if b then 2 else 1))
          | VFloat q => UOk (VFloat (q + 4))
          | _ => URaise TypeError
          end)
  else if String.eqb name "wrap" then Some (UOk (VList [v]))
  else if String.eqb name "ident" then Some (UOk v)
  else if String.eqb name "none" then Some (UOk VNone)
  else if String.eqb name "fail" then Some (URaise ValueError)
  else if String.eqb name "keyfail" then Some (URaise KeyError)
  else if String.eqb name "failrt" then Some (URaise RuntimeError)
  else if String.eqb name "failattr" then Some (URaise AttributeError)
  else if String.eqb name "prefix_x" then
    Some (match v with
          | VStr s => UOk (VStr ("x" ++ s))
          | _ => URaise TypeError
          end)
  else if String.eqb name "first" then
    Some (match v with
          | VList (a :: _) => UOk a
          | VList [] => URaise IndexError
          | VStr (String c _) => UOk (VStr (String c EmptyString))
          | VStr EmptyString => URaise IndexError
          | VDict d => match assoc_get (KInt 0) d with Some a => UOk a | None => URaise KeyError end
          | _ => URaise TypeError
          end)
  else None.

(** default setters: document -> value.  Names "rd_<letters>" read the fields named by
    the letters (KeyError when one is missing) and return the list of the values read;
    "rdx_<letters>" reads, then raises ValueError; "rdk_<letters>" reads, then raises
    KeyError itself; "const5" returns 5. *)
Fixpoint read_fields (doc : list (key * value)) (s : string) (acc : list value) : ures :=
  match s with
  | EmptyString => UOk (VList (rev acc))
  | String c s' =>
      match assoc_get (KStr (String c EmptyString)) doc with
      | Some v => read_fields doc s' (v :: acc)
      | None => URaise KeyError
      end
  end.

Definition strip_prefix (p s : string) : option string :=
  if String.prefix p s then Some (String.substring (String.length p) (String.length s - String.length p) s)
  else None.

Definition pool_setter (name : string) (doc : list (key * value)) : option ures :=
  if String.eqb name "const5" then Some (UOk (VInt 5))
  else match strip_prefix "rd_" name with
       | Some fs => Some (read_fields doc fs [])
       | None =>
           match strip_prefix "rdx_" name with
           | Some fs => Some (match read_fields doc fs [] with UOk _ => URaise ValueError | r => r end)
           | None =>
               match strip_prefix "rdk_" name with
               | Some fs => Some (match read_fields doc fs [] with UOk _ => URaise KeyError | r => r end)
               | None =>
                   match strip_prefix "rdr_" name with
                   | Some fs => Some (match read_fields doc fs [] with UOk _ => URaise RuntimeError | r => r end)
                   | None => None
                   end
               end
           end
       end.

(** check_with functions: value -> list of custom error messages *)
Definition pool_check (name : string) (v : value) : option (list string) :=
  if String.eqb name "even" then
    Some (match v with
          | VInt z => if Z.eqb (z mod 2) 0 then [] else ["not even"]
          | _ => ["not an int"]
          end)
  else if String.eqb name "never" then Some ["never valid"]
  else if String.eqb name "always" then Some []
  else if String.eqb name "twice" then Some ["first"; "second"]
  else None.
