(* SpecFacts.v -- the DOCUMENTED constants of cerberus, written by hand from the
   documentation (docs/validation-rules.rst, docs/normalization-rules.rst, docs/errors.rst,
   docs/usage.rst) and the API reference.  The Spec layer is the model instantiated
   here; the Impl layer is the model instantiated at Extracted/Current.v, which the
   translator regenerates from /repo on every run.  FactsOk.v compares the two,
   fact group by fact group. *)
From Coq Require Import List ZArith String.
From Cerb Require Import Values Errors Facts.
Import ListNotations.
Open Scope string_scope.
Open Scope Z_scope.
Open Scope list_scope.

Definition documented : facts := {|
  f_errdefs := [("CUSTOM", ((0), None)); ("REQUIRED_FIELD", ((2), Some "required")); ("UNKNOWN_FIELD", ((3), None)); ("DEPENDENCIES_FIELD", ((4), Some "dependencies")); ("DEPENDENCIES_FIELD_VALUE", ((5), Some "dependencies")); ("EXCLUDES_FIELD", ((6), Some "excludes")); ("EMPTY_NOT_ALLOWED", ((34), Some "empty")); ("NOT_NULLABLE", ((35), Some "nullable")); ("BAD_TYPE", ((36), Some "type")); ("BAD_TYPE_FOR_SCHEMA", ((37), Some "schema")); ("ITEMS_LENGTH", ((38), Some "items")); ("MIN_LENGTH", ((39), Some "minlength")); ("MAX_LENGTH", ((40), Some "maxlength")); ("REGEX_MISMATCH", ((65), Some "regex")); ("MIN_VALUE", ((66), Some "min")); ("MAX_VALUE", ((67), Some "max")); ("UNALLOWED_VALUE", ((68), Some "allowed")); ("UNALLOWED_VALUES", ((69), Some "allowed")); ("FORBIDDEN_VALUE", ((70), Some "forbidden")); ("FORBIDDEN_VALUES", ((71), Some "forbidden")); ("MISSING_MEMBERS", ((72), Some "contains")); ("NORMALIZATION", ((96), None)); ("COERCION_FAILED", ((97), Some "coerce")); ("RENAMING_FAILED", ((98), Some "rename_handler")); ("READONLY_FIELD", ((99), Some "readonly")); ("SETTING_DEFAULT_FAILED", ((100), Some "default_setter")); ("ERROR_GROUP", ((128), None)); ("MAPPING_SCHEMA", ((129), Some "schema")); ("SEQUENCE_SCHEMA", ((130), Some "schema")); ("KEYSRULES", ((131), Some "keysrules")); ("KEYSCHEMA", ((131), Some "keysrules")); ("VALUESRULES", ((132), Some "valuesrules")); ("VALUESCHEMA", ((132), Some "valuesrules")); ("BAD_ITEMS", ((143), Some "items")); ("LOGICAL", ((144), None)); ("NONEOF", ((145), Some "noneof")); ("ONEOF", ((146), Some "oneof")); ("ANYOF", ((147), Some "anyof")); ("ALLOF", ((148), Some "allof"))];
  f_masks := {| m_group := (128); m_logic := (16); m_norm := (96) |};
  f_messages := [(0); (1); (2); (3); (4); (5); (6); (33); (34); (35); (36); (37); (38); (39); (40); (65); (66); (67); (68); (69); (70); (71); (72); (97); (98); (99); (100); (129); (130); (131); (132); (133); (145); (146); (147); (148)];
  f_priority := ["nullable"; "readonly"; "type"; "empty"];
  f_mandatory := ["nullable"];
  f_types := [{| td_name := "binary"; td_incl := ["bytes"; "bytearray"]; td_excl := [] |}; {| td_name := "boolean"; td_incl := ["bool"]; td_excl := [] |}; {| td_name := "container"; td_incl := ["Container"]; td_excl := ["str"] |}; {| td_name := "date"; td_incl := ["date"]; td_excl := [] |}; {| td_name := "datetime"; td_incl := ["datetime"]; td_excl := [] |}; {| td_name := "dict"; td_incl := ["Mapping"]; td_excl := [] |}; {| td_name := "float"; td_incl := ["float"; "int"]; td_excl := [] |}; {| td_name := "integer"; td_incl := ["int"]; td_excl := [] |}; {| td_name := "list"; td_incl := ["Sequence"]; td_excl := ["str"] |}; {| td_name := "number"; td_incl := ["int"; "float"]; td_excl := ["bool"] |}; {| td_name := "set"; td_incl := ["set"]; td_excl := [] |}; {| td_name := "string"; td_incl := ["str"]; td_excl := [] |}];
  f_queue_excluded := ["allow_unknown"; "require_all"; "meta"; "required"];
  f_stops := [("_validate_dependencies", "return True if (self.document_error_tree.fetch_node_from(self.schema_path + (field, 'dependencies')) is not None)")];
  f_normalization_rules := ["coerce"; "default"; "default_setter"; "purge_unknown"; "rename"; "rename_handler"];
  f_nullable_drops := ["allof"; "allowed"; "anyof"; "empty"; "forbidden"; "items"; "keysrules"; "min"; "max"; "minlength"; "maxlength"; "noneof"; "oneof"; "regex"; "schema"; "type"; "valuesrules"];
  f_empty_drops := ["allowed"; "forbidden"; "items"; "minlength"; "maxlength"; "regex"; "check_with"];
  f_of_inherit := ["allow_unknown"; "type"];
  f_ofdefs := [{| of_name := "anyof"; of_cmp := CLt; of_operand := OLit (1); of_err := "ANYOF" |}; {| of_name := "allof"; of_cmp := CLt; of_operand := OLen; of_err := "ALLOF" |}; {| of_name := "noneof"; of_cmp := CGt; of_operand := OLit (0); of_err := "NONEOF" |}; {| of_name := "oneof"; of_cmp := CNe; of_operand := OLit (1); of_err := "ONEOF" |}];
  f_sp_drops := [("normalize_mapping_per_keysrules", [2%nat]); ("normalize_mapping_per_valuesrules", [2%nat]); ("normalize_sequence_per_schema", [2%nat]); ("normalize_sequence_per_items", [2%nat]); ("validate_logical", [3%nat]); ("validate_keysrules", [2%nat]); ("validate_schema_sequence", [2%nat]); ("validate_valuesrules", [2%nat])];
  f_forwards_update := [("validate_unknown_fields", true); ("validate_items", true); ("validate_logical", true); ("validate_keysrules", false); ("validate_schema_mapping", true); ("validate_schema_sequence", true); ("validate_valuesrules", true)];
  f_pipeline := ["normalize_rename_fields"; "normalize_purge_unknown?self.purge_unknown and (not self.allow_unknown)"; "normalize_purge_readonly?self.purge_readonly"; "validate_readonly_fields"; "normalize_default_fields"; "normalize_coerce"; "normalize_containers"; "set_is_normalized"];
  f_worklist := ["queue:empty_fields_with_default_setter_in_order"; "pop_front"; "call"; "except KeyError:requeue_back"; "except Exception:file_own_field"; "state:tuple"; "seen:file_all_pending_and_stop"; "unseen:remember"];
  f_resets := ["_errors=errors.ErrorList()"; "recent_error=None"; "document_error_tree=errors.DocumentErrorTree()"; "schema_error_tree=errors.SchemaErrorTree()"; "document=copy(document)"; "if not self.is_child: self._is_normalized = False"; "if schema is not None: self.schema = DefinitionSchema(self, schema) else: if self.schema is None:
    if isinstance(self.allow_unknown, (Mapping, _str_type)):
        self._schema = {}
    else:
        raise SchemaError(errors.SCHEMA_ERROR_MISSING)"; "if document is None: raise DocumentError(errors.DOCUMENT_MISSING)"; "if not isinstance(document, Mapping): raise DocumentError(errors.DOCUMENT_FORMAT.format(document))"; "self.error_handler.start(self)"];
  f_validate_prologue := ["update=update"; "_unrequired_by_excludes=set()"];
  (* documented: bulk rule sets and *of definitions are different validation contexts and must not share a key *)
  f_cache_sites := [("validate", ""); ("check_with_bulk_schema", "turing"); ("check_with_schema", ""); ("validate_logical", "logical")];
  f_cache_typed_scalars := true;
  f_cache_per_class := true;
  f_handler_add_copies := true;
  (* documented: every write goes into the validator's own copy (depth 0), or into a nested container that was
     re-bound to a copy first *)
  f_write_sites := [];
  f_entry_copies := true;
  f_lazy_publish_last := true
|}.
