(* Threads.v -- C18: an interleaving semantics for threads that share state (one atomic step = one source line).
   A thread is a list of operations over (shared store, local state); a schedule is a list of thread ids; a thread
   named by the schedule executes its next operation (a thread that has finished is skipped). *)
From Coq Require Import List Arith Bool.
Import ListNotations.
Open Scope list_scope.

Section Threads.
  Variables St Lo : Type.

  Definition op := St -> Lo -> St * Lo.
  Definition thread := (Lo * list op)%type.

  Fixpoint step_nth (i : nat) (s : St) (ts : list thread) : St * list thread :=
    match ts with
    | [] => (s, [])
    | (l, ops) :: rest =>
        match i with
        | O => match ops with
               | [] => (s, ts)
               | o :: ops' => let '(s', l') := o s l in (s', (l', ops') :: rest)
               end
        | S i' => let '(s', rest') := step_nth i' s rest in (s', (l, ops) :: rest')
        end
    end.

  Fixpoint run (sched : list nat) (s : St) (ts : list thread) : St * list thread :=
    match sched with
    | [] => (s, ts)
    | i :: sched' => let '(s', ts') := step_nth i s ts in run sched' s' ts'
    end.

  (* a thread executed alone: its first k operations *)
  Fixpoint alone (k : nat) (s : St) (t : thread) : St * thread :=
    match k with
    | O => (s, t)
    | S k' => match snd t with
              | [] => (s, t)
              | o :: ops' => let '(s', l') := o s (fst t) in alone k' s' (l', ops')
              end
    end.
End Threads.
