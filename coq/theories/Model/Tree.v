(* Tree.v -- model of errors.ErrorTree / ErrorTreeNode (cerberus/errors.py 210-353).
   Executable definitions only; the theorems are in Proofs/TreeProofs.v. *)
From Coq Require Import List ZArith String Bool Lia.
From Cerb Require Import Values PyOps Errors.
Import ListNotations.
Open Scope list_scope.

Inductive tree := Node (errs : list error) (kids : list (key * tree)).

Inductive tkind := KDoc | KSch.

Definition path_of (kd : tkind) (e : error) : path :=
  match kd with KDoc => e_dp e | KSch => spath_list (e_sp e) end.

Definition empty_tree : tree := Node [] [].

Definition node_errs (t : tree) : list error := match t with Node e _ => e end.
Definition node_kids (t : tree) : list (key * tree) := match t with Node _ k => k end.

(* self[key] = ErrorTreeNode(...) if key not in self.descendants; node = self[key]; f(node) *)
Fixpoint kids_update (k : key) (f : tree -> tree) (kids : list (key * tree))
  : list (key * tree) :=
  match kids with
  | [] => [(k, f empty_tree)]
  | (k', t) :: r =>
      if key_eqb k k' then (k', f t) :: r else (k', t) :: kids_update k f r
  end.

(* ErrorTreeNode.add without the re-insertion of children: walk down the
   remaining path, creating nodes; at the end append and sort. With the empty
   path this is the root branch of ErrorTree.add. *)
Fixpoint insert (p : path) (e : error) (t : tree) : tree :=
  match t with
  | Node errs kids =>
      match p with
      | [] => Node (sort_errs (errs ++ [e])) kids
      | k :: p' => Node errs (kids_update k (insert p' e) kids)
      end
  end.

Section WithMasks.
  Variable m : masks.

  (* ErrorTree.add: empty path -> root list (children are NOT re-inserted);
     otherwise insert, then every child error is added from the root. *)
  Fixpoint tree_add (kd : tkind) (e : error) (t : tree) : tree :=
    let p := path_of kd e in
    let t' := insert p e t in
    match p with
    | [] => t'
    | _ :: _ =>
        if is_group m e
        then (fix go (l : list error) (t : tree) : tree :=
                match l with
                | [] => t
                | c :: cs => go cs (tree_add kd c t)
                end) (e_children e) t'
        else t'
    end.

  Definition tree_add_all (kd : tkind) (l : list error) (t : tree) : tree :=
    fold_left (fun t e => tree_add kd e t) l t.

  Definition build (kd : tkind) (l : list error) : tree := tree_add_all kd l empty_tree.

  (* What the tree is specified to contain: the error, and - unless its path
     is empty - the errors of its children, recursively. *)
  Fixpoint tflat_err (kd : tkind) (e : error) : list error :=
    e :: match path_of kd e with
         | [] => []
         | _ :: _ =>
             if is_group m e
             then (fix go (l : list error) : list error :=
                     match l with
                     | [] => []
                     | c :: cs => tflat_err kd c ++ go cs
                     end) (e_children e)
             else []
         end.

  Definition tflat (kd : tkind) (l : list error) : list error :=
    flat_map (tflat_err kd) l.
End WithMasks.

(** Queries *)
Fixpoint fetch_node (t : tree) (p : path) : option tree :=
  match p with
  | [] => Some t
  | k :: p' =>
      match assoc_get k (node_kids t) with
      | Some c => fetch_node c p'
      | None => None
      end
  end.

Definition fetch_errors (t : tree) (p : path) : list error :=
  match fetch_node t p with
  | Some n => node_errs n
  | None => []
  end.

(* node[<ErrorDefinition>] and <ErrorDefinition> in node *)
Definition node_contains_code (n : tree) (c : Z) : bool := errlist_has_code c (node_errs n).
Definition node_get_code (n : tree) (c : Z) : option error :=
  find (fun e => Z.eqb (e_code e) c) (node_errs n).

(* every error stored anywhere in the tree *)
Fixpoint all_errors (t : tree) : list error :=
  match t with
  | Node errs kids =>
      errs ++ (fix go (l : list (key * tree)) : list error :=
                 match l with
                 | [] => []
                 | (_, c) :: r => all_errors c ++ go r
                 end) kids
  end.

Definition tree_is_empty (t : tree) : bool :=
  match t with Node [] [] => true | _ => false end.
