(* Validate.v -- executable, code-shaped model of cerberus' validation phase
   (validator.py: _error, _get_child_validator, _lookup_field, validate,
   __validate_definitions, the rule handlers, *of, required pass).
   Parametrised by the fact record F re-read from the source on every run.
   Exceptions that CPython would raise on JSON-like input are modelled
   explicitly (res monad); child validators consume one unit of fuel. *)
From Coq Require Import List ZArith String Bool Ascii Lia.
From Cerb Require Import Values PyOps Errors Tree Facts Regex Pool.
Import ListNotations.
Open Scope string_scope.
Open Scope Z_scope.
Open Scope list_scope.

(** * Configuration and context *)

Record config := {
  c_allow_unknown : value;      (* bool | rules-set mapping | rules-set name *)
  c_require_all : bool;
  c_ignore_none : bool;
  c_purge_unknown : bool;
  c_purge_readonly : bool;
  c_is_child : bool;
  c_is_normalized : bool;
  c_root_doc : value;           (* meaningful when c_is_child *)
  c_rules_reg : list (string * value);
  c_schema_reg : list (string * value)
}.

Definition set_allow_unknown (c : config) (v : value) : config :=
  {| c_allow_unknown := v; c_require_all := c_require_all c; c_ignore_none := c_ignore_none c;
     c_purge_unknown := c_purge_unknown c; c_purge_readonly := c_purge_readonly c;
     c_is_child := c_is_child c; c_is_normalized := c_is_normalized c; c_root_doc := c_root_doc c;
     c_rules_reg := c_rules_reg c; c_schema_reg := c_schema_reg c |}.
Definition set_require_all (c : config) (b : bool) : config :=
  {| c_allow_unknown := c_allow_unknown c; c_require_all := b; c_ignore_none := c_ignore_none c;
     c_purge_unknown := c_purge_unknown c; c_purge_readonly := c_purge_readonly c;
     c_is_child := c_is_child c; c_is_normalized := c_is_normalized c; c_root_doc := c_root_doc c;
     c_rules_reg := c_rules_reg c; c_schema_reg := c_schema_reg c |}.
Definition set_purge_unknown (c : config) (b : bool) : config :=
  {| c_allow_unknown := c_allow_unknown c; c_require_all := c_require_all c; c_ignore_none := c_ignore_none c;
     c_purge_unknown := b; c_purge_readonly := c_purge_readonly c;
     c_is_child := c_is_child c; c_is_normalized := c_is_normalized c; c_root_doc := c_root_doc c;
     c_rules_reg := c_rules_reg c; c_schema_reg := c_schema_reg c |}.
Definition set_is_normalized (c : config) (b : bool) : config :=
  {| c_allow_unknown := c_allow_unknown c; c_require_all := c_require_all c; c_ignore_none := c_ignore_none c;
     c_purge_unknown := c_purge_unknown c; c_purge_readonly := c_purge_readonly c;
     c_is_child := c_is_child c; c_is_normalized := b; c_root_doc := c_root_doc c;
     c_rules_reg := c_rules_reg c; c_schema_reg := c_schema_reg c |}.
(* _get_child_validator: root_* captured only when the parent is not a child *)
Definition as_child (c : config) (parent_doc : value) : config :=
  {| c_allow_unknown := c_allow_unknown c; c_require_all := c_require_all c; c_ignore_none := c_ignore_none c;
     c_purge_unknown := c_purge_unknown c; c_purge_readonly := c_purge_readonly c;
     c_is_child := true; c_is_normalized := c_is_normalized c;
     c_root_doc := if c_is_child c then c_root_doc c else parent_doc;
     c_rules_reg := c_rules_reg c; c_schema_reg := c_schema_reg c |}.

Definition dict := list (key * value).

Record ctx := {
  x_cfg : config;
  x_schema : dict;              (* field -> rules set (mapping or registry name) *)
  x_doc : dict;
  x_dp : path;
  x_sp : path;
  x_update : bool
}.

Record vstate := { s_errs : list error; s_unreq : list key }.

Definition reg_get (reg : list (string * value)) (name : string) : option value :=
  match find (fun p => String.eqb (fst p) name) reg with
  | Some p => Some (snd p)
  | None => None
  end.

(* _resolve_rules_set / _resolve_schema: None result = Python None *)
Definition resolve_rules_set (c : config) (v : value) : option value :=
  match v with
  | VDict _ => Some v
  | VStr s => reg_get (c_rules_reg c) s
  | _ => None
  end.
Definition resolve_schema (c : config) (v : value) : option value :=
  match v with
  | VDict _ => Some v
  | VStr s => reg_get (c_schema_reg c) s
  | _ => None
  end.

Definition as_true (v : value) : bool := match v with VBool true => true | _ => false end.
Definition key_in (k : key) (l : list key) : bool := existsb (key_eqb k) l.
Definition add_key (k : key) (l : list key) : list key := if key_in k l then l else l ++ [k].

Definition site_attr (s : string) : string := s.

(** * _error *)
Section WithFacts.
  Variable F : facts.
  Let M := f_masks F.

  Definition doc_tree (st : vstate) : tree := build M KDoc (s_errs st).

  Definition add_errors (st : vstate) (es : list error) : vstate :=
    {| s_errs := sort_errs (s_errs st ++ es); s_unreq := s_unreq st |}.

  (* self._error(field, errors.<name>, *info) with optional child-error list *)
  Definition mk_error (x : ctx) (field : key) (defname : string)
             (info : list value) (children : list error) : res error :=
    let '(code, rule) := errdef F defname in
    let dp := x_dp x ++ [field] in
    let sp0 := match rule with
               | Some r => if Z.eqb code (errcode F "UNKNOWN_FIELD") then x_sp x
                           else x_sp x ++ [field; KStr r]
               | None => x_sp x
               end in
    let value := match assoc_get field (x_doc x) with Some v => v | None => VNone end in
    match rule with
    | None => Ok (Err dp (SP sp0) code rule VNone value info children)
    | Some r =>
        (* self._resolve_schema(self.schema).get(field, self.allow_unknown) *)
        match (match assoc_get field (x_schema x) with
               | Some rs0 => Some rs0
               | None => Some (c_allow_unknown (x_cfg x))
               end) with
        | None => Raise KeyError "_error"
        | Some rs0 =>
            match resolve_rules_set (x_cfg x) rs0 with
            | None => Raise AttributeError "_error"
            | Some rs =>
                if String.eqb r "nullable" then
                  Ok (Err dp (SP sp0) code rule (vget_default r (VBool false) rs) value info children)
                else if String.eqb r "required" then
                  Ok (Err dp (if vmem r rs then SP sp0 else SPStr "__require_all__") code rule
                          (vget_default r (VBool (c_require_all (x_cfg x))) rs) value info children)
                else
                  match vget r rs with
                  | Some k => Ok (Err dp (SP sp0) code rule k value info children)
                  | None => Raise KeyError "_error"
                  end
            end
        end
    end.

  Definition file_error (x : ctx) (st : vstate) (field : key) (defname : string)
             (info : list value) (children : list error) : res vstate :=
    do e <- mk_error x field defname info children;
    Ok (add_errors st [e]).

  (** * _drop_nodes_from_errorpaths (schema-path part; dp lists are always []) *)
  Fixpoint drop_sp (base : nat) (idx : list nat) (e : error) : error :=
    match e with
    | Err dp sp c r k v i ch =>
        Err dp (fold_left (fun s i => spath_drop (base + i) s) (rev idx) sp) c r k v i
            ((fix go (l : list error) : list error :=
                match l with [] => [] | x :: xs => drop_sp base idx x :: go xs end) ch)
    end.
  (* note: indices are applied in descending order (sorted(..., reverse=True));
     the extracted lists are ascending, so [rev] gives the code's order. The
     recursion follows error.child_errors; for non-group errors the child list
     is empty by construction (see ValidateProofs.children_only_on_groups). *)

  Definition drop_sp_all (x : ctx) (site : string) (es : list error) : list error :=
    map (drop_sp (List.length (x_sp x)) (sp_drops F site)) es.

  (** * _lookup_field *)
  Definition lookup_step (context : value) (part : string) : res (option value) :=
    (* if not isinstance(context, Mapping) or part not in context: return None, None
       context = context.get(part, {}) *)
    match context with
    | VDict d =>
        match assoc_get (KStr part) d with
        | Some v => Ok (Some v)
        | None => Ok None
        end
    | _ => Ok None
    end.

  Fixpoint lookup_parts (context : value) (parts : list string) : res (option value) :=
    match parts with
    | [] => Ok (Some context)
    | p :: ps =>
        do r <- lookup_step context p;
        match r with
        | None => Ok None
        | Some v => lookup_parts v ps
        end
    end.

  (* returns Some value when found (the field name, parts[-1], is then never None) *)
  Definition lookup_field (x : ctx) (pathv : value) : res (option value) :=
    match pathv with
    | VStr p =>
        if starts_with_caret p then
          let p1 := tail_string p in
          let context := if starts_with_caret p1 then VDict (x_doc x)
                         else (if c_is_child (x_cfg x) then c_root_doc (x_cfg x) else VDict (x_doc x)) in
          lookup_parts context (split_dot p1)
        else lookup_parts (VDict (x_doc x)) (split_dot p)
    | _ => Raise AttributeError "_lookup_field"
    end.

  (** * Rule handlers *)
  Inductive dropreq := DNone | DList (l : list string) | DAll.
  Record hout := { o_st : vstate; o_drop : dropreq; o_stop : bool }.
  Definition plain (st : vstate) : res hout := Ok {| o_st := st; o_drop := DNone; o_stop := false |}.

  Definition type_matches (v : value) (tname : string) : res bool :=
    match find (fun td => String.eqb (td_name td) tname) (f_types F) with
    | Some td => Ok (existsb (is_instance v) (td_incl td) && negb (existsb (is_instance v) (td_excl td)))
    | None => Raise RuntimeError "__get_rule_handler"
    end.

  Fixpoint any_type_matches (v : value) (ts : list value) : res bool :=
    match ts with
    | [] => Ok false
    | VStr t :: ts' => do b <- type_matches v t; if b then Ok true else any_type_matches v ts'
    | _ :: _ => Raise TypeError "_validate_type"
    end.

  Definition h_nullable (x : ctx) (st : vstate) (c : value) (field : key) (v : value) : res hout :=
    if is_none v then
      do st' <- (if truthy c then Ok st else file_error x st field "NOT_NULLABLE" [] []);
      Ok {| o_st := st'; o_drop := DList (f_nullable_drops F); o_stop := false |}
    else plain st.

  Definition h_readonly (x : ctx) (st : vstate) (c : value) (field : key) (v : value) : res hout :=
    if truthy c then
      let norm := c_is_normalized (x_cfg x) in
      do st' <- (if norm then Ok st else file_error x st field "READONLY_FIELD" [] []);
      let has_error := errlist_has_code (errcode F "READONLY_FIELD")
                         (fetch_errors (doc_tree st') (x_dp x ++ [field])) in
      Ok {| o_st := st'; o_drop := if norm && has_error then DAll else DNone; o_stop := false |}
    else plain st.

  Definition h_type (x : ctx) (st : vstate) (c : value) (field : key) (v : value) : res hout :=
    if negb (truthy c) then plain st
    else
      do ts <- match c with
               | VStr _ => Ok [c]
               | VList l => Ok l
               | _ => Raise TypeError "_validate_type"
               end;
      do m <- any_type_matches v ts;
      if m then plain st
      else do st' <- file_error x st field "BAD_TYPE" [] [];
           Ok {| o_st := st'; o_drop := DAll; o_stop := false |}.

  Definition h_empty (x : ctx) (st : vstate) (c : value) (field : key) (v : value) : res hout :=
    match py_len v with
    | Some O =>
        do st' <- (if truthy c then Ok st else file_error x st field "EMPTY_NOT_ALLOWED" [] []);
        Ok {| o_st := st'; o_drop := DList (f_empty_drops F); o_stop := false |}
    | _ => plain st
    end.

  Fixpoint filter_not_in (l : list value) (c : value) : res (list value) :=
    match l with
    | [] => Ok []
    | a :: l' =>
        match py_in a c with
        | None => Raise TypeError "_validate_allowed"
        | Some b => do r <- filter_not_in l' c; Ok (if b then r else a :: r)
        end
    end.

  (* a mapping (or a set) of allowed values is read as the list of its members: nothing is hashed *)
  Definition allowed_members (c : value) : value :=
    match c with VDict d => VList (map (fun kv => key_to_value (fst kv)) d) | _ => c end.

  Definition h_allowed0 (x : ctx) (st : vstate) (c : value) (field : key) (v : value) : res hout :=
    if is_iterable v && negb (is_str v) then
      match py_iter v with
      | None => plain st
      | Some l =>
          do un <- filter_not_in l c;
          match un with
          | [] => plain st
          | _ => do st' <- file_error x st field "UNALLOWED_VALUES" [VList un] []; plain st'
          end
      end
    else
      match py_in v c with
      | None => Raise TypeError "_validate_allowed"
      | Some true => plain st
      | Some false => do st' <- file_error x st field "UNALLOWED_VALUE" [v] []; plain st'
      end.

  Definition h_allowed (x : ctx) (st : vstate) (c : value) (field : key) (v : value) : res hout :=
    h_allowed0 x st (allowed_members c) field v.

  Fixpoint filter_in (l : list value) (c : value) : res (list value) :=
    match l with
    | [] => Ok []
    | a :: l' =>
        match py_in a c with
        | None => Raise TypeError "_validate_forbidden"
        | Some b => do r <- filter_in l' c; Ok (if b then a :: r else r)
        end
    end.

  Definition h_contains (x : ctx) (st : vstate) (c : value) (field : key) (v : value) : res hout :=
    match py_iter v with
    | None => plain st            (* if not isinstance(value, Iterable): return *)
    | Some present =>
        (* the expected members are compared by equality (never hashed): duplicates count once *)
        let expected := if negb (is_iterable c) || is_str c
                        then Some [c]
                        else option_map dedup (py_iter c) in
        match expected with
        | Some ex =>
            match filter (fun e => negb (existsb (py_eq e) present)) ex with
            | [] => plain st
            | missing => do st' <- file_error x st field "MISSING_MEMBERS" [VList missing] []; plain st'
            end
        | None => Raise TypeError "_validate_contains"
        end
    end.

  Definition h_forbidden (x : ctx) (st : vstate) (c : value) (field : key) (v : value) : res hout :=
    if is_sequence v && negb (is_str v) then
      match py_iter v with
      | None => plain st
      | Some l =>
          do fb <- filter_in l c;
          match fb with
          | [] => plain st
          | _ => do st' <- file_error x st field "FORBIDDEN_VALUES" [VList fb] []; plain st'
          end
      end
    else
      match py_in v c with
      | None => Raise TypeError "_validate_forbidden"
      | Some false => plain st
      | Some true => do st' <- file_error x st field "FORBIDDEN_VALUE" [v] []; plain st'
      end.

  Definition h_max (x : ctx) (st : vstate) (c : value) (field : key) (v : value) : res hout :=
    match py_gt v c with
    | Some true => do st' <- file_error x st field "MAX_VALUE" [] []; plain st'
    | _ => plain st           (* incl. except TypeError: pass *)
    end.
  Definition h_min (x : ctx) (st : vstate) (c : value) (field : key) (v : value) : res hout :=
    match py_lt v c with
    | Some true => do st' <- file_error x st field "MIN_VALUE" [] []; plain st'
    | _ => plain st
    end.

  Definition h_maxlength (x : ctx) (st : vstate) (c : value) (field : key) (v : value) : res hout :=
    if is_iterable v then
      match py_len v with
      | Some n =>
          match py_gt (VInt (Z.of_nat n)) c with
          | None => Raise TypeError "_validate_maxlength"
          | Some true => do st' <- file_error x st field "MAX_LENGTH" [VInt (Z.of_nat n)] []; plain st'
          | Some false => plain st
          end
      | None => Raise TypeError "_validate_maxlength"
      end
    else plain st.
  Definition h_minlength (x : ctx) (st : vstate) (c : value) (field : key) (v : value) : res hout :=
    if is_iterable v then
      match py_len v with
      | Some n =>
          match py_lt (VInt (Z.of_nat n)) c with
          | None => Raise TypeError "_validate_minlength"
          | Some true => do st' <- file_error x st field "MIN_LENGTH" [VInt (Z.of_nat n)] []; plain st'
          | Some false => plain st
          end
      | None => Raise TypeError "_validate_minlength"
      end
    else plain st.

  Definition h_regex (x : ctx) (st : vstate) (c : value) (field : key) (v : value) : res hout :=
    match v with
    | VStr s =>
        match c with
        | VStr pat =>
            match regex_fullmatch pat s with
            | None => Raise ValueError "_validate_regex"   (* pattern outside the modelled grammar *)
            | Some true => plain st
            | Some false => do st' <- file_error x st field "REGEX_MISMATCH" [] []; plain st'
            end
        | _ => Raise AttributeError "_validate_regex"
        end
    | _ => plain st
    end.

  (** check_with: named pool functions (as method names or as callables), or a list of them *)
  Fixpoint file_customs (x : ctx) (st : vstate) (field : key) (msgs : list string) : res vstate :=
    match msgs with
    | [] => Ok st
    | m :: ms => do st' <- file_error x st field "CUSTOM" [VStr m] []; file_customs x st' field ms
    end.

  Definition check_one (x : ctx) (st : vstate) (c : value) (field : key) (v : value) : res vstate :=
    match c with
    | VStr name | VFun name =>
        match pool_check name v with
        | Some msgs => file_customs x st field msgs
        | None => Raise RuntimeError "__get_rule_handler"
        end
    | _ => Raise TypeError "_validate_check_with"
    end.

  Fixpoint check_list (x : ctx) (st : vstate) (cs : list value) (field : key) (v : value) : res vstate :=
    match cs with
    | [] => Ok st
    | c :: cs' => do st' <- check_one x st c field v; check_list x st' cs' field v
    end.

  Definition h_check_with (x : ctx) (st : vstate) (c : value) (field : key) (v : value) : res hout :=
    do st' <- match c with
              | VList cs => check_list x st cs field v
              | _ => check_one x st c field v
              end;
    plain st'.

  (** dependencies *)
  Fixpoint deps_sequence (x : ctx) (st : vstate) (field : key) (deps : list value) : res vstate :=
    match deps with
    | [] => Ok st
    | d :: ds =>
        do r <- lookup_field x d;
        do st' <- match r with
                  | Some _ => Ok st
                  | None => file_error x st field "DEPENDENCIES_FIELD" [d] []
                  end;
        deps_sequence x st' field ds
    end.

  Fixpoint deps_mapping (x : ctx) (deps : list (key * value)) (okc : nat) (info : dict)
    : res (nat * dict) :=
    match deps with
    | [] => Ok (okc, info)
    | (name, vals) :: ds =>
        let vals' := match vals with VList l => l | _ => [vals] end in
        do r <- lookup_field x (key_to_value name);
        let wanted := match r with Some v => v | None => VNone end in
        if existsb (py_eq wanted) vals'
        then deps_mapping x ds (S okc) info
        else deps_mapping x ds okc (assoc_set name wanted info)
    end.

  Definition h_dependencies (x : ctx) (st : vstate) (c : value) (field : key) (v : value) : res hout :=
    do st' <- match c with
              | VList l => deps_sequence x st field l
              | VDict d =>
                  do r <- deps_mapping x d O [];
                  let '(okc, info) := r in
                  if Nat.eqb okc (List.length d) then Ok st
                  else file_error x st field "DEPENDENCIES_FIELD_VALUE" [VDict info] []
              | _ => deps_sequence x st field [c]
              end;
    (* document_error_tree.fetch_node_from(self.schema_path + (field, 'dependencies')) is not None *)
    let node := fetch_node (doc_tree st') (x_sp x ++ [field; KStr "dependencies"]) in
    Ok {| o_st := st'; o_drop := DNone; o_stop := match node with Some _ => true | None => false end |}.

  (** excludes *)
  Definition h_excludes (x : ctx) (st : vstate) (c : value) (field : key) (v : value) : res hout :=
    let exs := if hashable c then [c] else match c with VList l => l | _ => [] end in
    match (match assoc_get field (x_schema x) with
           | None => None
           | Some rs0 => Some (resolve_rules_set (x_cfg x) rs0)
           end) with
    | None => Raise KeyError "_validate_excludes"
    | Some (Some (VDict rs)) =>
        let req := truthy (match assoc_get (KStr "required") rs with
                           | Some r => r
                           | None => VBool (c_require_all (x_cfg x)) end) in
        let un1 := if req then add_key field (s_unreq st) else s_unreq st in
        let un2 := fold_left (fun un ex =>
                                match value_to_key ex with
                                | Some k => if assoc_mem k (x_schema x) && req then add_key k un else un
                                | None => un
                                end) exs un1 in
        let st1 := {| s_errs := s_errs st; s_unreq := un2 |} in
        if existsb (fun ex => match value_to_key ex with
                              | Some k => assoc_mem k (x_doc x)
                              | None => false end) exs
        then do st' <- file_error x st1 field "EXCLUDES_FIELD" [VList exs] []; plain st'
        else plain st1
    | Some _ => Raise AttributeError "_validate_excludes"
    end.

  (** * Child validators.  [child] is the recursive call (one fuel unit less). *)
  Section WithChild.
    Variable child : ctx -> res (list error).

    Fixpoint enumerate_from (n : Z) (l : list value) : dict :=
      match l with
      | [] => []
      | v :: l' => (KInt n, v) :: enumerate_from (n + 1) l'
      end.
    Definition enumerate (l : list value) : dict := enumerate_from 0 l.

    Definition mk_child (x : ctx) (cfg' : config) (schema : dict) (doc : dict)
               (dcrumb : list key) (scrumb : list key) (update : bool) : ctx :=
      {| x_cfg := as_child cfg' (VDict (x_doc x)); x_schema := schema; x_doc := doc;
         x_dp := x_dp x ++ dcrumb; x_sp := x_sp x ++ scrumb; x_update := update |}.

    Definition upd (x : ctx) (site : string) : bool :=
      if forwards_update F site then x_update x else false.

    Definition h_items (x : ctx) (st : vstate) (c : value) (field : key) (v : value) : res hout :=
      match c with
      | VList items =>
          match py_len v, py_iter v with
          | Some n, Some vals =>
              if negb (Nat.eqb (List.length items) n) then
                do st' <- file_error x st field "ITEMS_LENGTH"
                                     [VInt (Z.of_nat (List.length items)); VInt (Z.of_nat n)] [];
                plain st'
              else
                let cx := mk_child x (x_cfg x) (enumerate items) (enumerate vals)
                                   [field] [field; KStr "items"] (upd x "validate_items") in
                do ces <- child cx;
                match ces with
                | [] => plain st
                | _ => do st' <- file_error x st field "BAD_ITEMS" [] ces; plain st'
                end
          | _, _ => plain st   (* not a sized iterable: the rule does not apply *)
          end
      | _ => Raise TypeError "_validate_items"
      end.

    Definition h_keysrules (x : ctx) (st : vstate) (c : value) (field : key) (v : value) : res hout :=
      match v with
      | VDict d =>
          let cx := mk_child x (x_cfg x) (map (fun kv => (fst kv, c)) d)
                             (map (fun kv => (fst kv, key_to_value (fst kv))) d)
                             [field] [field; KStr "keysrules"] (upd x "validate_keysrules") in
          do ces <- child cx;
          match ces with
          | [] => plain st
          | _ => do st' <- file_error x st field "KEYSRULES" [] (drop_sp_all x "validate_keysrules" ces);
                 plain st'
          end
      | _ => plain st
      end.

    Definition h_valuesrules (x : ctx) (st : vstate) (c : value) (field : key) (v : value) : res hout :=
      match v with
      | VDict d =>
          let cx := mk_child x (x_cfg x) (map (fun kv => (fst kv, c)) d) d
                             [field] [field; KStr "valuesrules"] (upd x "validate_valuesrules") in
          do ces <- child cx;
          match ces with
          | [] => plain st
          | _ => do st' <- file_error x st field "VALUESRULES" [] (drop_sp_all x "validate_valuesrules" ces);
                 plain st'
          end
      | _ => plain st
      end.

    Definition h_schema (x : ctx) (st : vstate) (c : value) (field : key) (v : value) : res hout :=
      match c with
      | VNone => plain st
      | _ =>
          match v with
          | VList l =>
              let cx := mk_child x (x_cfg x) (map (fun kv => (fst kv, c)) (enumerate l)) (enumerate l)
                                 [field] [field; KStr "schema"] (upd x "validate_schema_sequence") in
              do ces <- child cx;
              match ces with
              | [] => plain st
              | _ => do st' <- file_error x st field "SEQUENCE_SCHEMA" []
                                          (drop_sp_all x "validate_schema_sequence" ces);
                     plain st'
              end
          | VDict d =>
              match resolve_schema (x_cfg x) c with
              | Some (VDict sch) =>
                  match assoc_get field (x_schema x) with
                  | None => Raise KeyError "__validate_schema_mapping"
                  | Some rs0 =>
                      match resolve_rules_set (x_cfg x) rs0 with
                      | None => Raise AttributeError "__validate_schema_mapping"
                      | Some rs =>
                          let cfg1 := set_allow_unknown (x_cfg x)
                                        (vget_default "allow_unknown" (c_allow_unknown (x_cfg x)) rs) in
                          let cfg2 := set_require_all cfg1
                                        (match vget "require_all" rs with
                                         | Some r => truthy r
                                         | None => c_require_all (x_cfg x) end) in
                          let cx := mk_child x cfg2 sch d [field] [field; KStr "schema"]
                                             (upd x "validate_schema_mapping") in
                          match child cx with
                          | Ok [] => plain st
                          | Ok ces => do st' <- file_error x st field "MAPPING_SCHEMA" [] ces; plain st'
                          | Raise SchemaRuleTypeError _ =>
                              do st' <- file_error x st field "BAD_TYPE_FOR_SCHEMA" [] [];
                              Ok {| o_st := st'; o_drop := DNone; o_stop := true |}
                          | Raise e s => Raise e s
                          | OutOfFuel => OutOfFuel
                          end
                      end
                  end
              | _ => Raise AttributeError "__validate_schema_mapping"
              end
          | _ => plain st
          end
      end.

    (** *of *)
    Definition inherit_rules (x : ctx) (field : key) (def : dict) : res dict :=
      match (match assoc_get field (x_schema x) with
             | None => None
             | Some rs0 => Some (resolve_rules_set (x_cfg x) rs0)
             end) with
      | None => Raise KeyError "__validate_logical"
      | Some (Some (VDict own)) =>
          let d1 := fold_left (fun d rule =>
                                 if negb (assoc_mem (KStr rule) d)
                                 then match assoc_get (KStr rule) own with
                                      | Some r => assoc_set (KStr rule) r d
                                      | None => d
                                      end
                                 else d) (f_of_inherit F) def in
          Ok (if assoc_mem (KStr "allow_unknown") d1 then d1
              else assoc_set (KStr "allow_unknown") (c_allow_unknown (x_cfg x)) d1)
      | Some _ => Raise AttributeError "__validate_logical"   (* unresolvable reference: None has no such member *)
      end.

    Fixpoint logical_loop (x : ctx) (op : string) (field : key) (i : Z) (defs : list value)
             (valid : Z) (acc : list error) : res (Z * list error) :=
      match defs with
      | [] => Ok (valid, acc)
      | VDict def :: ds =>
          do def' <- inherit_rules x field def;
          (* allow_unknown=True, _is_normalized=False: normalization does not descend into the definitions *)
          let cx := {| x_cfg := as_child (set_is_normalized (set_allow_unknown (x_cfg x) (VBool true)) false) (VDict (x_doc x));
                       x_schema := [(field, VDict def')]; x_doc := x_doc x;
                       x_dp := x_dp x; x_sp := x_sp x ++ [field; KStr op; KInt i];
                       x_update := upd x "validate_logical" |} in
          do ces <- child cx;
          match ces with
          | [] => logical_loop x op field (i + 1) ds (valid + 1) acc
          | _ => logical_loop x op field (i + 1) ds valid (acc ++ drop_sp_all x "validate_logical" ces)
          end
      | _ :: _ => Raise AttributeError "__validate_logical"
      end.

    Definition h_logical (od : ofdef) (x : ctx) (st : vstate) (c : value) (field : key) (v : value)
      : res hout :=
      match c with
      | VList defs =>
          do r <- logical_loop x (of_name od) field 0 defs 0 [];
          let '(valids, errs) := r in
          let n := Z.of_nat (List.length defs) in
          let rhs := match of_operand od with OLit z => z | OLen => n end in
          if cmp_eval (of_cmp od) valids rhs
          then do st' <- file_error x st field (of_err od) [VInt valids; VInt n] errs; plain st'
          else plain st
      | _ => Raise TypeError "__validate_logical"
      end.

    (** * The per-field rule queue *)
    Definition run_rule (x : ctx) (st : vstate) (defs : value) (field : key) (v : value) (rule : string)
      : res hout :=
      let c := vget_default rule VNone defs in
      if String.eqb rule "nullable" then h_nullable x st c field v
      else if String.eqb rule "readonly" then h_readonly x st c field v
      else if String.eqb rule "type" then h_type x st c field v
      else if String.eqb rule "empty" then h_empty x st c field v
      else if String.eqb rule "allowed" then h_allowed x st c field v
      else if String.eqb rule "contains" then h_contains x st c field v
      else if String.eqb rule "forbidden" then h_forbidden x st c field v
      else if String.eqb rule "max" then h_max x st c field v
      else if String.eqb rule "min" then h_min x st c field v
      else if String.eqb rule "maxlength" then h_maxlength x st c field v
      else if String.eqb rule "minlength" then h_minlength x st c field v
      else if String.eqb rule "regex" then h_regex x st c field v
      else if String.eqb rule "check_with" then h_check_with x st c field v
      else if String.eqb rule "dependencies" then h_dependencies x st c field v
      else if String.eqb rule "excludes" then h_excludes x st c field v
      else if String.eqb rule "items" then h_items x st c field v
      else if String.eqb rule "keysrules" then h_keysrules x st c field v
      else if String.eqb rule "valuesrules" then h_valuesrules x st c field v
      else if String.eqb rule "schema" then h_schema x st c field v
      else match find (fun od => String.eqb (of_name od) rule) (f_ofdefs F) with
           | Some od => h_logical od x st c field v
           | None => Raise RuntimeError "__get_rule_handler"
           end.

    Fixpoint remove_first (r : string) (l : list string) : list string :=
      match l with
      | [] => []
      | a :: l' => if String.eqb r a then l' else a :: remove_first r l'
      end.

    Definition apply_drop (d : dropreq) (queue : list string) : list string :=
      match d with
      | DNone => queue
      | DAll => []
      | DList rs => fold_left (fun q r => remove_first r q) rs queue
      end.

    (* while self._remaining_rules: rule = pop(0); ... ; fuel = initial queue length *)
    Fixpoint run_queue (n : nat) (x : ctx) (st : vstate) (defs : value) (field : key) (v : value)
             (queue : list string) : res vstate :=
      match queue with
      | [] => Ok st
      | rule :: rest =>
          match n with
          | O => OutOfFuel
          | S n' =>
              do out <- run_rule x st defs field v rule;
              if o_stop out then Ok (o_st out)
              else run_queue n' x (o_st out) defs field v (apply_drop (o_drop out) rest)
          end
      end.

    Definition build_queue (defs : dict) : list string :=
      let in_defs r := assoc_mem (KStr r) defs in
      let q1 := filter (fun r => in_defs r || str_in r (f_mandatory F)) (f_priority F) in
      let q2 := q1 ++ filter (fun r => negb (str_in r q1)) (f_mandatory F) in
      let names := flat_map (fun kv => match fst kv with KStr s => [s] | KInt _ => [] end) defs in
      q2 ++ filter (fun r => negb (str_in r q2) && negb (str_in r (f_normalization_rules F))
                             && negb (str_in r (f_queue_excluded F))) names.

    Definition validate_definitions (x : ctx) (st : vstate) (defs0 : value) (field : key) : res vstate :=
      match resolve_rules_set (x_cfg x) defs0 with
      | Some (VDict defs) =>
          match assoc_get field (x_doc x) with
          | None => Raise KeyError "__validate_definitions"
          | Some v =>
              let q := build_queue defs in
              run_queue (List.length q) x st (VDict defs) field v q
          end
      | _ => Raise TypeError "__validate_definitions"
      end.

    Definition validate_unknown (x : ctx) (st : vstate) (field : key) (v : value) : res vstate :=
      let au := c_allow_unknown (x_cfg x) in
      if truthy au then
        match au with
        | VDict _ | VStr _ =>
            let crumb := if c_is_child (x_cfg x) then "allow_unknown" else "__allow_unknown__" in
            let cx := {| x_cfg := as_child (x_cfg x) (VDict (x_doc x));
                         x_schema := [(field, au)]; x_doc := [(field, v)];
                         x_dp := x_dp x; x_sp := x_sp x ++ [KStr crumb];
                         x_update := upd x "validate_unknown_fields" |} in
            do ces <- child cx;
            Ok (match ces with [] => st | _ => add_errors st ces end)
        | _ => Ok st
        end
      else file_error x st field "UNKNOWN_FIELD" [] [].

    Fixpoint validate_fields (x : ctx) (st : vstate) (fields : dict) : res vstate :=
      match fields with
      | [] => Ok st
      | (field, v) :: rest =>
          if c_ignore_none (x_cfg x) && is_none v then validate_fields x st rest
          else
            do st' <- match assoc_get field (x_schema x) with
                      | Some defs => validate_definitions x st defs field
                      | None => validate_unknown x st field v
                      end;
            validate_fields x st' rest
      end.
  End WithChild.

  (** * __validate_required_fields *)
  Fixpoint required_set (x : ctx) (sch : dict) : res (list key) :=
    match sch with
    | [] => Ok []
    | (field, defs) :: rest =>
        match resolve_rules_set (x_cfg x) defs with
        | Some rs =>
            do r <- required_set x rest;
            Ok (if as_true (vget_default "required" (VBool (c_require_all (x_cfg x))) rs)
                then field :: r else r)
        | None =>
            if c_is_child (x_cfg x) &&
               match rev (x_sp x) with KStr "schema" :: _ => true | _ => false end
            then Raise SchemaRuleTypeError "__validate_required_fields"
            else Raise AttributeError "__validate_required_fields"
        end
    end.

  Fixpoint file_each (x : ctx) (st : vstate) (defname : string) (fields : list key) : res vstate :=
    match fields with
    | [] => Ok st
    | f :: fs => do st' <- file_error x st f defname [] []; file_each x st' defname fs
    end.

  Definition validate_required (x : ctx) (st : vstate) : res vstate :=
    do req <- required_set x (x_schema x);
    let unreq := s_unreq st in
    let req' := filter (fun k => negb (key_in k unreq)) req in
    let present := map fst (filter (fun kv => negb (is_none (snd kv)) || negb (c_ignore_none (x_cfg x)))
                                   (x_doc x)) in
    let missing := filter (fun k => negb (key_in k present)) req' in
    do st1 <- file_each x st "REQUIRED_FIELD" missing;
    match unreq with
    | [] => Ok st1
    | _ =>
        let fields := map fst (filter (fun kv => negb (is_none (snd kv))) (x_doc x)) in
        if existsb (fun k => key_in k fields) unreq then Ok st1
        else file_each x st1 "REQUIRED_FIELD" (filter (fun k => negb (key_in k fields)) unreq)
    end.

  (** * validate(document, normalize=False) on an initialised validator *)
  Fixpoint validate_ctx (fuel : nat) (x : ctx) : res (list error) :=
    match fuel with
    | O => OutOfFuel
    | S fuel' =>
        let st0 := {| s_errs := []; s_unreq := [] |} in
        do st1 <- validate_fields (validate_ctx fuel') x st0 (x_doc x);
        do st2 <- (if x_update x then Ok st1 else validate_required x st1);
        Ok (s_errs st2)
    end.

  (* the validation part of validate() when normalization ran first: the error
     list already holds the normalization errors (the trees are functions of it) *)
  Definition validate_after (fuel : nat) (x : ctx) (errs0 : list error) : res (list error) :=
    let st0 := {| s_errs := errs0; s_unreq := [] |} in
    do st1 <- validate_fields (validate_ctx fuel) x st0 (x_doc x);
    do st2 <- (if x_update x then Ok st1 else validate_required x st1);
    Ok (s_errs st2).
End WithFacts.
