(* Worklist.v -- the default-setter work-list of __normalize_default_fields
   (validator.py 965-988), generic in the state and in what calling a setter does:

     while pending: f = pending.pop(0)
        try: call(f)             -> Done  (state updated)
        except KeyError:         -> Requeue (pending.append(f), state unchanged)
        except Exception:        -> Failed (an error was filed; not re-queued)
        state = tuple(pending)
        if state in seen: file 'circular' for every pending field; break
        else: seen.add(state)

   [seen] holds the lists themselves, as the code does since be0af7a (it held their hashes before: -1 and -2 hash alike in
   CPython, so a rotation of the queue was taken for a repeated state -- found by a seeding sub-agent, repaired). *)
From Coq Require Import List Bool Arith Lia.
From Cerb Require Import Values.
Import ListNotations.
Open Scope list_scope.

Section Worklist.
  Variable St : Type.

  Inductive disp := DDone (s : St) | DRequeue | DFailed (s : St).

  Variable call : St -> key -> res disp.
  Variable circular : St -> list key -> res St.   (* files the 'circular dependencies' errors *)

  Fixpoint wl_loop (fuel : nat) (st : St) (pending : list key) (seen : list (list key)) : res St :=
    match pending with
    | [] => Ok st
    | f :: rest =>
        match fuel with
        | O => OutOfFuel
        | S fuel' =>
            do d <- call st f;
            let '(st1, pending1) := match d with
                                    | DDone s => (s, rest)
                                    | DRequeue => (st, rest ++ [f])
                                    | DFailed s => (s, rest)
                                    end in
            if existsb (path_eqb pending1) seen then circular st1 pending1
            else wl_loop fuel' st1 pending1 (pending1 :: seen)
        end
    end.

  (* the fuel the model gives itself: n(n+1)+1 for n pending fields *)
  Definition wl_fuel (n : nat) : nat := S (n * (n + 1)).

  Definition wl_run (st : St) (pending : list key) : res St :=
    wl_loop (wl_fuel (List.length pending)) st pending [].
End Worklist.

Arguments DDone {St} s.
Arguments DRequeue {St}.
Arguments DFailed {St} s.
