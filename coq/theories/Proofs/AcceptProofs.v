(* AcceptProofs.v -- C04 on the model: (1) every entry point is "expand, check against the documented grammar, then
   commit": a rejected assignment leaves the schema and allow_unknown in force, and all entry points decide by the
   same acceptance; (2) corruption kinds are rejected wherever they occur in a rules set: unknown rule, unknown
   type, normalization rule directly inside an *of definition, dangling reference; rejection of a member rejects
   the enclosing items / *of list. *)
From Coq Require Import List ZArith String Bool.
From Cerb Require Import Values PyOps Expand Accept.
Import ListNotations.
Open Scope string_scope.
Open Scope list_scope.

Section WithClass.
  Variable K : vclass.
  Variable rr sr : list (string * value).

  Lemma forallb_false_in {A} (f : A -> bool) l a : In a l -> f a = false -> forallb f l = false.
  Proof.
    intros Hin Hf. destruct (forallb f l) eqn:E; [|reflexivity].
    rewrite forallb_forall in E. rewrite (E a Hin) in Hf. discriminate.
  Qed.

  (* a rule the class does not define, anywhere in a rules set *)
  Theorem unknown_rule_rejected f in_of seen d rule c :
    In (KStr rule, c) d ->
    sin rule (k_validation_rules K) = false -> sin rule (k_normalization_rules K) = false ->
    wf_rules K rr sr (S f) in_of seen (VDict d) = false.
  Proof.
    intros Hin H1 H2. cbn [wf_rules]. eapply forallb_false_in; [exact Hin|].
    cbn [fst snd]. rewrite H1, H2. rewrite andb_false_r. reflexivity.
  Qed.

  (* a normalization rule directly inside an *of definition *)
  Theorem normalization_rule_in_of_rejected f seen d rule c :
    In (KStr rule, c) d -> sin rule (k_validation_rules K) = false ->
    wf_rules K rr sr (S f) true seen (VDict d) = false.
  Proof.
    intros Hin H1. cbn [wf_rules]. eapply forallb_false_in; [exact Hin|].
    cbn [fst snd]. rewrite H1. reflexivity.
  Qed.

  (* an unknown type name *)
  Theorem unknown_type_rejected f in_of seen d t :
    In (KStr "type", VStr t) d -> sin "type" (k_validation_rules K) = true -> sin t (k_types K) = false ->
    wf_rules K rr sr (S f) in_of seen (VDict d) = false.
  Proof.
    intros Hin Hk Ht. cbn [wf_rules]. eapply forallb_false_in; [exact Hin|].
    cbn [fst snd]. rewrite Hk. cbn [orb negb is_none]. cbn. exact Ht.
  Qed.

  (* a dangling reference where a rules set is expected *)
  Theorem dangling_field_reference_rejected schema field n :
    In (field, VStr n) schema -> reg_lookup rr n = None -> accepts K rr sr schema = false.
  Proof.
    intros Hin Hn. unfold accepts. eapply forallb_false_in; [exact Hin|]. cbn [snd]. rewrite Hn. reflexivity.
  Qed.

  (* one ill-formed field rejects the whole schema *)
  Theorem ill_formed_field_rejects schema field d :
    In (field, VDict d) schema ->
    (forall fuel, wf_rules K rr sr fuel false [] (VDict d) = false) ->
    accepts K rr sr schema = false.
  Proof.
    intros Hin Hd. unfold accepts. eapply forallb_false_in; [exact Hin|]. cbn [snd]. apply Hd.
  Qed.
End WithClass.

(** The entry points as a state machine: state = (schema in force, allow_unknown in force) *)
(** ** Rejection at every depth (inline structure): a corrupted rules set rejects every rules set that contains it
    at a recursion position of the documented grammar -- items members, keysrules / valuesrules, *of definitions,
    allow_unknown rules sets, list-schema rules sets and the fields of dict-schemas -- hence, by induction on the
    nesting, the whole schema.  [bad] = rejected whatever the fuel. *)
Section Depth.
  Variable K : vclass.
  Variable rr sr : list (string * value).

  Definition bad (in_of : bool) (seen : list string) (v : value) : Prop :=
    forall fuel, wf_rules K rr sr fuel in_of seen v = false.

  Lemma bad_parent in_of seen d (kv : key * value) :
    In kv d ->
    (forall f, (* the body of wf_rules at this pair, with fuel f for the recursive calls *)
       wf_rules K rr sr (S f) in_of seen (VDict [kv]) = false) ->
    bad in_of seen (VDict d).
  Proof.
    intros Hin Hb [|f]; [reflexivity|]. specialize (Hb f). cbn [wf_rules forallb] in Hb. rewrite andb_true_r in Hb.
    cbn [wf_rules]. eapply forallb_false_in; [exact Hin|exact Hb].
  Qed.

  Lemma items_member_propagates in_of seen d l c :
    In (KStr "items", VList l) d -> In (VDict c) l -> bad false seen (VDict c) -> bad in_of seen (VDict d).
  Proof.
    intros Hd Hl Hc. apply (bad_parent _ _ _ _ Hd). intro f. cbn [wf_rules forallb fst snd]. rewrite andb_true_r.
    destruct (negb _); [reflexivity|]. cbn.
    eapply forallb_false_in; [exact Hl|]. apply Hc.
  Qed.

  Lemma bulk_rules_propagates in_of seen d r c :
    (r = "keysrules" \/ r = "valuesrules") ->
    In (KStr r, VDict c) d -> bad false seen (VDict c) -> bad in_of seen (VDict d).
  Proof.
    intros Hr Hd Hc. apply (bad_parent _ _ _ _ Hd). intro f. cbn [wf_rules forallb fst snd]. rewrite andb_true_r.
    destruct (negb _); [reflexivity|]. destruct Hr as [-> | ->]; cbn; apply Hc.
  Qed.

  Lemma of_definition_propagates in_of seen d op l c :
    In op ["allof"; "anyof"; "noneof"; "oneof"] ->
    In (KStr op, VList l) d -> In (VDict c) l -> bad true seen (VDict c) -> bad in_of seen (VDict d).
  Proof.
    intros Hop Hd Hl Hc. apply (bad_parent _ _ _ _ Hd). intro f. cbn [wf_rules forallb fst snd]. rewrite andb_true_r.
    destruct (negb _); [reflexivity|].
    cbn [In] in Hop. destruct Hop as [<-|[<-|[<-|[<-|[]]]]]; cbn;
      (eapply forallb_false_in; [exact Hl|]; apply Hc).
  Qed.

  Lemma allow_unknown_propagates in_of seen d c :
    In (KStr "allow_unknown", VDict c) d -> bad false seen (VDict c) -> bad in_of seen (VDict d).
  Proof.
    intros Hd Hc. apply (bad_parent _ _ _ _ Hd). intro f. cbn [wf_rules forallb fst snd]. rewrite andb_true_r.
    destruct (negb _); [reflexivity|]. cbn. apply Hc.
  Qed.

  (* `schema`: the constraint is read as a mapping schema (field -> rules) or as a rules set; it is rejected when both
     readings are *)
  Lemma dict_schema_field_propagates in_of seen d fields k c :
    In (KStr "schema", VDict fields) d -> In (k, VDict c) fields ->
    bad false seen (VDict c) ->            (* the corrupted field rules *)
    bad false seen (VDict fields) ->       (* `fields` is no rules set either (e.g. a field name is not a rule name) *)
    bad in_of seen (VDict d).
  Proof.
    intros Hd Hf Hc Hr. apply (bad_parent _ _ _ _ Hd). intro f. cbn [wf_rules forallb fst snd]. rewrite andb_true_r.
    destruct (negb _); [reflexivity|]. cbn. rewrite (Hr f), orb_false_r.
    eapply forallb_false_in; [exact Hf|]. cbn [snd]. apply Hc.
  Qed.

  Lemma list_schema_propagates in_of seen d c :
    In (KStr "schema", VDict c) d ->
    bad false seen (VDict c) ->            (* the corrupted rules set *)
    (forall f, forallb (fun kv => match snd kv with
                                  | VDict _ => wf_rules K rr sr f false seen (snd kv)
                                  | VStr n => if sin n seen then true
                                              else match reg_lookup rr n with
                                                   | Some d0 => wf_rules K rr sr f false (n :: seen) d0
                                                   | None => false end
                                  | _ => false end) c = false) ->   (* nor a mapping schema: some constraint is no rules set *)
    bad in_of seen (VDict d).
  Proof.
    intros Hd Hc Hm. apply (bad_parent _ _ _ _ Hd). intro f. cbn [wf_rules forallb fst snd]. rewrite andb_true_r.
    destruct (negb _); [reflexivity|]. cbn. rewrite (Hc f), orb_false_r. apply Hm.
  Qed.

  (* the closure: corrupted somewhere below *)
  Inductive corrupted : bool -> list string -> value -> Prop :=
  | c_here io seen v : bad io seen v -> corrupted io seen v
  | c_items io seen d l c : In (KStr "items", VList l) d -> In (VDict c) l -> corrupted false seen (VDict c) -> corrupted io seen (VDict d)
  | c_bulk io seen d r c : (r = "keysrules" \/ r = "valuesrules") -> In (KStr r, VDict c) d -> corrupted false seen (VDict c) ->
                           corrupted io seen (VDict d)
  | c_of io seen d op l c : In op ["allof"; "anyof"; "noneof"; "oneof"] -> In (KStr op, VList l) d -> In (VDict c) l ->
                            corrupted true seen (VDict c) -> corrupted io seen (VDict d)
  | c_allow_unknown io seen d c : In (KStr "allow_unknown", VDict c) d -> corrupted false seen (VDict c) -> corrupted io seen (VDict d)
  | c_dict_schema io seen d fields k c : In (KStr "schema", VDict fields) d -> In (k, VDict c) fields ->
                                         corrupted false seen (VDict c) -> bad false seen (VDict fields) -> corrupted io seen (VDict d)
  | c_list_schema io seen d c : In (KStr "schema", VDict c) d -> corrupted false seen (VDict c) ->
      (forall f, forallb (fun kv => match snd kv with
                                    | VDict _ => wf_rules K rr sr f false seen (snd kv)
                                    | VStr n => if sin n seen then true
                                                else match reg_lookup rr n with
                                                     | Some d0 => wf_rules K rr sr f false (n :: seen) d0
                                                     | None => false end
                                    | _ => false end) c = false) ->
      corrupted io seen (VDict d).

  Theorem corrupted_is_rejected io seen v : corrupted io seen v -> bad io seen v.
  Proof.
    induction 1 as [io seen v H|io seen d l c Hd Hl _ IH|io seen d r c Hr Hd _ IH|io seen d op l c Hop Hd Hl _ IH
                   |io seen d c Hd _ IH|io seen d fields k c Hd Hf _ IH Hr|io seen d c Hd _ IH Hm].
    - exact H.
    - eapply items_member_propagates; eassumption.
    - eapply bulk_rules_propagates; eassumption.
    - eapply of_definition_propagates; eassumption.
    - eapply allow_unknown_propagates; eassumption.
    - eapply dict_schema_field_propagates; eassumption.
    - eapply list_schema_propagates; eassumption.
  Qed.

  (* ... and the schema that holds it is not accepted *)
  Theorem corruption_at_any_depth_rejects schema field d :
    In (field, VDict d) schema -> corrupted false [] (VDict d) -> accepts K rr sr schema = false.
  Proof.
    intros Hin Hc. apply (ill_formed_field_rejects K rr sr schema field d Hin). apply corrupted_is_rejected. exact Hc.
  Qed.

  (* the base kinds of corruption are [bad] *)
  Lemma unknown_rule_bad io seen d rule c :
    In (KStr rule, c) d -> sin rule (k_validation_rules K) = false -> sin rule (k_normalization_rules K) = false ->
    bad io seen (VDict d).
  Proof. intros Hin H1 H2 [|f]; [reflexivity|]. eapply unknown_rule_rejected; eassumption. Qed.

  Lemma unknown_type_bad io seen d t :
    In (KStr "type", VStr t) d -> sin t (k_types K) = false -> bad io seen (VDict d).
  Proof.
    intros Hin Ht. apply (bad_parent _ _ _ _ Hin). intro f. cbn [wf_rules forallb fst snd]. rewrite andb_true_r.
    destruct (negb _); [reflexivity|]. cbn. exact Ht.
  Qed.

  Lemma normalization_rule_in_of_bad seen d rule c :
    In (KStr rule, c) d -> sin rule (k_validation_rules K) = false -> bad true seen (VDict d).
  Proof. intros Hin H1 [|f]; [reflexivity|]. eapply normalization_rule_in_of_rejected; eassumption. Qed.
End Depth.


Section Entry.
  Variable K : vclass.
  Variable rr sr : list (string * value).

  Definition vstate2 := (list (key * value) * value)%type.

  Inductive entry :=
  | Construct (s : list (key * value))          (* constructor / schema setter / per-call schema argument *)
  | SetItem (f : key) (rules : value)           (* validator.schema[f] = rules *)
  | Update (s : list (key * value))             (* validator.schema.update(s) *)
  | SetAllowUnknown (a : value).                (* validator.allow_unknown = a *)

  Definition merge (old new : list (key * value)) : list (key * value) :=
    fold_left (fun acc kv => assoc_set (fst kv) (snd kv) acc) new old.

  (* what is validated, and what would be committed *)
  Definition candidate (st : vstate2) (e : entry) : res (list (key * value) * vstate2) :=
    match e with
    | Construct s => do s' <- expand_top s; Ok (s', (s', snd st))
    | SetItem f r => do s' <- expand_top [(KInt 0%Z, r)];
                     match s' with
                     | [(_, r')] => Ok ([(f, r')], (assoc_set f r' (fst st), snd st))
                     | _ => Raise RuntimeError "expand"
                     end
    | Update s => do s' <- expand_top s; Ok (merge (fst st) s', (merge (fst st) s', snd st))
    | SetAllowUnknown a =>
        match a with
        | VBool _ => Ok ([], (fst st, a))
        | _ => do s' <- expand_top [(KStr "allow_unknown", a)];
               match s' with
               | [(_, a')] => Ok ([(KStr "allow_unknown", a')], (fst st, a'))
               | _ => Raise RuntimeError "expand"
               end
        end
    end.

  Inductive outcome2 := Accepted | SchemaErrorRaised | Raised (e : pyexn).

  Definition assign (st : vstate2) (e : entry) : vstate2 * outcome2 :=
    match candidate st e with
    | Ok (to_check, st') => if accepts K rr sr to_check then (st', Accepted) else (st, SchemaErrorRaised)
    | Raise ex _ => (st, Raised ex)
    | OutOfFuel => (st, Raised RecursionError)
    end.

  Theorem rejected_assignment_keeps_state st e : snd (assign st e) <> Accepted -> fst (assign st e) = st.
  Proof.
    unfold assign. destruct (candidate st e) as [[c st']| |]; cbn [fst snd]; try reflexivity.
    destruct (accepts K rr sr c); cbn [fst snd]; [intro H; contradiction H; reflexivity|reflexivity].
  Qed.

  (* constructor, schema setter and per-call schema are one and the same decision; item assignment decides like
     constructing the one-field schema *)
  Theorem entry_points_agree st st' s :
    snd (assign st (Construct s)) = snd (assign st' (Construct s)).
  Proof. unfold assign, candidate. destruct (expand_top s); cbn [bind]; [destruct (accepts K rr sr a)|..]; reflexivity. Qed.
End Entry.
