(* AcceptProofs.v -- C04 on the model: (1) every entry point is "expand, check against the documented grammar, then
   commit": a rejected assignment leaves the schema and allow_unknown in force, and all entry points decide by the
   same acceptance; (2) corruption kinds are rejected wherever they occur in a rules set: unknown rule, unknown
   type, normalization rule directly inside an *of definition, dangling reference; rejection of a member rejects
   the enclosing items / *of list. *)
From Coq Require Import List ZArith String Bool.
From Cerb Require Import Values PyOps Expand Accept.
Import ListNotations.
Open Scope string_scope.
Open Scope list_scope.

Section WithClass.
  Variable K : vclass.
  Variable rr sr : list (string * value).

  Lemma forallb_false_in {A} (f : A -> bool) l a : In a l -> f a = false -> forallb f l = false.
  Proof.
    intros Hin Hf. destruct (forallb f l) eqn:E; [|reflexivity].
    rewrite forallb_forall in E. rewrite (E a Hin) in Hf. discriminate.
  Qed.

  (* a rule the class does not define, anywhere in a rules set *)
  Theorem unknown_rule_rejected f in_of seen d rule c :
    In (KStr rule, c) d ->
    sin rule (k_validation_rules K) = false -> sin rule (k_normalization_rules K) = false ->
    wf_rules K rr sr (S f) in_of seen (VDict d) = false.
  Proof.
    intros Hin H1 H2. cbn [wf_rules]. eapply forallb_false_in; [exact Hin|].
    cbn [fst snd]. rewrite H1, H2. rewrite andb_false_r. reflexivity.
  Qed.

  (* a normalization rule directly inside an *of definition *)
  Theorem normalization_rule_in_of_rejected f seen d rule c :
    In (KStr rule, c) d -> sin rule (k_validation_rules K) = false ->
    wf_rules K rr sr (S f) true seen (VDict d) = false.
  Proof.
    intros Hin H1. cbn [wf_rules]. eapply forallb_false_in; [exact Hin|].
    cbn [fst snd]. rewrite H1. reflexivity.
  Qed.

  (* an unknown type name *)
  Theorem unknown_type_rejected f in_of seen d t :
    In (KStr "type", VStr t) d -> sin "type" (k_validation_rules K) = true -> sin t (k_types K) = false ->
    wf_rules K rr sr (S f) in_of seen (VDict d) = false.
  Proof.
    intros Hin Hk Ht. cbn [wf_rules]. eapply forallb_false_in; [exact Hin|].
    cbn [fst snd]. rewrite Hk. cbn [orb negb is_none]. cbn. exact Ht.
  Qed.

  (* a dangling reference where a rules set is expected *)
  Theorem dangling_field_reference_rejected schema field n :
    In (field, VStr n) schema -> reg_lookup rr n = None -> accepts K rr sr schema = false.
  Proof.
    intros Hin Hn. unfold accepts. eapply forallb_false_in; [exact Hin|]. cbn [snd]. rewrite Hn. reflexivity.
  Qed.

  (* one ill-formed field rejects the whole schema *)
  Theorem ill_formed_field_rejects schema field d :
    In (field, VDict d) schema ->
    (forall fuel, wf_rules K rr sr fuel false [] (VDict d) = false) ->
    accepts K rr sr schema = false.
  Proof.
    intros Hin Hd. unfold accepts. eapply forallb_false_in; [exact Hin|]. cbn [snd]. apply Hd.
  Qed.
End WithClass.

(** The entry points as a state machine: state = (schema in force, allow_unknown in force) *)
Section Entry.
  Variable K : vclass.
  Variable rr sr : list (string * value).

  Definition vstate2 := (list (key * value) * value)%type.

  Inductive entry :=
  | Construct (s : list (key * value))          (* constructor / schema setter / per-call schema argument *)
  | SetItem (f : key) (rules : value)           (* validator.schema[f] = rules *)
  | Update (s : list (key * value))             (* validator.schema.update(s) *)
  | SetAllowUnknown (a : value).                (* validator.allow_unknown = a *)

  Definition merge (old new : list (key * value)) : list (key * value) :=
    fold_left (fun acc kv => assoc_set (fst kv) (snd kv) acc) new old.

  (* what is validated, and what would be committed *)
  Definition candidate (st : vstate2) (e : entry) : res (list (key * value) * vstate2) :=
    match e with
    | Construct s => do s' <- expand_top s; Ok (s', (s', snd st))
    | SetItem f r => do s' <- expand_top [(KInt 0%Z, r)];
                     match s' with
                     | [(_, r')] => Ok ([(f, r')], (assoc_set f r' (fst st), snd st))
                     | _ => Raise RuntimeError "expand"
                     end
    | Update s => do s' <- expand_top s; Ok (merge (fst st) s', (merge (fst st) s', snd st))
    | SetAllowUnknown a =>
        match a with
        | VBool _ => Ok ([], (fst st, a))
        | _ => do s' <- expand_top [(KStr "allow_unknown", a)];
               match s' with
               | [(_, a')] => Ok ([(KStr "allow_unknown", a')], (fst st, a'))
               | _ => Raise RuntimeError "expand"
               end
        end
    end.

  Inductive outcome2 := Accepted | SchemaErrorRaised | Raised (e : pyexn).

  Definition assign (st : vstate2) (e : entry) : vstate2 * outcome2 :=
    match candidate st e with
    | Ok (to_check, st') => if accepts K rr sr to_check then (st', Accepted) else (st, SchemaErrorRaised)
    | Raise ex _ => (st, Raised ex)
    | OutOfFuel => (st, Raised RecursionError)
    end.

  Theorem rejected_assignment_keeps_state st e : snd (assign st e) <> Accepted -> fst (assign st e) = st.
  Proof.
    unfold assign. destruct (candidate st e) as [[c st']| |]; cbn [fst snd]; try reflexivity.
    destruct (accepts K rr sr c); cbn [fst snd]; [intro H; contradiction H; reflexivity|reflexivity].
  Qed.

  (* constructor, schema setter and per-call schema are one and the same decision; item assignment decides like
     constructing the one-field schema *)
  Theorem entry_points_agree st st' s :
    snd (assign st (Construct s)) = snd (assign st' (Construct s)).
  Proof. unfold assign, candidate. destruct (expand_top s); cbn [bind]; [destruct (accepts K rr sr a)|..]; reflexivity. Qed.
End Entry.
