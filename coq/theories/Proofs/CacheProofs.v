(* CacheProofs.v -- C08: if equal keys imply equal validity (the key distinguishes what validity depends on:
   structure incl. scalar types, rule context, class), the cache is unobservable: every outcome of every
   submission history equals the cold outcome, hence clear_caches() changes nothing.  Conversely, two
   schemas of different validity with one key make it observable (the refutation schema). *)
From Coq Require Import List Bool.
From Cerb Require Import Cache.
Import ListNotations.

Section CacheProofs.
  Variable Label Key : Type.
  Variable key_eqb : Key -> Key -> bool.
  Hypothesis key_eqb_eq : forall a b, key_eqb a b = true <-> a = b.
  Variable local_ok : Label -> bool.
  Variable key_of : sch Label -> Key.

  Notation valid := (valid Label local_ok).
  Notation check := (check Label Key key_eqb local_ok key_of).
  Notation cached := (cached Key key_eqb).

  (* every recorded key is the key of some valid schema *)
  Definition Inv (c : cache Key) : Prop := forall k, In k c -> exists s, key_of s = k /\ valid s = true.

  Hypothesis key_sound : forall s1 s2, key_of s1 = key_of s2 -> valid s1 = valid s2.

  Lemma cached_In c k : cached c k = true <-> In k c.
  Proof.
    unfold cached, Cache.cached. rewrite existsb_exists. split.
    - intros [y [H1 H2]]. apply key_eqb_eq in H2. subst. exact H1.
    - intro H. exists k. split; [exact H|apply key_eqb_eq; reflexivity].
  Qed.

  Section SchInd.
    Variable P : sch Label -> Prop.
    Hypothesis H : forall l parts, Forall P parts -> P (SNode Label l parts).
    Fixpoint sch_ind' (s : sch Label) : P s :=
      match s with
      | SNode _ l parts =>
          H l parts ((fix go (ps : list (sch Label)) : Forall P ps :=
                        match ps with
                        | [] => Forall_nil _
                        | p :: ps' => Forall_cons _ (sch_ind' p) (go ps')
                        end) parts)
      end.
  End SchInd.

  Definition all_valid (ps : list (sch Label)) : bool := forallb valid ps.

  Lemma valid_unfold l parts : valid (SNode Label l parts) = local_ok l && all_valid parts.
  Proof.
    reflexivity.
  Qed.

  Definition check_parts :=
    fix go (c : cache Key) (ps : list (sch Label)) : cache Key * bool :=
      match ps with
      | [] => (c, true)
      | p :: ps' => let '(c', b) := check c p in let '(c'', bs) := go c' ps' in (c'', b && bs)
      end.

  Lemma check_unfold c l parts :
    check c (SNode Label l parts) =
    if cached c (key_of (SNode Label l parts)) then (c, true)
    else let '(c1, ok) := check_parts c parts in
         if ok && local_ok l then (key_of (SNode Label l parts) :: c1, true) else (c1, false).
  Proof. reflexivity. Qed.

  Definition check_spec (s : sch Label) : Prop :=
    forall c, Inv c -> Inv (fst (check c s)) /\ snd (check c s) = valid s.

  Lemma check_parts_spec ps :
    Forall check_spec ps ->
    forall c, Inv c -> Inv (fst (check_parts c ps)) /\ snd (check_parts c ps) = all_valid ps.
  Proof.
    induction 1 as [|p ps Hp _ IH]; intros c Hc; [split; [exact Hc|reflexivity]|].
    cbn [check_parts]. destruct (Hp c Hc) as [H1 H2].
    destruct (check c p) as [c' b]. cbn [fst snd] in H1, H2.
    destruct (IH c' H1) as [H3 H4].
    destruct (check_parts c' ps) as [c'' bs]. cbn [fst snd] in *.
    split; [exact H3|]. cbn [all_valid forallb]. rewrite H2, H4. reflexivity.
  Qed.

  Theorem check_sound s : check_spec s.
  Proof.
    induction s as [l parts IH] using sch_ind'.
    intros c Hc. rewrite check_unfold.
    destruct (cached c (key_of (SNode Label l parts))) eqn:Hhit.
    - (* hit: the recorded key belongs to a valid schema; equal keys, equal validity *)
      split; [exact Hc|]. cbn [snd].
      apply cached_In in Hhit. destruct (Hc _ Hhit) as [s' [Hk Hv]].
      rewrite <- Hv. symmetry. apply key_sound. symmetry. exact Hk.
    - destruct (check_parts_spec parts IH c Hc) as [H1 H2].
      destruct (check_parts c parts) as [c1 ok]. cbn [fst snd] in H1, H2.
      rewrite valid_unfold. rewrite H2.
      destruct (all_valid parts && local_ok l) eqn:E.
      + split.
        * intros k [<-|Hk]; [|apply H1; exact Hk].
          exists (SNode Label l parts). split; [reflexivity|].
          rewrite valid_unfold. rewrite andb_comm. exact E.
        * cbn [snd]. rewrite andb_comm. symmetry. exact E.
      + split; [exact H1|]. cbn [snd]. rewrite andb_comm. symmetry. exact E.
  Qed.

  Lemma Inv_nil : Inv [].
  Proof. intros k []. Qed.

  (* every outcome equals the outcome obtained with the cache cleared immediately beforehand *)
  Theorem cache_transparent : forall h c, Inv c ->
    run Label Key key_eqb local_ok key_of c h = run_cold Label Key key_eqb local_ok key_of h.
  Proof.
    induction h as [|o h IH]; intros c Hc; [reflexivity|].
    destruct o as [s|]; cbn [run run_cold].
    - destruct (check_sound s c Hc) as [H1 H2].
      destruct (check_sound s [] Inv_nil) as [_ H3].
      destruct (check c s) as [c' b]. cbn [fst snd] in *.
      rewrite H2, H3. f_equal. apply IH. exact H1.
    - apply IH. exact Inv_nil.
  Qed.

  (* and both are what plain validation decides *)
  Theorem cold_is_valid : forall h,
    run_cold Label Key key_eqb local_ok key_of h =
    flat_map (fun o => match o with Submit _ s => [valid s] | Clear _ => [] end) h.
  Proof.
    induction h as [|o h IH]; [reflexivity|].
    destruct o as [s|]; cbn [run_cold flat_map app]; [|exact IH].
    destruct (check_sound s [] Inv_nil) as [_ H]. rewrite H, IH. reflexivity.
  Qed.
End CacheProofs.

(** Refutation schema: a key that conflates two schemas of different validity makes the cache observable.
    Instance: labels = (context, rule set name); the key drops the context -- the situation of the tag
    {'turing': ...} shared by bulk rule sets and *of definitions. *)
Inductive ctxt := Bulk | Logical.
Definition lbl := (ctxt * nat)%type.
Definition lbl_ok (l : lbl) : bool :=
  match l with
  | (Bulk, _) => true
  | (Logical, 0) => true
  | (Logical, _) => false       (* rule set 1 holds a normalization rule: fine as bulk, not inside *of *)
  end.
Definition conflating_key (s : sch lbl) : nat := match s with SNode _ (_, n) _ => n end.
Definition separating_key (s : sch lbl) : lbl := match s with SNode _ l _ => l end.

Example context_twin_observable :
  run lbl nat Nat.eqb lbl_ok conflating_key [] [Submit _ (SNode _ (Bulk, 1) []); Submit _ (SNode _ (Logical, 1) [])]
  <> run_cold lbl nat Nat.eqb lbl_ok conflating_key [Submit _ (SNode _ (Bulk, 1) []); Submit _ (SNode _ (Logical, 1) [])].
Proof. vm_compute. discriminate. Qed.
