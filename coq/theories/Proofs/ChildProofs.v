(* ChildProofs.v -- C10: what a nested validation is, on the model.
   (1) the child validator's configuration: every option, both registries and the update flag are inherited;
       allow_unknown / require_all are overridden exactly by the field's rules where given; the root document is
       the OUTERMOST document at every depth (so ^-dependencies resolve against it);
   (2) the errors filed beneath the field are exactly the child validator's errors: document paths untouched by
       the bubbling (only synthetic schema-path crumbs are dropped), nothing added or lost. *)
From Coq Require Import List ZArith String Bool Arith Lia.
From Cerb Require Import Values PyOps Errors Tree Facts FactsOk SpecFacts Pool Validate.
Import ListNotations.
Open Scope string_scope.
Open Scope list_scope.

(** configuration inheritance *)
Lemma as_child_options c d :
  let c' := as_child c d in
  c_allow_unknown c' = c_allow_unknown c /\ c_require_all c' = c_require_all c /\ c_ignore_none c' = c_ignore_none c /\
  c_purge_unknown c' = c_purge_unknown c /\ c_purge_readonly c' = c_purge_readonly c /\
  c_is_normalized c' = c_is_normalized c /\ c_rules_reg c' = c_rules_reg c /\ c_schema_reg c' = c_schema_reg c /\
  c_is_child c' = true.
Proof. cbv zeta. unfold as_child. cbn. repeat split. Qed.

Lemma as_child_root_doc c d :
  c_root_doc (as_child c d) = if c_is_child c then c_root_doc c else d.
Proof. reflexivity. Qed.

(* a chain of nested child validators below a root validator processing [root_doc]: the overrides may change
   allow_unknown / require_all / purge_unknown at every level, the documents differ at every level *)
Inductive descends (root_doc : value) : config -> Prop :=
| desc_first c d : c_is_child c = false -> d = root_doc -> descends root_doc (as_child c d)
| desc_next c c' d : descends root_doc c ->
    c_is_child c' = c_is_child c -> c_root_doc c' = c_root_doc c ->      (* c' = c with option overrides *)
    descends root_doc (as_child c' d).

Theorem root_document_is_outermost root_doc c : descends root_doc c -> c_is_child c = true /\ c_root_doc c = root_doc.
Proof.
  induction 1 as [c d Hc Hd|c c' d Hdesc [IH1 IH2] Hch Hrd].
  - split; [reflexivity|]. rewrite as_child_root_doc, Hc. exact Hd.
  - split; [reflexivity|]. rewrite as_child_root_doc, Hch, IH1, Hrd. exact IH2.
Qed.

Lemma set_allow_unknown_keeps c v :
  c_is_child (set_allow_unknown c v) = c_is_child c /\ c_root_doc (set_allow_unknown c v) = c_root_doc c /\
  c_ignore_none (set_allow_unknown c v) = c_ignore_none c /\ c_require_all (set_allow_unknown c v) = c_require_all c /\
  c_rules_reg (set_allow_unknown c v) = c_rules_reg c /\ c_schema_reg (set_allow_unknown c v) = c_schema_reg c.
Proof. repeat split. Qed.

Lemma set_require_all_keeps c b :
  c_is_child (set_require_all c b) = c_is_child c /\ c_root_doc (set_require_all c b) = c_root_doc c /\
  c_ignore_none (set_require_all c b) = c_ignore_none c /\ c_allow_unknown (set_require_all c b) = c_allow_unknown c /\
  c_rules_reg (set_require_all c b) = c_rules_reg c /\ c_schema_reg (set_require_all c b) = c_schema_reg c.
Proof. repeat split. Qed.

(** bubbling: only schema paths are edited *)
Lemma drop_sp_keeps base idx : forall e,
  e_dp (drop_sp base idx e) = e_dp e /\ e_code (drop_sp base idx e) = e_code e /\
  e_value (drop_sp base idx e) = e_value e /\ e_constraint (drop_sp base idx e) = e_constraint e /\
  List.length (e_children (drop_sp base idx e)) = List.length (e_children e).
Proof.
  intros [dp sp c r k v i ch]. cbn [drop_sp e_dp e_code e_value e_constraint e_children].
  repeat split. induction ch as [|x xs IH]; [reflexivity|]. cbn [List.length]. rewrite IH. reflexivity.
Qed.

Lemma drop_sp_all_dps F x site es :
  map e_dp (drop_sp_all F x site es) = map e_dp es /\ map e_code (drop_sp_all F x site es) = map e_code es.
Proof.
  unfold drop_sp_all. rewrite !map_map. split; apply map_ext; intro e;
    destruct (drop_sp_keeps (List.length (x_sp x)) (sp_drops F site) e) as [H1 [H2 _]]; assumption.
Qed.

Section Sites.
  Variable F : facts.
  Variable child : ctx -> res (list error).

  (* the context of the child validator at the five container sites *)
  Definition site_ctx (x : ctx) (cfg' : config) (schema doc : dict) (field : key) (rule : string) (site : string) : ctx :=
    {| x_cfg := as_child cfg' (VDict (x_doc x)); x_schema := schema; x_doc := doc;
       x_dp := x_dp x ++ [field]; x_sp := x_sp x ++ [field; KStr rule];
       x_update := if forwards_update F site then x_update x else false |}.

  (* dict-schema: options overridden exactly by the field's rules where given *)
  Theorem mapping_schema_child x st field d sch rs :
    assoc_get field (x_schema x) = Some (VDict rs) ->
    let cfg' := set_require_all
                  (set_allow_unknown (x_cfg x) (match assoc_get (KStr "allow_unknown") rs with
                                                | Some a => a | None => c_allow_unknown (x_cfg x) end))
                  (match assoc_get (KStr "require_all") rs with Some r => truthy r | None => c_require_all (x_cfg x) end) in
    let cx := site_ctx x cfg' sch d field "schema" "validate_schema_mapping" in
    forall ces, child cx = Ok ces ->
    h_schema F child x st (VDict sch) field (VDict d) =
      match ces with
      | [] => plain st
      | _ => do st' <- file_error F x st field "MAPPING_SCHEMA" [] ces; plain st'
      end.
  Proof.
    intros Hrs cfg' cx ces Hc. unfold h_schema. cbn [resolve_schema]. rewrite Hrs. cbn [resolve_rules_set].
    unfold vget_default, vget. fold cfg'.
    change (mk_child x cfg' sch d [field] [field; KStr "schema"] (upd F x "validate_schema_mapping")) with cx.
    rewrite Hc. destruct ces; reflexivity.
  Qed.

  Theorem valuesrules_child x st field d c :
    let cx := site_ctx x (x_cfg x) (map (fun kv => (fst kv, c)) d) d field "valuesrules" "validate_valuesrules" in
    forall ces, child cx = Ok ces ->
    h_valuesrules F child x st c field (VDict d) =
      match ces with
      | [] => plain st
      | _ => do st' <- file_error F x st field "VALUESRULES" [] (drop_sp_all F x "validate_valuesrules" ces); plain st'
      end.
  Proof.
    intros cx ces Hc. unfold h_valuesrules.
    change (mk_child x (x_cfg x) (map (fun kv => (fst kv, c)) d) d [field] [field; KStr "valuesrules"]
                     (upd F x "validate_valuesrules")) with cx.
    rewrite Hc. cbn [bind]. destruct ces; reflexivity.
  Qed.

  Theorem keysrules_child x st field d c :
    let cx := site_ctx x (x_cfg x) (map (fun kv => (fst kv, c)) d) (map (fun kv => (fst kv, key_to_value (fst kv))) d)
                       field "keysrules" "validate_keysrules" in
    forall ces, child cx = Ok ces ->
    h_keysrules F child x st c field (VDict d) =
      match ces with
      | [] => plain st
      | _ => do st' <- file_error F x st field "KEYSRULES" [] (drop_sp_all F x "validate_keysrules" ces); plain st'
      end.
  Proof.
    intros cx ces Hc. unfold h_keysrules.
    change (mk_child x (x_cfg x) (map (fun kv => (fst kv, c)) d) (map (fun kv => (fst kv, key_to_value (fst kv))) d)
                     [field] [field; KStr "keysrules"] (upd F x "validate_keysrules")) with cx.
    rewrite Hc. cbn [bind]. destruct ces; reflexivity.
  Qed.

  Theorem sequence_schema_child x st field l c :
    c <> VNone ->
    let cx := site_ctx x (x_cfg x) (map (fun kv => (fst kv, c)) (enumerate l)) (enumerate l)
                       field "schema" "validate_schema_sequence" in
    forall ces, child cx = Ok ces ->
    h_schema F child x st c field (VList l) =
      match ces with
      | [] => plain st
      | _ => do st' <- file_error F x st field "SEQUENCE_SCHEMA" [] (drop_sp_all F x "validate_schema_sequence" ces); plain st'
      end.
  Proof.
    intros Hn cx ces Hc. unfold h_schema. destruct c; try contradiction;
      (change (mk_child x (x_cfg x) (map (fun kv => (fst kv, _)) (enumerate l)) (enumerate l)
                        [field] [field; KStr "schema"] (upd F x "validate_schema_sequence")) with cx;
       rewrite Hc; cbn [bind]; destruct ces; reflexivity).
  Qed.

  Theorem items_child x st field v its vals :
    py_len v = Some (List.length its) -> py_iter v = Some vals ->
    let cx := site_ctx x (x_cfg x) (enumerate its) (enumerate vals) field "items" "validate_items" in
    forall ces, child cx = Ok ces ->
    h_items F child x st (VList its) field v =
      match ces with
      | [] => plain st
      | _ => do st' <- file_error F x st field "BAD_ITEMS" [] ces; plain st'
      end.
  Proof.
    intros Hl Hi cx ces Hc. unfold h_items. rewrite Hl, Hi. rewrite Nat.eqb_refl. cbn [negb].
    change (mk_child x (x_cfg x) (enumerate its) (enumerate vals) [field] [field; KStr "items"] (upd F x "validate_items")) with cx.
    rewrite Hc. cbn [bind]. destruct ces; reflexivity.
  Qed.
End Sites.

(* under the documented facts the update flag is forwarded at every one of these sites *)
Theorem update_forwarded F :
  ok_sites F = true ->
  forall site, In site ["validate_schema_mapping"; "validate_schema_sequence"; "validate_items"; "validate_valuesrules";
                        "validate_logical"; "validate_unknown_fields"] ->
  forwards_update F site = true.
Proof.
  intros Hok site Hin. apply ok_sites_eq in Hok as [_ Hf]. unfold forwards_update. rewrite Hf.
  simpl in Hin. destruct Hin as [<-|[<-|[<-|[<-|[<-|[<-|[]]]]]]]; reflexivity.
Qed.
