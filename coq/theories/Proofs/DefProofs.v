(* DefProofs.v -- C12: an invariant of the WHOLE validation model, by induction on fuel (any schema, document,
   configuration, depth): every error a validator records -- nested child errors included, after bubbling -- carries
   the code AND the rule of one and the same error definition.  Same skeleton as PathProofs.v, different invariant. *)
From Coq Require Import List ZArith String Bool Arith Lia Permutation.
From Cerb Require Import Values PyOps Errors Tree Facts Pool Validate.
Import ListNotations.
Open Scope string_scope.
Open Scope list_scope.

Section WithFacts.
  Variable F : facts.
  Let M := f_masks F.

  Definition defd (p : path) (e : error) : Prop := exists d, (e_code e, e_rule e) = errdef F d.
  Definition dgood (p : path) (es : list error) : Prop := Forall (defd p) (flatten M es).

  Lemma flatten_app a b : flatten M (a ++ b) = flatten M a ++ flatten M b.
  Proof. unfold flatten. apply flat_map_app. Qed.

  Lemma dgood_nil p : dgood p [].
  Proof. constructor. Qed.

  Lemma dgood_app p a b : dgood p a -> dgood p b -> dgood p (a ++ b).
  Proof. unfold dgood. rewrite flatten_app. intros. apply Forall_app. split; assumption. Qed.

  Lemma dgood_perm p a b : Permutation a b -> dgood p a -> dgood p b.
  Proof.
    unfold dgood, flatten. intros Hp H. eapply Permutation_Forall; [|exact H].
    apply Permutation_flat_map. exact Hp.
  Qed.

  Lemma dgood_sort p a : dgood p a -> dgood p (sort_errs a).
  Proof. apply dgood_perm. apply sort_errs_perm. Qed.

  Lemma defd_weaken p q e : defd (p ++ q) e -> defd p e.
  Proof. intro H. exact H. Qed.

  Lemma dgood_weaken p q es : dgood (p ++ q) es -> dgood p es.
  Proof. unfold dgood. apply Forall_impl. intro e. apply defd_weaken. Qed.

  (* bubbling keeps document paths, codes (hence the group classification) and the nesting *)
  Lemma flatten_drop_sp base idx : forall e,
    flatten_err M (drop_sp base idx e) = map (drop_sp base idx) (flatten_err M e).
  Proof.
    induction e as [dp sp c r k v i ch IH] using error_ind'.
    rewrite (flatten_err_unfold M (Err dp sp c r k v i ch)).
    cbn [drop_sp]. rewrite flatten_err_unfold. cbn [map]. f_equal.
    unfold is_group. simpl e_code. simpl e_children.
    destruct (negb (Z.eqb (Z.land c (m_group M)) 0)); [|reflexivity].
    unfold flatten. induction IH as [|x xs Hx _ IHxs]; [reflexivity|].
    cbn [flat_map map]. rewrite map_app. rewrite <- Hx. f_equal. exact IHxs.
  Qed.

  Lemma dgood_drop_sp p base idx es : dgood p es -> dgood p (map (drop_sp base idx) es).
  Proof.
    unfold dgood, flatten. intro H. induction es as [|e es IH]; [constructor|].
    cbn [map flat_map] in *. apply Forall_app in H as [H1 H2]. apply Forall_app. split; [|apply IH; exact H2].
    rewrite flatten_drop_sp. apply Forall_forall. intros e' Hin. apply in_map_iff in Hin as [e0 [<- Hin0]].
    rewrite Forall_forall in H1. destruct (H1 e0 Hin0) as [d Hd].
    exists d. destruct e0. simpl in *. exact Hd.
  Qed.

  Lemma dgood_drop_sp_all p x site es : dgood p es -> dgood p (drop_sp_all F x site es).
  Proof. apply dgood_drop_sp. Qed.

  Definition st_dgood (x : ctx) (st : vstate) : Prop := dgood (x_dp x) (s_errs st).

  Lemma mk_error_dp x field d info ch e : mk_error F x field d info ch = Ok e ->
    (e_code e, e_rule e) = errdef F d /\ e_children e = ch.
  Proof.
    unfold mk_error. destruct (errdef F d) as [code rule].
    destruct rule as [r|].
    - destruct (match assoc_get field (x_schema x) with Some rs0 => Some rs0 | None => Some (c_allow_unknown (x_cfg x)) end) as [rs0|];
        [|discriminate].
      destruct (resolve_rules_set (x_cfg x) rs0) as [rs|]; [|discriminate].
      destruct (String.eqb r "nullable"); [intro H; injection H as <-; split; reflexivity|].
      destruct (String.eqb r "required"); [intro H; injection H as <-; split; reflexivity|].
      destruct (vget r rs); [intro H; injection H as <-; split; reflexivity|discriminate].
    - intro H. injection H as <-. split; reflexivity.
  Qed.

  (* filing an error whose children extend the validator's path keeps the invariant *)
  Lemma file_error_dgood x st field d info ch st' :
    st_dgood x st -> dgood (x_dp x) ch -> file_error F x st field d info ch = Ok st' -> st_dgood x st'.
  Proof.
    intros Hst Hch H. unfold file_error in H.
    destruct (mk_error F x field d info ch) as [e| |] eqn:E; cbn [bind] in H; try discriminate.
    injection H as <-. unfold st_dgood, add_errors. cbn [s_errs]. apply dgood_sort. apply dgood_app; [exact Hst|].
    destruct (mk_error_dp _ _ _ _ _ _ E) as [Hdp Hc].
    unfold dgood, flatten. cbn [flat_map]. rewrite app_nil_r. rewrite flatten_err_unfold.
    constructor.
    - exists d. exact Hdp.
    - destruct (is_group M e); [|constructor]. rewrite Hc. exact Hch.
  Qed.

  Lemma file_error_dgood0 x st field d info st' :
    st_dgood x st -> file_error F x st field d info [] = Ok st' -> st_dgood x st'.
  Proof. intros Hst H. apply (file_error_dgood x st field d info [] st' Hst); [constructor|exact H]. Qed.

  (* a handler outcome keeps the invariant *)
  Definition out_dgood (x : ctx) (r : res hout) : Prop := forall o, r = Ok o -> st_dgood x (o_st o).

  Lemma plain_dgood x st : st_dgood x st -> out_dgood x (plain st).
  Proof. intros H o E. injection E as <-. exact H. Qed.

  Ltac fe H :=
    match type of H with
    | context [file_error F ?x ?st ?f ?d ?i ?c] =>
        let st' := fresh "st'" in let E := fresh "E" in
        destruct (file_error F x st f d i c) as [st'| |] eqn:E; cbn [bind] in H; try discriminate
    end.

  Ltac leaf x Hst :=
    intros o Ho;
    repeat match type of Ho with
           | context [if ?b then _ else _] => destruct b
           | context [match ?t with _ => _ end] => destruct t
           end; cbn [bind] in Ho; try discriminate;
    try (injection Ho as <-; cbn [o_st]; first [exact Hst | eapply file_error_dgood0; eassumption]).

  Lemma nullable_dgood x st c field v : st_dgood x st -> out_dgood x (h_nullable F x st c field v).
  Proof.
    intros Hst o Ho. unfold h_nullable in Ho. destruct (is_none v); [|injection Ho as <-; exact Hst].
    destruct (truthy c); cbn [bind] in Ho; [injection Ho as <-; exact Hst|]. fe Ho.
    injection Ho as <-. cbn [o_st]. eapply file_error_dgood0; eassumption.
  Qed.

  Lemma readonly_dgood x st c field v : st_dgood x st -> out_dgood x (h_readonly F x st c field v).
  Proof.
    intros Hst o Ho. unfold h_readonly in Ho. destruct (truthy c); [|injection Ho as <-; exact Hst].
    destruct (c_is_normalized (x_cfg x)); cbn [bind] in Ho; [injection Ho as <-; exact Hst|]. fe Ho.
    injection Ho as <-. cbn [o_st]. eapply file_error_dgood0; eassumption.
  Qed.

  Lemma type_dgood x st c field v : st_dgood x st -> out_dgood x (h_type F x st c field v).
  Proof.
    intros Hst o Ho. unfold h_type in Ho. destruct (negb (truthy c)); [injection Ho as <-; exact Hst|].
    destruct (match c with VStr _ => Ok [c] | VList l => Ok l | _ => Raise TypeError "_validate_type" end); cbn [bind] in Ho; try discriminate.
    destruct (any_type_matches F v a) as [[|]| |]; cbn [bind] in Ho; try discriminate; [injection Ho as <-; exact Hst|].
    fe Ho. injection Ho as <-. cbn [o_st]. eapply file_error_dgood0; eassumption.
  Qed.

  Lemma empty_dgood x st c field v : st_dgood x st -> out_dgood x (h_empty F x st c field v).
  Proof.
    intros Hst o Ho. unfold h_empty in Ho. destruct (py_len v) as [[|n]|]; try (injection Ho as <-; exact Hst).
    destruct (truthy c); cbn [bind] in Ho; [injection Ho as <-; exact Hst|]. fe Ho.
    injection Ho as <-. cbn [o_st]. eapply file_error_dgood0; eassumption.
  Qed.

  Lemma allowed_dgood x st c field v : st_dgood x st -> out_dgood x (h_allowed F x st c field v).
  Proof.
    intros Hst o Ho. unfold h_allowed, h_allowed0 in Ho. generalize dependent (allowed_members c). clear c. intros c Ho.
    destruct (is_iterable v && negb (is_str v)).
    - destruct (py_iter v); [|injection Ho as <-; exact Hst].
      destruct (filter_not_in l c) as [[|u us]| |]; cbn [bind] in Ho; try discriminate; [injection Ho as <-; exact Hst|].
      fe Ho. injection Ho as <-. eapply file_error_dgood0; eassumption.
    - destruct (py_in v c) as [[|]|]; try discriminate; [injection Ho as <-; exact Hst|].
      fe Ho. injection Ho as <-. eapply file_error_dgood0; eassumption.
  Qed.

  Lemma contains_dgood x st c field v : st_dgood x st -> out_dgood x (h_contains F x st c field v).
  Proof.
    intros Hst o Ho. unfold h_contains in Ho. destruct (py_iter v); [|injection Ho as <-; exact Hst].
    destruct (if negb (is_iterable c) || is_str c then Some [c] else option_map dedup (py_iter c)); [|discriminate].
    destruct (filter _ l0); [injection Ho as <-; exact Hst|].
    fe Ho. injection Ho as <-. eapply file_error_dgood0; eassumption.
  Qed.

  Lemma forbidden_dgood x st c field v : st_dgood x st -> out_dgood x (h_forbidden F x st c field v).
  Proof.
    intros Hst o Ho. unfold h_forbidden in Ho. destruct (is_sequence v && negb (is_str v)).
    - destruct (py_iter v); [|injection Ho as <-; exact Hst].
      destruct (filter_in l c) as [[|u us]| |]; cbn [bind] in Ho; try discriminate; [injection Ho as <-; exact Hst|].
      fe Ho. injection Ho as <-. eapply file_error_dgood0; eassumption.
    - destruct (py_in v c) as [[|]|]; try discriminate; [|injection Ho as <-; exact Hst].
      fe Ho. injection Ho as <-. eapply file_error_dgood0; eassumption.
  Qed.

  Lemma max_dgood x st c field v : st_dgood x st -> out_dgood x (h_max F x st c field v).
  Proof.
    intros Hst o Ho. unfold h_max in Ho. destruct (py_gt v c) as [[|]|]; try (injection Ho as <-; exact Hst).
    fe Ho. injection Ho as <-. eapply file_error_dgood0; eassumption.
  Qed.

  Lemma min_dgood x st c field v : st_dgood x st -> out_dgood x (h_min F x st c field v).
  Proof.
    intros Hst o Ho. unfold h_min in Ho. destruct (py_lt v c) as [[|]|]; try (injection Ho as <-; exact Hst).
    fe Ho. injection Ho as <-. eapply file_error_dgood0; eassumption.
  Qed.

  Lemma maxlength_dgood x st c field v : st_dgood x st -> out_dgood x (h_maxlength F x st c field v).
  Proof.
    intros Hst o Ho. unfold h_maxlength in Ho. destruct (is_iterable v); [|injection Ho as <-; exact Hst].
    destruct (py_len v); [|discriminate]. destruct (py_gt _ c) as [[|]|]; try discriminate; [|injection Ho as <-; exact Hst].
    fe Ho. injection Ho as <-. eapply file_error_dgood0; eassumption.
  Qed.

  Lemma minlength_dgood x st c field v : st_dgood x st -> out_dgood x (h_minlength F x st c field v).
  Proof.
    intros Hst o Ho. unfold h_minlength in Ho. destruct (is_iterable v); [|injection Ho as <-; exact Hst].
    destruct (py_len v); [|discriminate]. destruct (py_lt _ c) as [[|]|]; try discriminate; [|injection Ho as <-; exact Hst].
    fe Ho. injection Ho as <-. eapply file_error_dgood0; eassumption.
  Qed.

  Lemma regex_dgood x st c field v : st_dgood x st -> out_dgood x (h_regex F x st c field v).
  Proof.
    intros Hst o Ho. unfold h_regex in Ho. destruct v; try (injection Ho as <-; exact Hst).
    destruct c; try discriminate. destruct (Regex.regex_fullmatch s0 s) as [[|]|]; try discriminate; [injection Ho as <-; exact Hst|].
    fe Ho. injection Ho as <-. eapply file_error_dgood0; eassumption.
  Qed.

  Lemma file_customs_dgood x field : forall msgs st st', st_dgood x st -> file_customs F x st field msgs = Ok st' -> st_dgood x st'.
  Proof.
    induction msgs as [|m ms IH]; intros st st' Hst H; [injection H as <-; exact Hst|].
    cbn [file_customs] in H. fe H. eapply IH; [|exact H]. eapply file_error_dgood0; eassumption.
  Qed.

  Lemma check_one_dgood x st c field v st' : st_dgood x st -> check_one F x st c field v = Ok st' -> st_dgood x st'.
  Proof.
    intros Hst H. unfold check_one in H.
    destruct c; try discriminate; (destruct (pool_check _ v); [|discriminate]; eapply file_customs_dgood; eassumption).
  Qed.

  Lemma check_list_dgood x field v : forall cs st st', st_dgood x st -> check_list F x st cs field v = Ok st' -> st_dgood x st'.
  Proof.
    induction cs as [|c cs IH]; intros st st' Hst H; [injection H as <-; exact Hst|].
    cbn [check_list] in H. destruct (check_one F x st c field v) as [s1| |] eqn:E; cbn [bind] in H; try discriminate.
    eapply IH; [|exact H]. eapply check_one_dgood; eassumption.
  Qed.

  Lemma check_with_dgood x st c field v : st_dgood x st -> out_dgood x (h_check_with F x st c field v).
  Proof.
    intros Hst o Ho. unfold h_check_with in Ho.
    destruct c; cbn [bind] in Ho;
      try (destruct (check_one F x st _ field v) as [s1| |] eqn:E; cbn [bind] in Ho; try discriminate;
           injection Ho as <-; eapply check_one_dgood; eassumption).
    destruct (check_list F x st l field v) as [s1| |] eqn:E; cbn [bind] in Ho; try discriminate.
    injection Ho as <-. eapply check_list_dgood; eassumption.
  Qed.

  Lemma deps_sequence_dgood x field : forall deps st st', st_dgood x st -> deps_sequence F x st field deps = Ok st' -> st_dgood x st'.
  Proof.
    induction deps as [|d ds IH]; intros st st' Hst H; [injection H as <-; exact Hst|].
    cbn [deps_sequence] in H. destruct (lookup_field x d) as [[w|]| |]; cbn [bind] in H; try discriminate.
    - eapply IH; eassumption.
    - fe H. eapply IH; [|exact H]. eapply file_error_dgood0; eassumption.
  Qed.

  Lemma dependencies_dgood x st c field v : st_dgood x st -> out_dgood x (h_dependencies F x st c field v).
  Proof.
    intros Hst o Ho. unfold h_dependencies in Ho.
    assert (G : forall st', (match c with
                             | VList l => deps_sequence F x st field l
                             | VDict d => do r <- deps_mapping x d O [];
                                          let '(okc, info) := r in
                                          if Nat.eqb okc (List.length d) then Ok st
                                          else file_error F x st field "DEPENDENCIES_FIELD_VALUE" [VDict info] []
                             | _ => deps_sequence F x st field [c]
                             end) = Ok st' -> st_dgood x st').
    { intros st' H. destruct c; try (eapply deps_sequence_dgood; eassumption).
      destruct (deps_mapping x kvs O []) as [[okc info]| |]; cbn [bind] in H; try discriminate.
      destruct (Nat.eqb okc (List.length kvs)); [injection H as <-; exact Hst|]. eapply file_error_dgood0; eassumption. }
    destruct (match c with VList l => _ | VDict d => _ | _ => _ end) as [s1| |]; cbn [bind] in Ho; try discriminate.
    injection Ho as <-. cbn [o_st]. apply G. reflexivity.
  Qed.

  Lemma excludes_dgood x st c field v : st_dgood x st -> out_dgood x (h_excludes F x st c field v).
  Proof.
    intros Hst o Ho. unfold h_excludes in Ho.
    destruct (match assoc_get field (x_schema x) with None => None | Some rs0 => Some (resolve_rules_set (x_cfg x) rs0) end) as [[[]|]|];
      try discriminate.
    match type of Ho with context [if ?b then _ else _] => destruct b end.
    - fe Ho. injection Ho as <-. cbn [o_st]. eapply file_error_dgood0; [|eassumption]. exact Hst.
    - injection Ho as <-. exact Hst.
  Qed.

  (** handlers with child validators: the child's errors extend the child's path, which defd ours *)
  Section WithChild.
    Variable child : ctx -> res (list error).
    Hypothesis child_dgood : forall cx es, child cx = Ok es -> dgood (x_dp cx) es.

    Lemma items_dgood x st c field v : st_dgood x st -> out_dgood x (h_items F child x st c field v).
    Proof.
      intros Hst o Ho. unfold h_items in Ho. destruct c; try discriminate.
      destruct (py_len v); [|injection Ho as <-; exact Hst]. destruct (py_iter v); [|injection Ho as <-; exact Hst].
      destruct (negb _).
      - fe Ho. injection Ho as <-. eapply file_error_dgood0; eassumption.
      - match type of Ho with context [child ?cx] => destruct (child cx) as [ces| |] eqn:Ec end; cbn [bind] in Ho; try discriminate.
        destruct ces as [|e es]; [injection Ho as <-; exact Hst|].
        fe Ho. injection Ho as <-. cbn [o_st]. eapply file_error_dgood; [exact Hst| |eassumption].
        apply child_dgood in Ec. cbn [mk_child x_dp] in Ec. eapply dgood_weaken. exact Ec.
    Qed.

    Lemma keysrules_dgood x st c field v : st_dgood x st -> out_dgood x (h_keysrules F child x st c field v).
    Proof.
      intros Hst o Ho. unfold h_keysrules in Ho. destruct v; try (injection Ho as <-; exact Hst).
      match type of Ho with context [child ?cx] => destruct (child cx) as [ces| |] eqn:Ec end; cbn [bind] in Ho; try discriminate.
      destruct ces as [|e es]; [injection Ho as <-; exact Hst|].
      fe Ho. injection Ho as <-. cbn [o_st]. eapply file_error_dgood; [exact Hst| |eassumption].
      apply dgood_drop_sp_all. apply child_dgood in Ec. cbn [mk_child x_dp] in Ec. eapply dgood_weaken. exact Ec.
    Qed.

    Lemma valuesrules_dgood x st c field v : st_dgood x st -> out_dgood x (h_valuesrules F child x st c field v).
    Proof.
      intros Hst o Ho. unfold h_valuesrules in Ho. destruct v; try (injection Ho as <-; exact Hst).
      match type of Ho with context [child ?cx] => destruct (child cx) as [ces| |] eqn:Ec end; cbn [bind] in Ho; try discriminate.
      destruct ces as [|e es]; [injection Ho as <-; exact Hst|].
      fe Ho. injection Ho as <-. cbn [o_st]. eapply file_error_dgood; [exact Hst| |eassumption].
      apply dgood_drop_sp_all. apply child_dgood in Ec. cbn [mk_child x_dp] in Ec. eapply dgood_weaken. exact Ec.
    Qed.

    Lemma schema_dgood x st c field v : st_dgood x st -> out_dgood x (h_schema F child x st c field v).
    Proof.
      intros Hst o Ho. unfold h_schema in Ho.
      destruct c; try (injection Ho as <-; exact Hst);
        (destruct v; try (injection Ho as <-; exact Hst);
         [ (* sequence *)
           match type of Ho with context [child ?cx] => destruct (child cx) as [ces| |] eqn:Ec end; cbn [bind] in Ho; try discriminate;
           destruct ces as [|e es]; [injection Ho as <-; exact Hst|];
           fe Ho; injection Ho as <-; cbn [o_st]; eapply file_error_dgood; [exact Hst| |eassumption];
           apply dgood_drop_sp_all; apply child_dgood in Ec; cbn [mk_child x_dp] in Ec; eapply dgood_weaken; exact Ec
         | (* mapping *)
           destruct (resolve_schema (x_cfg x) _) as [[| | | | | |sch|]|]; try discriminate;
           destruct (assoc_get field (x_schema x)); try discriminate;
           destruct (resolve_rules_set (x_cfg x) v) as [rs|]; try discriminate;
           match type of Ho with context [child ?cx] => destruct (child cx) as [ces|ex s0|] eqn:Ec end; try discriminate;
           [ destruct ces as [|e es]; [injection Ho as <-; exact Hst|];
             fe Ho; injection Ho as <-; cbn [o_st]; eapply file_error_dgood; [exact Hst| |eassumption];
             apply child_dgood in Ec; cbn [mk_child x_dp] in Ec; eapply dgood_weaken; exact Ec
           | destruct ex; try discriminate; fe Ho; injection Ho as <-; cbn [o_st]; eapply file_error_dgood0; eassumption ] ]).
    Qed.

    Lemma logical_loop_dgood x op field : forall defs i valid acc r,
      dgood (x_dp x) acc -> logical_loop F child x op field i defs valid acc = Ok r -> dgood (x_dp x) (snd r).
    Proof.
      induction defs as [|d ds IH]; intros i valid acc r Hacc H; [injection H as <-; exact Hacc|].
      cbn [logical_loop] in H. destruct d; try discriminate.
      destruct (inherit_rules F x field kvs) as [def'| |]; cbn [bind] in H; try discriminate.
      match type of H with context [child ?cx] => destruct (child cx) as [ces| |] eqn:Ec end; cbn [bind] in H; try discriminate.
      destruct ces as [|e es]; [eapply IH; eassumption|].
      eapply IH; [|exact H]. apply dgood_app; [exact Hacc|]. apply dgood_drop_sp_all.
      apply child_dgood in Ec. cbn [x_dp] in Ec. exact Ec.
    Qed.

    Lemma logical_dgood od x st c field v : st_dgood x st -> out_dgood x (h_logical F child od x st c field v).
    Proof.
      intros Hst o Ho. unfold h_logical in Ho. destruct c; try discriminate.
      destruct (logical_loop F child x (of_name od) field 0 l 0 []) as [[valids errs]| |] eqn:El; cbn [bind] in Ho; try discriminate.
      destruct (cmp_eval _ _ _); [|injection Ho as <-; exact Hst].
      fe Ho. injection Ho as <-. cbn [o_st]. eapply file_error_dgood; [exact Hst| |eassumption].
      exact (logical_loop_dgood x (of_name od) field l 0%Z 0%Z [] (valids, errs) (dgood_nil _) El).
    Qed.

    Lemma run_rule_dgood x st defs field v rule : st_dgood x st -> out_dgood x (run_rule F child x st defs field v rule).
    Proof.
      intro Hst. unfold run_rule.
      repeat match goal with |- out_dgood _ (if ?b then _ else _) => destruct b end;
        first [ apply nullable_dgood | apply readonly_dgood | apply type_dgood | apply empty_dgood | apply allowed_dgood
              | apply contains_dgood | apply forbidden_dgood | apply max_dgood | apply min_dgood | apply maxlength_dgood
              | apply minlength_dgood | apply regex_dgood | apply check_with_dgood | apply dependencies_dgood
              | apply excludes_dgood | apply items_dgood | apply keysrules_dgood | apply valuesrules_dgood | apply schema_dgood
              | idtac ]; try exact Hst.
      destruct (find _ (f_ofdefs F)); [apply logical_dgood; exact Hst|intros o Ho; discriminate].
    Qed.

    Lemma run_queue_dgood : forall n x st defs field v q st',
      st_dgood x st -> run_queue F child n x st defs field v q = Ok st' -> st_dgood x st'.
    Proof.
      induction n as [|n IH]; intros x st defs field v q st' Hst H.
      - destruct q; [injection H as <-; exact Hst|discriminate].
      - destruct q as [|r rest]; [injection H as <-; exact Hst|]. cbn [run_queue] in H.
        destruct (run_rule F child x st defs field v r) as [out| |] eqn:E; cbn [bind] in H; try discriminate.
        pose proof (run_rule_dgood x st defs field v r Hst out E) as Hout.
        destruct (o_stop out); [injection H as <-; exact Hout|]. eapply IH; eassumption.
    Qed.

    Lemma validate_unknown_dgood x st field v st' :
      st_dgood x st -> validate_unknown F child x st field v = Ok st' -> st_dgood x st'.
    Proof.
      intros Hst H. unfold validate_unknown in H. destruct (truthy (c_allow_unknown (x_cfg x))).
      - destruct (c_allow_unknown (x_cfg x)); try (injection H as <-; exact Hst);
          (match type of H with context [child ?cx] => destruct (child cx) as [ces| |] eqn:Ec end; cbn [bind] in H; try discriminate;
           injection H as <-; destruct ces as [|e es]; [exact Hst|];
           unfold st_dgood, add_errors; cbn [s_errs]; apply dgood_sort; apply dgood_app; [exact Hst|];
           apply child_dgood in Ec; cbn [x_dp] in Ec; exact Ec).
      - eapply file_error_dgood0; eassumption.
    Qed.

    Lemma validate_fields_dgood x : forall fields st st',
      st_dgood x st -> validate_fields F child x st fields = Ok st' -> st_dgood x st'.
    Proof.
      induction fields as [|[field v] rest IH]; intros st st' Hst H; [injection H as <-; exact Hst|].
      cbn [validate_fields] in H. destruct (c_ignore_none (x_cfg x) && is_none v); [eapply IH; eassumption|].
      destruct (assoc_get field (x_schema x)) as [defs|].
      - destruct (validate_definitions F child x st defs field) as [s1| |] eqn:E; cbn [bind] in H; try discriminate.
        eapply IH; [|exact H]. unfold validate_definitions in E.
        destruct (resolve_rules_set (x_cfg x) defs) as [[| | | | | |d|]|]; try discriminate.
        destruct (assoc_get field (x_doc x)); try discriminate. eapply run_queue_dgood; eassumption.
      - destruct (validate_unknown F child x st field v) as [s1| |] eqn:E; cbn [bind] in H; try discriminate.
        eapply IH; [|exact H]. eapply validate_unknown_dgood; eassumption.
    Qed.
  End WithChild.

  Lemma file_each_dgood x d : forall fields st st', st_dgood x st -> file_each F x st d fields = Ok st' -> st_dgood x st'.
  Proof.
    induction fields as [|f fs IH]; intros st st' Hst H; [injection H as <-; exact Hst|].
    cbn [file_each] in H. fe H. eapply IH; [|exact H]. eapply file_error_dgood0; eassumption.
  Qed.

  Lemma validate_required_dgood x st st' : st_dgood x st -> validate_required F x st = Ok st' -> st_dgood x st'.
  Proof.
    intros Hst H. unfold validate_required in H.
    destruct (required_set x (x_schema x)) as [req| |]; cbn [bind] in H; try discriminate.
    destruct (file_each F x st "REQUIRED_FIELD" _) as [s1| |] eqn:E1; cbn [bind] in H; try discriminate.
    pose proof (file_each_dgood _ _ _ _ _ Hst E1) as H1.
    destruct (s_unreq st); [injection H as <-; exact H1|].
    destruct (existsb _ _); [injection H as <-; exact H1|]. eapply file_each_dgood; eassumption.
  Qed.

  (** MAIN: every error recorded by a validator -- at any nesting depth of schema and document -- strictly defd
      the validator's document path *)
  Theorem validate_errors_defined : forall fuel x errs, validate_ctx F fuel x = Ok errs -> dgood (x_dp x) errs.
  Proof.
    induction fuel as [|fuel IH]; intros x errs H; [discriminate|].
    cbn [validate_ctx] in H.
    destruct (validate_fields F (validate_ctx F fuel) x {| s_errs := []; s_unreq := [] |} (x_doc x)) as [st1| |] eqn:E1;
      cbn [bind] in H; try discriminate.
    assert (H1 : st_dgood x st1).
    { eapply (validate_fields_dgood (validate_ctx F fuel) IH); [|exact E1]. apply dgood_nil. }
    destruct (x_update x); cbn [bind] in H.
    - injection H as <-. exact H1.
    - destruct (validate_required F x st1) as [st2| |] eqn:E2; cbn [bind] in H; try discriminate.
      injection H as <-. eapply validate_required_dgood; eassumption.
  Qed.

End WithFacts.
