(* DefaultsProofs.v -- C17 for the model of __normalize_default_fields: the work-list
   of default setters never runs out of the fuel the model gives it, whatever the
   setters do; a setter raising another exception files one error for its own field
   and is not re-queued. *)
From Coq Require Import List ZArith String Bool Arith Lia.
From Cerb Require Import Values PyOps Errors Tree Facts Pool Validate Worklist Normalize WorklistProofs.
Import ListNotations.
Open Scope list_scope.

Section WithFacts.
  Variable F : facts.

  Lemma mk_error_returns x field d info ch : mk_error F x field d info ch <> OutOfFuel.
  Proof.
    unfold mk_error. destruct (errdef F d) as [code rule].
    destruct rule as [r|]; [|discriminate].
    destruct (assoc_get field (x_schema x)) as [rs0|];
      (destruct (resolve_rules_set (x_cfg x) _) as [rs|]; [|discriminate];
       destruct (String.eqb r "nullable"); [discriminate|];
       destruct (String.eqb r "required"); [discriminate|];
       destruct (vget r rs); discriminate).
  Qed.

  Lemma file_error_returns x st field d info ch : file_error F x st field d info ch <> OutOfFuel.
  Proof.
    unfold file_error. pose proof (mk_error_returns x field d info ch) as H.
    destruct (mk_error F x field d info ch); cbn [bind]; [discriminate|discriminate|contradiction].
  Qed.

  Lemma nfile_returns x ns field d info : nfile F x ns field d info <> OutOfFuel.
  Proof.
    unfold nfile. pose proof (file_error_returns (with_doc x (n_map ns)) (vs_of ns) field d info []) as H.
    destruct (file_error F _ _ field d info []); cbn [bind]; [discriminate|discriminate|contradiction].
  Qed.

  Lemma call_setter_returns m rs : call_setter m rs <> OutOfFuel.
  Proof.
    unfold call_setter. destruct rs as [[| | | | | |d|]|]; try discriminate.
    destruct (assoc_get (KStr "default_setter") d) as [[| | | |s| | |s]|]; try discriminate.
    - destruct (pool_setter s m) as [[v|[]]|]; discriminate.
    - destruct (pool_setter s m) as [[v|[]]|]; discriminate.
  Qed.

  Lemma setter_call_returns x table ns f : setter_call F x table ns f <> OutOfFuel.
  Proof.
    unfold setter_call. pose proof (call_setter_returns (n_map ns)
      (match assoc_get f table with Some r => r | None => None end)) as H.
    destruct (call_setter _ _) as [o| |]; cbn [bind]; [|discriminate|contradiction].
    destruct o as [v| |e]; try discriminate.
    pose proof (nfile_returns x ns f "SETTING_DEFAULT_FAILED"%string [exc_message e]) as H'.
    destruct (nfile F x ns f _ _); cbn [bind]; [discriminate|discriminate|contradiction].
  Qed.

  Lemma setter_circular_returns x : forall l ns, setter_circular F x ns l <> OutOfFuel.
  Proof.
    induction l as [|g l IH]; intro ns; cbn [setter_circular]; [discriminate|].
    pose proof (nfile_returns x ns g "SETTING_DEFAULT_FAILED"%string
                  [VStr "Circular dependencies of default setters."%string]) as H.
    destruct (nfile F x ns g _ _); cbn [bind]; [apply IH|discriminate|contradiction].
  Qed.

  (* the default-setter loop of the normalization model always terminates *)
  Theorem setter_worklist_terminates x table ns pending :
    wl_run nstate (setter_call F x table) (setter_circular F x) ns pending <> OutOfFuel.
  Proof.
    apply wl_run_terminates.
    - intros st f. apply setter_call_returns.
    - intros st l. apply setter_circular_returns.
  Qed.

  (* a setter raising an exception other than KeyError: one error for its own field, not re-queued
     (the work-list continues with the remaining fields only) *)
  Theorem other_exception_is_local x table ns f rest seen fuel e :
    call_setter (n_map ns) (match assoc_get f table with Some r => r | None => None end) = Ok (SetFailed e) ->
    exists ns', nfile F x ns f "SETTING_DEFAULT_FAILED"%string [exc_message e] = Ok ns' /\
      (wl_loop nstate (setter_call F x table) (setter_circular F x) (S fuel) ns (f :: rest) seen =
       if existsb (path_eqb rest) seen then setter_circular F x ns' rest
       else wl_loop nstate (setter_call F x table) (setter_circular F x) fuel ns' rest (rest :: seen))
    \/ exists ex s, nfile F x ns f "SETTING_DEFAULT_FAILED"%string [exc_message e] = Raise ex s.
  Proof.
    intro Hc.
    destruct (nfile F x ns f "SETTING_DEFAULT_FAILED"%string [exc_message e]) as [ns'|ex s|] eqn:Hn.
    - exists ns'. left. split; [reflexivity|].
      cbn [wl_loop]. unfold setter_call at 1. rewrite Hc. cbn [bind]. rewrite Hn. cbn [bind]. reflexivity.
    - exists ns. right. exists ex, s. reflexivity.
    - exfalso. exact (nfile_returns _ _ _ _ _ Hn).
  Qed.
End WithFacts.
