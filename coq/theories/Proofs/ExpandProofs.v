(* ExpandProofs.v -- C15: (1) canonical schemas are fixed points of expand (what the validator exposes as
   validator.schema for a canonical schema is that schema), at any nesting depth and through every recursion
   position; (2) the <of>_<rule> shorthand of one rules set expands to the operator with one single-rule
   definition per constraint; (3) a deprecated name is renamed. *)
From Coq Require Import List ZArith String Bool Ascii Lia.
From Cerb Require Import Values PyOps Expand.
Import ListNotations.
Open Scope string_scope.
Open Scope list_scope.

Lemma assoc_set_same {A} k (v : A) d : assoc_get k d = Some v -> assoc_set k v d = d.
Proof.
  induction d as [|[k' v'] d IH]; simpl; [discriminate|].
  destruct (key_eqb k k') eqn:E; intro H.
  - injection H as ->. reflexivity.
  - f_equal. apply IH. exact H.
Qed.

(* a canonical rule name: no <of>_ prefix, no space, not a deprecated name *)
Definition plain_name (k : key) : bool :=
  match k with
  | KStr s => negb (is_of_rule k) && negb (has_space s) && negb (existsb (fun p => String.eqb (fst p) s) deprecated)
  | KInt _ => true
  end.

Definition positions_absent (d : list (key * value)) : bool :=
  negb (assoc_mem (KStr "schema") d) &&
  forallb (fun n => negb (assoc_mem (KStr n) d)) bulk_names &&
  match assoc_get (KStr "allow_unknown") d with Some (VDict _) => false | _ => true end &&
  forallb (fun n => match assoc_get (KStr n) d with Some (VList _) => false | _ => true end) list_names.

(* canonical rules set / schema, with a nesting bound *)
Fixpoint canonr (f : nat) (v : value) : bool :=
  match v with
  | VStr _ => true
  | VDict d =>
      forallb (fun kv => plain_name (fst kv)) d &&
      match f with
      | O => positions_absent d
      | S f' =>
          match assoc_get (KStr "schema") d with
          | Some sv => if is_mapping_schema_v sv
                       then match sv with VDict sd => forallb (fun kv => canonr f' (snd kv)) sd | _ => false end
                       else canonr f' sv
          | None => true
          end &&
          forallb (fun n => match assoc_get (KStr n) d with Some v => canonr f' v | None => true end) bulk_names &&
          match assoc_get (KStr "allow_unknown") d with Some (VDict au) => canonr f' (VDict au) | _ => true end &&
          forallb (fun n => match assoc_get (KStr n) d with Some (VList items) => forallb (canonr f') items | _ => true end) list_names
      end
  | _ => false
  end.

Definition canons (f : nat) (s : list (key * value)) : bool := forallb (fun kv => canonr f (snd kv)) s.

(** step 1 leaves canonical rule sets alone *)
Lemma no_of_keys (d : list (key * value)) : forallb (fun kv => plain_name (fst kv)) d = true -> filter is_of_rule (map fst d) = [].
Proof.
  induction d as [|[k v] d IH]; simpl; [reflexivity|]. intro H. apply andb_true_iff in H as [H1 H2].
  rewrite IH by exact H2.
  destruct k as [s|z]; [|reflexivity].
  unfold plain_name in H1. destruct (is_of_rule (KStr s)); [discriminate|reflexivity].
Qed.

Lemma canonr_names f d : canonr f (VDict d) = true -> forallb (fun kv => plain_name (fst kv)) d = true.
Proof. destruct f; cbn [canonr]; intro H; apply andb_true_iff in H as [H _]; exact H. Qed.

Lemma shortcuts_rules_canon f v : canonr f v = true -> expand_shortcuts_rules v = Some v.
Proof.
  destruct v; try (destruct f; discriminate); [reflexivity|].
  intro H. unfold expand_shortcuts_rules. rewrite (no_of_keys _ (canonr_names _ _ H)). reflexivity.
Qed.

Lemma shortcuts_canon f s : canons f s = true -> expand_shortcuts s = (s, true).
Proof.
  induction s as [|[k v] s IH]; [reflexivity|]. cbn [canons forallb snd]. intro H.
  apply andb_true_iff in H as [H1 H2]. cbn [expand_shortcuts].
  rewrite (shortcuts_rules_canon f v H1). rewrite (IH H2). reflexivity.
Qed.

(** step 3 leaves canonical rule sets alone *)
Lemma get_none_of_plain (d : list (key * value)) s :
  forallb (fun kv => plain_name (fst kv)) d = true -> plain_name (KStr s) = false -> assoc_mem (KStr s) d = false.
Proof.
  intros Hd Hs. unfold assoc_mem. induction d as [|[k v] d IH]; [reflexivity|].
  cbn [forallb fst] in Hd. apply andb_true_iff in Hd as [H1 H2]. cbn [assoc_get].
  destruct (key_eqb (KStr s) k) eqn:E.
  - apply key_eqb_eq in E. subst k. rewrite Hs in H1. discriminate.
  - apply IH. exact H2.
Qed.

Lemma no_spaced (d : list (key * value)) :
  forallb (fun kv => plain_name (fst kv)) d = true ->
  flat_map (fun k => match k with KStr s => if has_space s then [s] else [] | _ => [] end) (map fst d) = [].
Proof.
  induction d as [|[k v] d IH]; [reflexivity|]. cbn [forallb fst map flat_map]. intro H.
  apply andb_true_iff in H as [H1 H2]. rewrite IH by exact H2.
  destruct k as [s|z]; [|reflexivity]. unfold plain_name in H1.
  destruct (has_space s); [|reflexivity].
  rewrite andb_false_r in H1. discriminate.
Qed.

Lemma rename_rules_canon f v : canonr f v = true -> rename_rules v = Ok v.
Proof.
  destruct v; try (destruct f; discriminate); [reflexivity|].
  intro H. pose proof (canonr_names _ _ H) as Hn. unfold rename_rules.
  unfold deprecated.
  rewrite (get_none_of_plain kvs "keyschema" Hn eq_refl). cbn [negb].
  rewrite (get_none_of_plain kvs "validator" Hn eq_refl). cbn [negb].
  rewrite (get_none_of_plain kvs "valueschema" Hn eq_refl). reflexivity.
Qed.

(** step 0 leaves canonical rule sets alone *)
Lemma canon_rules_canon f v : canonr f v = true -> canon_rules v = v.
Proof.
  destruct v; try (destruct f; discriminate); [reflexivity|].
  intro H. pose proof (canonr_names _ _ H) as Hn. unfold canon_rules.
  rewrite (no_spaced _ Hn). reflexivity.
Qed.

Lemma canon_all_canon f s : canons f s = true -> canon_all s = s.
Proof.
  induction s as [|[k v] s IH]; [reflexivity|]. cbn [canons forallb snd]. intro H.
  apply andb_true_iff in H as [H1 H2]. unfold canon_all in *. cbn [map fst snd].
  rewrite (canon_rules_canon f v H1). rewrite (IH H2). reflexivity.
Qed.

Lemma rename_all_canon f s : canons f s = true -> rename_all s = Ok s.
Proof.
  induction s as [|[k v] s IH]; [reflexivity|]. cbn [canons forallb snd]. intro H.
  apply andb_true_iff in H as [H1 H2]. cbn [rename_all].
  rewrite (rename_rules_canon f v H1). cbn [bind]. rewrite (IH H2). reflexivity.
Qed.

(** step 2: with a recursive call that fixes canonical schemas of the next lower nesting bound *)
Section Step.
  Variable f : nat.
  Variable rec : list (key * value) -> res (list (key * value)).
  Hypothesis rec_fix : forall s, canons f s = true -> rec s = Ok s.

  Lemma expand0_fix v : canonr f v = true -> expand0 rec v = Ok v.
  Proof.
    intro H. unfold expand0. rewrite rec_fix; [reflexivity|]. cbn [canons forallb snd]. rewrite H. reflexivity.
  Qed.

  Lemma expand_each_fix items : forallb (canonr f) items = true -> expand_each rec items = Ok items.
  Proof.
    induction items as [|i l IH]; [reflexivity|]. cbn [forallb]. intro H.
    apply andb_true_iff in H as [H1 H2]. cbn [expand_each].
    rewrite (expand0_fix i H1). cbn [bind]. rewrite (IH H2). reflexivity.
  Qed.

  Lemma sub_bulk_fix d : forall names,
    forallb (fun n => match assoc_get (KStr n) d with Some v => canonr f v | None => true end) names = true ->
    sub_bulk rec names d = Ok d.
  Proof.
    induction names as [|n ns IH]; [reflexivity|]. cbn [forallb]. intro H.
    apply andb_true_iff in H as [H1 H2]. cbn [sub_bulk].
    destruct (assoc_get (KStr n) d) as [v|] eqn:E; [|apply IH; exact H2].
    rewrite (expand0_fix v H1). cbn [bind]. rewrite (assoc_set_same _ _ _ E). apply IH. exact H2.
  Qed.

  Lemma sub_lists_fix d : forall names,
    forallb (fun n => match assoc_get (KStr n) d with Some (VList items) => forallb (canonr f) items | _ => true end) names = true ->
    sub_lists rec names d = Ok d.
  Proof.
    induction names as [|n ns IH]; [reflexivity|]. cbn [forallb]. intro H.
    apply andb_true_iff in H as [H1 H2]. cbn [sub_lists].
    destruct (assoc_get (KStr n) d) as [[| | | | |items| |]|] eqn:E; try (apply IH; exact H2).
    rewrite (expand_each_fix items H1). cbn [bind]. rewrite (assoc_set_same _ _ _ E). apply IH. exact H2.
  Qed.

  Lemma sub_rules_fix d : canonr (S f) (VDict d) = true -> sub_rules rec d = Ok d.
  Proof.
    cbn [canonr]. intro H.
    apply andb_true_iff in H as [_ H]. apply andb_true_iff in H as [H H4].
    apply andb_true_iff in H as [H H3]. apply andb_true_iff in H as [H1 H2].
    unfold sub_rules.
    assert (E1 : sub_schema rec d = Ok d).
    { unfold sub_schema. destruct (assoc_get (KStr "schema") d) as [sv|] eqn:E; [|reflexivity].
      destruct (is_mapping_schema_v sv) eqn:Em.
      - destruct sv; try discriminate. rewrite rec_fix by exact H1. cbn [bind].
        rewrite (assoc_set_same _ _ _ E). reflexivity.
      - rewrite (expand0_fix sv H1). cbn [bind]. rewrite (assoc_set_same _ _ _ E). reflexivity. }
    rewrite E1. cbn [bind]. rewrite (sub_bulk_fix d bulk_names H2). cbn [bind].
    assert (E3 : sub_allow_unknown rec d = Ok d).
    { unfold sub_allow_unknown. destruct (assoc_get (KStr "allow_unknown") d) as [[| | | | | |au|]|] eqn:E; try reflexivity.
      rewrite (expand0_fix (VDict au) H3). cbn [bind]. rewrite (assoc_set_same _ _ _ E). reflexivity. }
    rewrite E3. cbn [bind]. apply sub_lists_fix. exact H4.
  Qed.

  Lemma sub_fields_fix s : canons (S f) s = true -> sub_fields rec s = Ok s.
  Proof.
    induction s as [|[k v] s IH]; [reflexivity|]. cbn [canons forallb snd]. intro H.
    apply andb_true_iff in H as [H1 H2]. cbn [sub_fields].
    destruct v; try discriminate.
    - rewrite (IH H2). reflexivity.
    - rewrite (sub_rules_fix kvs H1). rewrite (IH H2). reflexivity.
  Qed.

  Lemma expand_step_fix s : canons (S f) s = true -> expand_step rec s = Ok s.
  Proof.
    intro H. unfold expand_step. rewrite (canon_all_canon _ _ H). rewrite (shortcuts_canon _ _ H).
    rewrite (sub_fields_fix s H). cbn [bind]. apply (rename_all_canon _ _ H).
  Qed.
End Step.

(* rule sets without recursion positions need no recursive call at all *)
Lemma sub_rules_leaf rec d : positions_absent d = true -> sub_rules rec d = Ok d.
Proof.
  unfold positions_absent. intro H.
  apply andb_true_iff in H as [H H4]. apply andb_true_iff in H as [H H3]. apply andb_true_iff in H as [H1 H2].
  unfold sub_rules, sub_schema. unfold assoc_mem in H1.
  destruct (assoc_get (KStr "schema") d); [discriminate|]. cbn [bind].
  assert (E2 : forall names, forallb (fun n => negb (assoc_mem (KStr n) d)) names = true -> sub_bulk rec names d = Ok d).
  { induction names as [|n ns IH]; [reflexivity|]. cbn [forallb]. intro G. apply andb_true_iff in G as [G1 G2].
    cbn [sub_bulk]. unfold assoc_mem in G1. destruct (assoc_get (KStr n) d); [discriminate|]. apply IH. exact G2. }
  rewrite (E2 _ H2). cbn [bind]. unfold sub_allow_unknown.
  destruct (assoc_get (KStr "allow_unknown") d) as [[| | | | | |au|]|]; try discriminate; cbn [bind];
    (induction list_names as [|n ns IH]; [reflexivity|]; cbn [forallb] in H4; apply andb_true_iff in H4 as [G1 G2];
     cbn [sub_lists]; destruct (assoc_get (KStr n) d) as [[| | | | |items| |]|]; try discriminate; apply IH; exact G2).
Qed.

Lemma canons_zero_step rec s : canons 0 s = true -> expand_step rec s = Ok s.
Proof.
  intro H. unfold expand_step. rewrite (canon_all_canon _ _ H). rewrite (shortcuts_canon _ _ H).
  assert (E : sub_fields rec s = Ok s).
  { induction s as [|[k v] s IH]; [reflexivity|]. cbn [canons forallb snd] in H.
    apply andb_true_iff in H as [H1 H2]. cbn [sub_fields].
    destruct v; try discriminate.
    - rewrite (IH H2). reflexivity.
    - cbn [canonr] in H1. apply andb_true_iff in H1 as [_ H1].
      rewrite (sub_rules_leaf rec kvs H1). rewrite (IH H2). reflexivity. }
  rewrite E. cbn [bind]. apply (rename_all_canon _ _ H).
Qed.

(** canonical schemas are fixed points of expand, at every nesting bound *)
Theorem expand_canonical : forall f s, canons f s = true -> expand (S f) s = Ok s.
Proof.
  induction f as [|f IH]; intros s H.
  - cbn [expand]. apply canons_zero_step. exact H.
  - change (expand (S (S f)) s) with (expand_step (expand (S f)) s).
    apply (expand_step_fix f (expand (S f)) IH). exact H.
Qed.

(** the shorthand of one rules set *)
Theorem shorthand_expands d name op rule cs :
  split_first_underscore name EmptyString = (op, rule) ->
  assoc_get (KStr name) d = Some (VList cs) ->
  expand_one_shortcut d (KStr name) =
    Some (assoc_del (KStr name) (assoc_set (KStr op) (VList (map (fun c => VDict [(KStr rule, c)]) cs)) d)).
Proof. intros Hs Hg. unfold expand_one_shortcut. rewrite Hs, Hg. reflexivity. Qed.

(* including rules whose own name contains an underscore: the split is at the FIRST underscore only *)
Example split_allow_unknown : split_first_underscore "oneof_allow_unknown" EmptyString = ("oneof", "allow_unknown").
Proof. reflexivity. Qed.

(** worked instance: shorthand, deprecated name and a spaced name at nested positions, in one schema *)
Example expand_instance :
  expand_top [(KStr "a", VDict [(KStr "type", VStr "list");
                                (KStr "schema", VDict [(KStr "anyof_type", VList [VStr "integer"; VStr "string"])])]);
              (KStr "b", VDict [(KStr "type", VStr "dict"); (KStr "keyschema", VDict [(KStr "type", VStr "string")]);
                                (KStr "allow unknown", VBool true)])]
  = Ok [(KStr "a", VDict [(KStr "type", VStr "list");
                          (KStr "schema", VDict [(KStr "anyof", VList [VDict [(KStr "type", VStr "integer")];
                                                                       VDict [(KStr "type", VStr "string")]])])]);
        (KStr "b", VDict [(KStr "type", VStr "dict"); (KStr "allow_unknown", VBool true);
                          (KStr "keysrules", VDict [(KStr "type", VStr "string")])])].
Proof. vm_compute. reflexivity. Qed.
