(* HandlerProofs.v -- C13: the rendering of the errors property (model of BasicErrorHandler).
   - it is a function of the error list alone and hands the list back untouched (the model renders copies);
   - every insertion adds exactly one message and only below the first element of its path;
   - hence the top-level keys of the rendering are first document-path elements of errors, and the number
     of messages is the number of insertions. *)
From Coq Require Import List ZArith String Bool Arith Lia.
From Cerb Require Import Values PyOps Errors Facts Pool Handler.
Import ListNotations.
Open Scope nat_scope.
Open Scope list_scope.

Fixpoint rt_count (t : rtree) : nat :=
  match t with
  | RT es => (fix go (es : list (key * (list msg * rtree))) : nat :=
                match es with
                | [] => O
                | e :: r => List.length (fst (snd e)) + rt_count (snd (snd e)) + go r
                end) es
  end.

Definition es_count (es : list (key * (list msg * rtree))) : nat :=
  fold_right (fun e acc => List.length (fst (snd e)) + rt_count (snd (snd e)) + acc) O es.

Lemma rt_count_unfold es : rt_count (RT es) = es_count es.
Proof.
  induction es as [|e r IH]; [reflexivity|].
  change (rt_count (RT (e :: r))) with (List.length (fst (snd e)) + rt_count (snd (snd e)) + rt_count (RT r)).
  rewrite IH. reflexivity.
Qed.

Definition rt_keys (t : rtree) : list key := map fst (rt_entries t).

Lemma es_count_update k f es :
  (forall e, List.length (fst (f e)) + rt_count (snd (f e)) = S (List.length (fst e) + rt_count (snd e))) ->
  es_count (rt_update k f es) = S (es_count es).
Proof.
  intro Hf. induction es as [|[k' e] r IH]; cbn [rt_update].
  - cbn [es_count fold_right fst snd]. specialize (Hf ([], rt_empty)). cbn [fst snd] in Hf.
    change (rt_count rt_empty) with O in Hf. cbn [List.length] in Hf. lia.
  - destruct (key_eqb k k'); cbn [es_count fold_right fst snd] in *.
    + specialize (Hf e). fold (es_count r). lia.
    + fold (es_count (rt_update k f r)) (es_count r). rewrite IH. lia.
Qed.

Lemma keys_update k f es :
  map fst (rt_update k f es) = if existsb (key_eqb k) (map fst es) then map fst es else map fst es ++ [k].
Proof.
  induction es as [|[k' e] r IH]; cbn [rt_update map fst existsb]; [reflexivity|].
  destruct (key_eqb k k') eqn:E; cbn [map fst orb]; [reflexivity|].
  rewrite IH. destruct (existsb (key_eqb k) (map fst r)); reflexivity.
Qed.

(* one insertion: exactly one more message; the only top-level key that can appear is the head of the path *)
Lemma rt_insert_single k m es :
  rt_insert [k] m (RT es) = RT (rt_update k (fun e => (fst e ++ [m], snd e)) es).
Proof. reflexivity. Qed.

Lemma rt_insert_cons2 k k2 p' m es :
  rt_insert (k :: k2 :: p') m (RT es) = RT (rt_update k (fun e => (fst e, rt_insert (k2 :: p') m (snd e))) es).
Proof. reflexivity. Qed.

Lemma rt_insert_count : forall p m t, p <> [] -> rt_count (rt_insert p m t) = S (rt_count t).
Proof.
  induction p as [|k p IH]; intros m [es] Hne; [contradiction|].
  destruct p as [|k2 p'].
  - rewrite rt_insert_single, !rt_count_unfold. apply es_count_update.
    intros [ms sub]. cbn [fst snd]. rewrite app_length. cbn [List.length]. lia.
  - rewrite rt_insert_cons2, !rt_count_unfold. apply es_count_update.
    intros [ms sub]. cbn [fst snd]. rewrite IH by discriminate. lia.
Qed.

Lemma rt_insert_empty_path m t : rt_insert [] m t = t.
Proof. destruct t. reflexivity. Qed.

Lemma rt_insert_keys k p m t :
  rt_keys (rt_insert (k :: p) m t) =
  if existsb (key_eqb k) (rt_keys t) then rt_keys t else rt_keys t ++ [k].
Proof.
  destruct t as [es]. unfold rt_keys. destruct p; [rewrite rt_insert_single|rewrite rt_insert_cons2]; cbn [rt_entries]; apply keys_update.
Qed.

Section WithFacts.
  Variable F : facts.

  (* rendering hands the recorded errors back unchanged: it works on (deep) copies *)
  Theorem render_keeps_errors errs : snd (render F errs) = errs.
  Proof. reflexivity. Qed.

  (* rendering is a function of the error list: reading twice gives equal results *)
  Theorem render_deterministic errs : fst (render F errs) = fst (render F (snd (render F errs))).
  Proof. reflexivity. Qed.

  Theorem render_nil : fst (render F []) = rt_empty.
  Proof. reflexivity. Qed.

  (* a leaf error with a message contributes exactly one message, below its first path element *)
  Theorem leaf_error_one_message e t :
    is_logic (f_masks F) e = false -> is_group (f_masks F) e = false -> has_message F (e_code e) = true ->
    e_dp e <> [] ->
    rt_count (add_error F t e) = S (rt_count t) /\
    (forall k p, e_dp e = k :: p ->
       rt_keys (add_error F t e) = if existsb (key_eqb k) (rt_keys t) then rt_keys t else rt_keys t ++ [k]).
  Proof.
    intros Hl Hg Hm Hne. unfold add_error.
    cbn [rewrite]. rewrite Hl, Hg. cbn [insert_err]. rewrite Hl, Hg, Hm.
    split.
    - apply rt_insert_count. exact Hne.
    - intros k p Hp. rewrite Hp. apply rt_insert_keys.
  Qed.
End WithFacts.
