(* HandlerProofs.v -- C13: the rendering of the errors property (model of BasicErrorHandler).
   - it is a function of the error list alone and hands the list back untouched (the model renders copies);
   - every insertion adds exactly one message and only below the first element of its path;
   - hence the top-level keys of the rendering are first document-path elements of errors, and the number
     of messages is the number of insertions. *)
From Coq Require Import List ZArith String Bool Arith Lia.
From Cerb Require Import Values PyOps Errors Facts Pool Handler.
Import ListNotations.
Open Scope nat_scope.
Open Scope list_scope.

Fixpoint rt_count (t : rtree) : nat :=
  match t with
  | RT es => (fix go (es : list (key * (list msg * rtree))) : nat :=
                match es with
                | [] => O
                | e :: r => List.length (fst (snd e)) + rt_count (snd (snd e)) + go r
                end) es
  end.

Definition es_count (es : list (key * (list msg * rtree))) : nat :=
  fold_right (fun e acc => List.length (fst (snd e)) + rt_count (snd (snd e)) + acc) O es.

Lemma rt_count_unfold es : rt_count (RT es) = es_count es.
Proof.
  induction es as [|e r IH]; [reflexivity|].
  change (rt_count (RT (e :: r))) with (List.length (fst (snd e)) + rt_count (snd (snd e)) + rt_count (RT r)).
  rewrite IH. reflexivity.
Qed.

Definition rt_keys (t : rtree) : list key := map fst (rt_entries t).

Lemma es_count_update k f es :
  (forall e, List.length (fst (f e)) + rt_count (snd (f e)) = S (List.length (fst e) + rt_count (snd e))) ->
  es_count (rt_update k f es) = S (es_count es).
Proof.
  intro Hf. induction es as [|[k' e] r IH]; cbn [rt_update].
  - cbn [es_count fold_right fst snd]. specialize (Hf ([], rt_empty)). cbn [fst snd] in Hf.
    change (rt_count rt_empty) with O in Hf. cbn [List.length] in Hf. lia.
  - destruct (key_eqb k k'); cbn [es_count fold_right fst snd] in *.
    + specialize (Hf e). fold (es_count r). lia.
    + fold (es_count (rt_update k f r)) (es_count r). rewrite IH. lia.
Qed.

Lemma keys_update k f es :
  map fst (rt_update k f es) = if existsb (key_eqb k) (map fst es) then map fst es else map fst es ++ [k].
Proof.
  induction es as [|[k' e] r IH]; cbn [rt_update map fst existsb]; [reflexivity|].
  destruct (key_eqb k k') eqn:E; cbn [map fst orb]; [reflexivity|].
  rewrite IH. destruct (existsb (key_eqb k) (map fst r)); reflexivity.
Qed.

(* one insertion: exactly one more message; the only top-level key that can appear is the head of the path *)
Lemma rt_insert_single k m es :
  rt_insert [k] m (RT es) = RT (rt_update k (fun e => (fst e ++ [m], snd e)) es).
Proof. reflexivity. Qed.

Lemma rt_insert_cons2 k k2 p' m es :
  rt_insert (k :: k2 :: p') m (RT es) = RT (rt_update k (fun e => (fst e, rt_insert (k2 :: p') m (snd e))) es).
Proof. reflexivity. Qed.

Lemma rt_insert_count : forall p m t, p <> [] -> rt_count (rt_insert p m t) = S (rt_count t).
Proof.
  induction p as [|k p IH]; intros m [es] Hne; [contradiction|].
  destruct p as [|k2 p'].
  - rewrite rt_insert_single, !rt_count_unfold. apply es_count_update.
    intros [ms sub]. cbn [fst snd]. rewrite app_length. cbn [List.length]. lia.
  - rewrite rt_insert_cons2, !rt_count_unfold. apply es_count_update.
    intros [ms sub]. cbn [fst snd]. rewrite IH by discriminate. lia.
Qed.

Lemma rt_insert_empty_path m t : rt_insert [] m t = t.
Proof. destruct t. reflexivity. Qed.

Lemma rt_insert_keys k p m t :
  rt_keys (rt_insert (k :: p) m t) =
  if existsb (key_eqb k) (rt_keys t) then rt_keys t else rt_keys t ++ [k].
Proof.
  destruct t as [es]. unfold rt_keys. destruct p; [rewrite rt_insert_single|rewrite rt_insert_cons2]; cbn [rt_entries]; apply keys_update.
Qed.

Section WithFacts.
  Variable F : facts.

  (* rendering hands the recorded errors back unchanged: it works on (deep) copies *)
  Theorem render_keeps_errors errs : snd (render F errs) = errs.
  Proof. reflexivity. Qed.

  (* rendering is a function of the error list: reading twice gives equal results *)
  Theorem render_deterministic errs : fst (render F errs) = fst (render F (snd (render F errs))).
  Proof. reflexivity. Qed.

  Theorem render_nil : fst (render F []) = rt_empty.
  Proof. reflexivity. Qed.

  (* a leaf error with a message contributes exactly one message, below its first path element *)
  Theorem leaf_error_one_message e t :
    is_logic (f_masks F) e = false -> is_group (f_masks F) e = false -> has_message F (e_code e) = true ->
    e_dp e <> [] ->
    rt_count (add_error F t e) = S (rt_count t) /\
    (forall k p, e_dp e = k :: p ->
       rt_keys (add_error F t e) = if existsb (key_eqb k) (rt_keys t) then rt_keys t else rt_keys t ++ [k]).
  Proof.
    intros Hl Hg Hm Hne. unfold add_error.
    cbn [rewrite]. rewrite Hl, Hg. cbn [insert_err]. rewrite Hl, Hg, Hm.
    split.
    - apply rt_insert_count. exact Hne.
    - intros k p Hp. rewrite Hp. apply rt_insert_keys.
  Qed.
End WithFacts.

(** ** The number of messages: every non-group error contributes one message, an *of error its own message plus
    what its definitions' errors contribute, a group error what its children contribute -- at any nesting. *)
Section Counting.
  Variable F : facts.
  Let M := f_masks F.

  (* what insert_err adds, by the same recursion (kind 0: top level, only codes with a message template) *)
  Fixpoint nmsgs (fuel : nat) (kind : nat) (e : error) : nat :=
    match fuel with
    | O => O
    | S f =>
        if is_logic M e then S (fold_left (fun n c => n + nmsgs f 2 c) (child_errors M e) O)
        else if is_group M e then fold_left (fun n c => n + nmsgs f 1 c) (child_errors M e) O
        else match kind with
             | O => if has_message F (e_code e) then 1 else 0
             | _ => 1
             end
    end.

  (* all document paths met by the insertion are non-empty *)
  Fixpoint paths_ok (fuel : nat) (e : error) : Prop :=
    match fuel with
    | O => True
    | S f => e_dp e <> [] /\ Forall (paths_ok f) (child_errors M e)
    end.

  Lemma fold_insert_count f kind pf : forall cs t,
    (forall c t, In c cs -> rt_count (insert_err F f kind pf c t) = rt_count t + nmsgs f kind c) ->
    rt_count (fold_left (fun t c => insert_err F f kind pf c t) cs t) =
    rt_count t + fold_left (fun n c => n + nmsgs f kind c) cs O.
  Proof.
    induction cs as [|c cs IH]; intros t H; [cbn [fold_left]; lia|].
    cbn [fold_left]. rewrite IH by (intros c' t' Hc'; apply H; right; exact Hc').
    rewrite (H c t (or_introl eq_refl)).
    assert (Hacc : forall l a, fold_left (fun n c0 => n + nmsgs f kind c0) l a = a + fold_left (fun n c0 => n + nmsgs f kind c0) l O).
    { induction l as [|y l IHl]; intro a; cbn [fold_left]; [lia|]. rewrite IHl. rewrite (IHl (0 + nmsgs f kind y)). lia. }
    rewrite (Hacc cs (0 + nmsgs f kind c)). lia.
  Qed.

  Lemma insert_count : forall fuel kind pf e t,
    paths_ok fuel e -> rt_count (insert_err F fuel kind pf e t) = rt_count t + nmsgs fuel kind e.
  Proof.
    induction fuel as [|f IH]; intros kind pf e t Hp; [cbn [insert_err nmsgs]; lia|].
    cbn [paths_ok] in Hp. destruct Hp as [Hne Hch]. cbn [insert_err nmsgs]. fold M.
    destruct (is_logic M e).
    - rewrite fold_insert_count.
      + rewrite rt_insert_count by exact Hne. lia.
      + intros c t' Hc. apply IH. rewrite Forall_forall in Hch. apply Hch. exact Hc.
    - destruct (is_group M e).
      + apply fold_insert_count. intros c t' Hc. apply IH. rewrite Forall_forall in Hch. apply Hch. exact Hc.
      + destruct kind as [|[|k]].
        * destruct (has_message F (e_code e)); [rewrite rt_insert_count by exact Hne|]; lia.
        * rewrite rt_insert_count by exact Hne. lia.
        * rewrite rt_insert_count by exact Hne. lia.
  Qed.

  (* the path rewriting keeps codes and shapes, and makes every child path extend its parent's *)
  Lemma set_dp_code e dp ch : e_code (set_dp e dp ch) = e_code e.
  Proof. destruct e; reflexivity. Qed.
  Lemma set_dp_dp e dp ch : e_dp (set_dp e dp ch) = dp.
  Proof. destruct e; reflexivity. Qed.
  Lemma set_dp_children e dp ch : e_children (set_dp e dp ch) = ch.
  Proof. destruct e; reflexivity. Qed.

  Lemma is_logic_set_dp e dp ch : is_logic M (set_dp e dp ch) = is_logic M e.
  Proof. unfold is_logic. rewrite set_dp_code. reflexivity. Qed.
  Lemma is_group_set_dp e dp ch : is_group M (set_dp e dp ch) = is_group M e.
  Proof. unfold is_group. rewrite set_dp_code. reflexivity. Qed.
  Lemma child_errors_set_dp e dp ch : child_errors M (set_dp e dp ch) = if is_group M e then ch else [].
  Proof. unfold child_errors. rewrite is_group_set_dp, set_dp_children. reflexivity. Qed.

  Lemma rewrite_code : forall fuel off e, e_code (rewrite F fuel off e) = e_code e.
  Proof.
    destruct fuel as [|f]; intros off e; [reflexivity|]. cbn [rewrite]. fold M.
    destruct (is_logic M e); [apply set_dp_code|]. destruct (is_group M e); [apply set_dp_code|reflexivity].
  Qed.
  Lemma rewrite_dp : forall fuel off e, e_dp (rewrite F fuel off e) = e_dp e.
  Proof.
    destruct fuel as [|f]; intros off e; [reflexivity|]. cbn [rewrite]. fold M.
    destruct (is_logic M e); [apply set_dp_dp|]. destruct (is_group M e); [apply set_dp_dp|reflexivity].
  Qed.

  Lemma rewrite_paths_ok : forall fuel off e, e_dp e <> [] -> paths_ok fuel (rewrite F fuel off e).
  Proof.
    induction fuel as [|f IH]; intros off e Hne; [exact I|].
    cbn [paths_ok]. split; [rewrite rewrite_dp; exact Hne|].
    cbn [rewrite]. fold M.
    destruct (is_logic M e) eqn:El.
    - rewrite child_errors_set_dp. destruct (is_group M e); [|constructor].
      apply Forall_forall. intros c' Hc'. apply in_map_iff in Hc' as [c [<- _]].
      apply IH. rewrite set_dp_dp. intro H. apply app_eq_nil in H as [H _]. exact (Hne H).
    - destruct (is_group M e) eqn:Eg.
      + rewrite child_errors_set_dp, Eg.
        apply Forall_forall. intros c' Hc'. apply in_map_iff in Hc' as [c [<- _]].
        apply IH. rewrite set_dp_dp. intro H. apply app_eq_nil in H as [H _]. exact (Hne H).
      + unfold child_errors. rewrite Eg. constructor.
  Qed.

  Lemma nmsgs_ext f kind : forall (g : error -> error) cs,
    (forall c, In c cs -> nmsgs f kind (g c) = nmsgs f kind c) ->
    fold_left (fun n c => n + nmsgs f kind c) (map g cs) O = fold_left (fun n c => n + nmsgs f kind c) cs O.
  Proof.
    intros g cs. generalize O. induction cs as [|c cs IH]; intros a H; [reflexivity|].
    cbn [map fold_left]. rewrite (H c (or_introl eq_refl)). apply IH. intros c' Hc'. apply H. right. exact Hc'.
  Qed.

  Lemma nmsgs_set_dp : forall fuel kind e dp, nmsgs fuel kind (set_dp e dp (e_children e)) = nmsgs fuel kind e.
  Proof.
    destruct fuel as [|f]; intros kind e dp; [reflexivity|]. cbn [nmsgs].
    rewrite is_logic_set_dp, is_group_set_dp, child_errors_set_dp, set_dp_code. unfold child_errors.
    destruct (is_group M e); reflexivity.
  Qed.

  Lemma nmsgs_rewrite : forall fuel kind off e, nmsgs fuel kind (rewrite F fuel off e) = nmsgs fuel kind e.
  Proof.
    induction fuel as [|f IH]; intros kind off e; [reflexivity|].
    cbn [rewrite nmsgs]. fold M.
    destruct (is_logic M e) eqn:El; destruct (is_group M e) eqn:Eg.
    - rewrite is_logic_set_dp, El, child_errors_set_dp, Eg. f_equal.
      apply nmsgs_ext. intros c _. rewrite IH. apply nmsgs_set_dp.
    - rewrite is_logic_set_dp, El, child_errors_set_dp, Eg. unfold child_errors. rewrite Eg. reflexivity.
    - rewrite is_logic_set_dp, El, is_group_set_dp, Eg, child_errors_set_dp, Eg.
      apply nmsgs_ext. intros c _. rewrite IH. apply nmsgs_set_dp.
    - rewrite El, Eg. reflexivity.
  Qed.

  Theorem add_error_count e t :
    e_dp e <> [] ->
    rt_count (add_error F t e) = rt_count t + nmsgs (S (err_depth e)) 0 e.
  Proof.
    intro Hne. unfold add_error. rewrite insert_count by (apply rewrite_paths_ok; exact Hne).
    rewrite nmsgs_rewrite. reflexivity.
  Qed.

  Theorem render_count : forall errs, Forall (fun e => e_dp e <> []) errs ->
    rt_count (fst (render F errs)) = fold_left (fun n e => n + nmsgs (S (err_depth e)) 0 e) errs O.
  Proof.
    intros errs H. unfold render. cbn [fst]. change O with (rt_count rt_empty) at 2. generalize rt_empty.
    induction H as [|e errs He _ IH]; intro t; [reflexivity|].
    cbn [fold_left]. rewrite IH. rewrite add_error_count by exact He. reflexivity.
  Qed.
End Counting.

(** * Top-level keys of the rendering: exactly the first document-path elements of the errors that contribute a message *)
Lemma sum_shift {A} (g : A -> nat) : forall l a,
  fold_left (fun n c => n + g c) l a = a + fold_left (fun n c => n + g c) l O.
Proof. induction l as [|y l IH]; intro a; cbn [fold_left]; [lia|]. rewrite IH, (IH (0 + g y)). lia. Qed.

Lemma sum_pos {A} (g : A -> nat) : forall l,
  0 < fold_left (fun n c => n + g c) l O <-> exists c, In c l /\ 0 < g c.
Proof.
  induction l as [|y l IH]; cbn [fold_left].
  - split; [lia|intros [c [[] _]]].
  - rewrite sum_shift. split.
    + intro H. destruct (Nat.eq_dec (g y) 0) as [E|E].
      * assert (H' : 0 < fold_left (fun n c => n + g c) l 0) by lia.
        apply IH in H' as [c [Hc Hg]]. exists c. split; [right; exact Hc|exact Hg].
      * exists y. split; [left; reflexivity|lia].
    + intros [c [[<-|Hc] Hg]]; [lia|].
      assert (0 < fold_left (fun n c0 => n + g c0) l 0) by (apply IH; exists c; split; assumption). lia.
Qed.

Lemma existsb_key_In k l : existsb (key_eqb k) l = true <-> In k l.
Proof.
  rewrite existsb_exists. split.
  - intros [y [Hy E]]. apply key_eqb_eq in E. subst y. exact Hy.
  - intro H. exists k. split; [exact H|apply key_eqb_refl].
Qed.

Lemma rt_insert_keys_iff k p m t k' :
  In k' (rt_keys (rt_insert (k :: p) m t)) <-> In k' (rt_keys t) \/ k' = k.
Proof.
  rewrite rt_insert_keys. destruct (existsb (key_eqb k) (rt_keys t)) eqn:E.
  - apply existsb_key_In in E. split; [intro H; left; exact H|intros [H| ->]; assumption].
  - rewrite in_app_iff. cbn [In]. split; [intros [H|[H|[]]]; [left; exact H|right; symmetry; exact H]|
                                         intros [H| ->]; [left; exact H|right; left; reflexivity]].
Qed.

Section Keys.
  Variable F : facts.
  Local Notation M := (f_masks F).

  (* every document path met by the insertion starts with k *)
  Fixpoint heads (k : key) (fuel : nat) (e : error) : Prop :=
    match fuel with
    | O => True
    | S f => (exists p, e_dp e = k :: p) /\ Forall (heads k f) (child_errors M e)
    end.

  Lemma fold_insert_keys f kind pf k k' : forall cs t,
    (forall c t, In c cs -> (In k' (rt_keys (insert_err F f kind pf c t)) <-> In k' (rt_keys t) \/ (k' = k /\ 0 < nmsgs F f kind c))) ->
    (In k' (rt_keys (fold_left (fun t c => insert_err F f kind pf c t) cs t)) <->
     In k' (rt_keys t) \/ (k' = k /\ 0 < fold_left (fun n c => n + nmsgs F f kind c) cs O)).
  Proof.
    induction cs as [|c cs IH]; intros t H; cbn [fold_left].
    - split; [intro Hi; left; exact Hi|intros [Hi|[_ Hl]]; [exact Hi|lia]].
    - rewrite IH by (intros c' t' Hc'; apply H; right; exact Hc').
      rewrite (H c t (or_introl eq_refl)). rewrite (sum_shift _ cs (0 + nmsgs F f kind c)).
      split.
      + intros [[Hi|[Hk Hn]]|[Hk Hn]]; [left; exact Hi|right; split; [exact Hk|lia]|right; split; [exact Hk|lia]].
      + intros [Hi|[Hk Hn]]; [left; left; exact Hi|].
        destruct (Nat.eq_dec (nmsgs F f kind c) 0) as [E|E].
        * right. split; [exact Hk|lia].
        * left. right. split; [exact Hk|lia].
  Qed.

  Lemma insert_keys : forall fuel kind pf e t k k',
    heads k fuel e ->
    (In k' (rt_keys (insert_err F fuel kind pf e t)) <-> In k' (rt_keys t) \/ (k' = k /\ 0 < nmsgs F fuel kind e)).
  Proof.
    induction fuel as [|f IH]; intros kind pf e t k k' Hh.
    - cbn [insert_err nmsgs]. split; [intro Hi; left; exact Hi|intros [Hi|[_ Hl]]; [exact Hi|lia]].
    - cbn [heads] in Hh. destruct Hh as [[p Hp] Hch]. cbn [insert_err nmsgs].
      assert (Hc : forall kind' pf' c t', In c (child_errors M e) ->
                (In k' (rt_keys (insert_err F f kind' pf' c t')) <-> In k' (rt_keys t') \/ (k' = k /\ 0 < nmsgs F f kind' c))).
      { intros kind' pf' c t' Hc. apply IH. rewrite Forall_forall in Hch. apply Hch. exact Hc. }
      destruct (is_logic M e).
      + rewrite (fold_insert_keys f 2 _ k k') by (intros c t' Hi; apply Hc; exact Hi).
        rewrite Hp, rt_insert_keys_iff.
        split; [intros [[Hi|Hk]|[Hk _]]; [left; exact Hi|right; split; [exact Hk|lia]|right; split; [exact Hk|lia]]|
                intros [Hi|[Hk _]]; [left; left; exact Hi|left; right; exact Hk]].
      + destruct (is_group M e).
        * apply (fold_insert_keys f 1 _ k k'). intros c t' Hi. apply Hc. exact Hi.
        * destruct kind as [|[|kk]].
          -- destruct (has_message F (e_code e)).
             ++ rewrite Hp, rt_insert_keys_iff. split; [intros [Hi|Hk]; [left; exact Hi|right; split; [exact Hk|lia]]|
                                                        intros [Hi|[Hk _]]; [left; exact Hi|right; exact Hk]].
             ++ split; [intro Hi; left; exact Hi|intros [Hi|[_ Hl]]; [exact Hi|lia]].
          -- rewrite Hp, rt_insert_keys_iff. split; [intros [Hi|Hk]; [left; exact Hi|right; split; [exact Hk|lia]]|
                                                     intros [Hi|[Hk _]]; [left; exact Hi|right; exact Hk]].
          -- rewrite Hp, rt_insert_keys_iff. split; [intros [Hi|Hk]; [left; exact Hi|right; split; [exact Hk|lia]]|
                                                     intros [Hi|[Hk _]]; [left; exact Hi|right; exact Hk]].
  Qed.

  Lemma rewrite_heads : forall fuel off e k p, e_dp e = k :: p -> heads k fuel (rewrite F fuel off e).
  Proof.
    induction fuel as [|f IH]; intros off e k p Hp; [exact I|].
    cbn [heads]. split; [exists p; rewrite rewrite_dp; exact Hp|].
    cbn [rewrite].
    destruct (is_logic M e) eqn:El.
    - rewrite child_errors_set_dp. destruct (is_group M e); [|constructor].
      apply Forall_forall. intros c' Hc'. apply in_map_iff in Hc' as [c [<- _]].
      eapply IH. rewrite set_dp_dp, Hp. cbn [app]. reflexivity.
    - destruct (is_group M e) eqn:Eg.
      + rewrite child_errors_set_dp, Eg.
        apply Forall_forall. intros c' Hc'. apply in_map_iff in Hc' as [c [<- _]].
        eapply IH. rewrite set_dp_dp, Hp. cbn [app]. reflexivity.
      + unfold child_errors. rewrite Eg. constructor.
  Qed.

  Theorem add_error_keys e t k p k' :
    e_dp e = k :: p ->
    (In k' (rt_keys (add_error F t e)) <-> In k' (rt_keys t) \/ (k' = k /\ 0 < nmsgs F (S (err_depth e)) 0 e)).
  Proof.
    intro Hp. unfold add_error. rewrite (insert_keys _ _ _ _ _ k k') by (eapply rewrite_heads; exact Hp).
    rewrite nmsgs_rewrite. reflexivity.
  Qed.

  (* the top-level keys of the errors property are exactly the first document-path elements of the errors that
     contribute at least one message *)
  Theorem render_keys : forall errs k',
    Forall (fun e => e_dp e <> []) errs ->
    (In k' (rt_keys (fst (render F errs))) <->
     exists e p, In e errs /\ e_dp e = k' :: p /\ 0 < nmsgs F (S (err_depth e)) 0 e).
  Proof.
    intros errs k' H. unfold render. cbn [fst].
    assert (G : forall t, In k' (rt_keys (fold_left (add_error F) errs t)) <->
                          In k' (rt_keys t) \/ exists e p, In e errs /\ e_dp e = k' :: p /\ 0 < nmsgs F (S (err_depth e)) 0 e).
    { induction H as [|e errs He _ IH]; intro t; cbn [fold_left].
      - split; [intro Hi; left; exact Hi|intros [Hi|[e [p [[] _]]]]; exact Hi].
      - rewrite IH. destruct (e_dp e) as [|k p] eqn:Ep; [contradiction|].
        rewrite (add_error_keys e t k p k' Ep). split.
        + intros [[Hi|[Hk Hn]]|[e' [p' [Hi [Hp Hn]]]]].
          * left. exact Hi.
          * right. exists e, p. subst k'. split; [left; reflexivity|split; [exact Ep|exact Hn]].
          * right. exists e', p'. split; [right; exact Hi|split; assumption].
        + intros [Hi|[e' [p' [[<-|Hi] [Hp Hn]]]]].
          * left. left. exact Hi.
          * left. right. rewrite Ep in Hp. injection Hp as -> _. split; [reflexivity|exact Hn].
          * right. exists e', p'. split; [exact Hi|split; assumption]. }
    rewrite G. change (rt_keys rt_empty) with (@nil key). cbn [In]. split; [intros [[]|Hx]; exact Hx|intro Hx; right; exact Hx].
  Qed.
End Keys.

(** * Placement: an insertion appends its message to the list found at its path and changes the list at no other path *)
Fixpoint es_get (k : key) (es : list (key * (list msg * rtree))) : option (list msg * rtree) :=
  match es with
  | [] => None
  | (k', e) :: r => if key_eqb k k' then Some e else es_get k r
  end.

Definition es_get_d (k : key) es : list msg * rtree :=
  match es_get k es with Some e => e | None => ([], rt_empty) end.

(* the list of messages at a document path: path[:-1] walks through the trailing dicts, path[-1] selects the list *)
Fixpoint rt_msgs (p : path) (t : rtree) {struct p} : list msg :=
  match p with
  | [] => []
  | k :: p' =>
      match p' with
      | [] => fst (es_get_d k (rt_entries t))
      | _ :: _ => rt_msgs p' (snd (es_get_d k (rt_entries t)))
      end
  end.

Lemma es_get_update_same k f es : es_get k (rt_update k f es) = Some (f (es_get_d k es)).
Proof.
  unfold es_get_d. induction es as [|[k' e] r IH]; cbn [rt_update es_get].
  - rewrite key_eqb_refl. reflexivity.
  - destruct (key_eqb k k') eqn:E; cbn [es_get]; rewrite E; [reflexivity|exact IH].
Qed.

Lemma es_get_update_other k k2 f es : k2 <> k -> es_get k2 (rt_update k f es) = es_get k2 es.
Proof.
  intro Hne. induction es as [|[k' e] r IH]; cbn [rt_update es_get].
  - apply key_eqb_neq in Hne. rewrite Hne. reflexivity.
  - destruct (key_eqb k k') eqn:E; cbn [es_get].
    + apply key_eqb_eq in E. subst k'. apply key_eqb_neq in Hne. rewrite Hne. reflexivity.
    + rewrite IH. reflexivity.
Qed.


Lemma rt_msgs_single k t : rt_msgs [k] t = fst (es_get_d k (rt_entries t)).
Proof. reflexivity. Qed.
Lemma rt_msgs_cons2 k k2 p t : rt_msgs (k :: k2 :: p) t = rt_msgs (k2 :: p) (snd (es_get_d k (rt_entries t))).
Proof. reflexivity. Qed.
Lemma es_get_d_update_same k f es : es_get_d k (rt_update k f es) = f (es_get_d k es).
Proof. unfold es_get_d at 1. rewrite es_get_update_same. reflexivity. Qed.
Lemma es_get_d_update_other k k2 f es : k2 <> k -> es_get_d k2 (rt_update k f es) = es_get_d k2 es.
Proof. intro H. unfold es_get_d. rewrite es_get_update_other by exact H. reflexivity. Qed.

Lemma rt_msgs_empty p : rt_msgs p rt_empty = [].
Proof. induction p as [|k p IH]; [reflexivity|]. destruct p as [|k2 p']; [reflexivity|]. rewrite rt_msgs_cons2. exact IH. Qed.

Theorem rt_insert_msgs_same : forall p m t, p <> [] -> rt_msgs p (rt_insert p m t) = rt_msgs p t ++ [m].
Proof.
  induction p as [|k p IH]; intros m [es] Hne; [contradiction|].
  destruct p as [|k2 p'].
  - rewrite rt_insert_single, !rt_msgs_single. cbn [rt_entries]. rewrite es_get_d_update_same. reflexivity.
  - rewrite rt_insert_cons2, !rt_msgs_cons2. cbn [rt_entries]. rewrite es_get_d_update_same. cbn [snd].
    apply IH. discriminate.
Qed.

Theorem rt_insert_msgs_other : forall p q m t, q <> p -> rt_msgs q (rt_insert p m t) = rt_msgs q t.
Proof.
  induction p as [|k p IH]; intros q m [es] Hne; [reflexivity|].
  destruct q as [|k' q']; [reflexivity|].
  destruct (key_eqb k' k) eqn:E.
  - apply key_eqb_eq in E. subst k'.
    destruct p as [|k2 p'].
    + rewrite rt_insert_single.
      destruct q' as [|k3 q'']; [contradiction Hne; reflexivity|].
      rewrite !rt_msgs_cons2. cbn [rt_entries]. rewrite es_get_d_update_same. reflexivity.
    + rewrite rt_insert_cons2.
      destruct q' as [|k3 q''].
      * rewrite !rt_msgs_single. cbn [rt_entries]. rewrite es_get_d_update_same. reflexivity.
      * rewrite !rt_msgs_cons2. cbn [rt_entries]. rewrite es_get_d_update_same. cbn [snd].
        apply IH. intro H. apply Hne. rewrite H. reflexivity.
  - apply key_eqb_neq in E.
    destruct p as [|k2 p']; [rewrite rt_insert_single|rewrite rt_insert_cons2];
      (destruct q' as [|k3 q'']; [rewrite !rt_msgs_single|rewrite !rt_msgs_cons2]; cbn [rt_entries];
       rewrite es_get_d_update_other by exact E; reflexivity).
Qed.

Definition key_dec (a b : key) : {a = b} + {a <> b}.
Proof. destruct (key_eqb a b) eqn:E; [left; apply key_eqb_eq; exact E|right; apply key_eqb_neq; exact E]. Defined.
Definition path_dec : forall p q : path, {p = q} + {p <> q} := list_eq_dec key_dec.

Lemma rt_insert_msgs p q m t : p <> [] ->
  rt_msgs q (rt_insert p m t) = rt_msgs q t ++ (if path_dec q p then [m] else []).
Proof.
  intro Hne. destruct (path_dec q p) as [->|Hq].
  - apply rt_insert_msgs_same. exact Hne.
  - rewrite app_nil_r. apply rt_insert_msgs_other. exact Hq.
Qed.

Section Placement.
  Variable F : facts.
  Local Notation M := (f_masks F).

  (* the messages the insertion of e adds to the list at path q, in order -- by the recursion of insert_err *)
  Fixpoint msgs_at (fuel : nat) (kind : nat) (pf : option key) (e : error) (q : path) : list msg :=
    match fuel with
    | O => []
    | S f =>
        let here m := if path_dec q (e_dp e) then [m] else [] in
        if is_logic M e then
          here (mk_msg (last_key (e_dp e)) e) ++ flat_map (fun c => msgs_at f 2 (last_key (e_dp e)) c q) (child_errors M e)
        else if is_group M e then flat_map (fun c => msgs_at f 1 None c q) (child_errors M e)
        else match kind with
             | O => if has_message F (e_code e) then here (mk_msg (last_key (e_dp e)) e) else []
             | 1%nat => here (mk_msg (last_key (e_dp e)) e)
             | _ => here (mk_msg pf e)
             end
    end.

  Lemma fold_insert_msgs f kind pf q : forall cs t,
    (forall c t, In c cs -> rt_msgs q (insert_err F f kind pf c t) = rt_msgs q t ++ msgs_at f kind pf c q) ->
    rt_msgs q (fold_left (fun t c => insert_err F f kind pf c t) cs t) =
    rt_msgs q t ++ flat_map (fun c => msgs_at f kind pf c q) cs.
  Proof.
    induction cs as [|c cs IH]; intros t H; cbn [fold_left flat_map]; [rewrite app_nil_r; reflexivity|].
    rewrite IH by (intros c' t' Hc'; apply H; right; exact Hc').
    rewrite (H c t (or_introl eq_refl)). rewrite app_assoc. reflexivity.
  Qed.

  Lemma insert_msgs : forall fuel kind pf e t q,
    paths_ok F fuel e -> rt_msgs q (insert_err F fuel kind pf e t) = rt_msgs q t ++ msgs_at fuel kind pf e q.
  Proof.
    induction fuel as [|f IH]; intros kind pf e t q Hp; [cbn [insert_err msgs_at]; rewrite app_nil_r; reflexivity|].
    cbn [paths_ok] in Hp. destruct Hp as [Hne Hch]. cbn [insert_err msgs_at].
    assert (Hc : forall kind' pf' c t', In c (child_errors M e) ->
              rt_msgs q (insert_err F f kind' pf' c t') = rt_msgs q t' ++ msgs_at f kind' pf' c q).
    { intros kind' pf' c t' Hc. apply IH. rewrite Forall_forall in Hch. apply Hch. exact Hc. }
    destruct (is_logic M e).
    - rewrite fold_insert_msgs by (intros c t' Hi; apply Hc; exact Hi).
      rewrite rt_insert_msgs by exact Hne. rewrite app_assoc. reflexivity.
    - destruct (is_group M e).
      + apply fold_insert_msgs. intros c t' Hi. apply Hc. exact Hi.
      + destruct kind as [|[|kk]].
        * destruct (has_message F (e_code e)); [apply rt_insert_msgs; exact Hne|rewrite app_nil_r; reflexivity].
        * apply rt_insert_msgs. exact Hne.
        * apply rt_insert_msgs. exact Hne.
  Qed.

  Theorem add_error_msgs e t q :
    e_dp e <> [] ->
    rt_msgs q (add_error F t e) =
    rt_msgs q t ++ msgs_at (S (err_depth e)) 0 None (rewrite F (S (err_depth e)) 0 e) q.
  Proof. intro Hne. unfold add_error. apply insert_msgs. apply rewrite_paths_ok. exact Hne. Qed.

  (* the list found at ANY path of the errors property is, in order, what the recorded errors (after the path
     rewriting of their children) place there -- nothing else, nothing missing *)
  Theorem render_msgs : forall errs q, Forall (fun e => e_dp e <> []) errs ->
    rt_msgs q (fst (render F errs)) =
    flat_map (fun e => msgs_at (S (err_depth e)) 0 None (rewrite F (S (err_depth e)) 0 e) q) errs.
  Proof.
    intros errs q H. unfold render. cbn [fst].
    rewrite <- (app_nil_l (flat_map _ errs)). rewrite <- (rt_msgs_empty q). generalize rt_empty.
    induction H as [|e errs He _ IH]; intro t; cbn [fold_left flat_map]; [rewrite app_nil_r; reflexivity|].
    rewrite IH. rewrite add_error_msgs by exact He. rewrite app_assoc. reflexivity.
  Qed.


  (* a non-group error with a message template is rendered as one message in the list at exactly its document path *)
  Theorem leaf_error_placed e t :
    is_logic (f_masks F) e = false -> is_group (f_masks F) e = false -> has_message F (e_code e) = true ->
    e_dp e <> [] ->
    rt_msgs (e_dp e) (add_error F t e) = rt_msgs (e_dp e) t ++ [mk_msg (last_key (e_dp e)) e] /\
    (forall q, q <> e_dp e -> rt_msgs q (add_error F t e) = rt_msgs q t).
  Proof.
    intros Hl Hg Hm Hne. unfold add_error.
    cbn [rewrite]. rewrite Hl, Hg. cbn [insert_err]. rewrite Hl, Hg, Hm.
    split; [apply rt_insert_msgs_same; exact Hne|intros q Hq; apply rt_insert_msgs_other; exact Hq].
  Qed.
End Placement.

(** * Shape: the errors property is a fold of single insertions, and the dict below ANY path holds exactly the
      next path elements of the insertions that pass through it *)
Fixpoint rt_sub (p : path) (t : rtree) {struct p} : rtree :=
  match p with
  | [] => t
  | k :: p' => rt_sub p' (snd (es_get_d k (rt_entries t)))
  end.

Definition ins1 (t : rtree) (pm : path * msg) : rtree := rt_insert (fst pm) (snd pm) t.

Lemma ins1_pair t p m : ins1 t (p, m) = rt_insert p m t.
Proof. reflexivity. Qed.

Lemma rt_sub_insert_below : forall p k q m t,
  rt_sub p (rt_insert (p ++ k :: q) m t) = rt_insert (k :: q) m (rt_sub p t).
Proof.
  induction p as [|k0 p IH]; intros k q m [es]; [reflexivity|].
  cbn [app]. destruct (p ++ k :: q) as [|k2 r] eqn:E; [destruct p; discriminate|].
  rewrite rt_insert_cons2. cbn [rt_sub rt_entries]. rewrite es_get_d_update_same. cbn [snd].
  rewrite <- E. apply IH.
Qed.

Lemma rt_sub_insert_aside : forall p r m t,
  (forall k q, r <> p ++ k :: q) -> rt_sub p (rt_insert r m t) = rt_sub p t.
Proof.
  induction p as [|k0 p IH]; intros r m [es] Hn.
  - destruct r as [|k r]; [reflexivity|]. exfalso. apply (Hn k r). reflexivity.
  - destruct r as [|k2 r']; [reflexivity|].
    destruct (key_eqb k0 k2) eqn:E.
    + apply key_eqb_eq in E. subst k2.
      destruct r' as [|k3 r''].
      * rewrite rt_insert_single. cbn [rt_sub rt_entries]. rewrite es_get_d_update_same. reflexivity.
      * rewrite rt_insert_cons2. cbn [rt_sub rt_entries]. rewrite es_get_d_update_same. cbn [snd].
        apply IH. intros k q Hc. apply (Hn k q). cbn [app]. rewrite Hc. reflexivity.
    + apply key_eqb_neq in E.
      destruct r' as [|k3 r'']; [rewrite rt_insert_single|rewrite rt_insert_cons2]; cbn [rt_sub rt_entries];
        rewrite es_get_d_update_other by exact E; reflexivity.
Qed.

Lemma strictly_below_dec (p r : path) : {kq : key * path | r = p ++ fst kq :: snd kq} + {forall k q, r <> p ++ k :: q}.
Proof.
  revert r. induction p as [|k0 p IH]; intro r.
  - destruct r as [|k r]; [right; intros k q; discriminate|left; exists (k, r); reflexivity].
  - destruct r as [|k2 r']; [right; intros k q; discriminate|].
    destruct (key_dec k0 k2) as [<-|Hne].
    + destruct (IH r') as [[[k q] H]|H].
      * left. exists (k, q). cbn [fst snd app] in *. rewrite H. reflexivity.
      * right. intros k q Hc. cbn [app] in Hc. injection Hc as Hc. exact (H k q Hc).
    + right. intros k q Hc. cbn [app] in Hc. injection Hc as Hk _. exact (Hne (eq_sym Hk)).
Qed.

(* the keys of the dict below p after a sequence of insertions *)
Theorem fold_insert_sub_keys : forall (l : list (path * msg)) p t k,
  In k (rt_keys (rt_sub p (fold_left ins1 l t))) <->
  In k (rt_keys (rt_sub p t)) \/ exists q m, In (p ++ k :: q, m) l.
Proof.
  induction l as [|[r m] l IH]; intros p t k; cbn [fold_left].
  - split; [intro H; left; exact H|intros [H|[q [m [] ]]]; exact H].
  - rewrite IH. rewrite ins1_pair.
    destruct (strictly_below_dec p r) as [[[k1 q1] H]|H].
    + cbn [fst snd] in H. subst r. rewrite rt_sub_insert_below, rt_insert_keys_iff. split.
      * intros [[Hi|Hk]|[q [m' Hi]]].
        -- left. exact Hi.
        -- right. subst k. exists q1, m. left. reflexivity.
        -- right. exists q, m'. right. exact Hi.
      * intros [Hi|[q [m' [Hi|Hi]]]].
        -- left. left. exact Hi.
        -- left. right. injection Hi as Hi _. apply app_inv_head in Hi. injection Hi as Hi _. symmetry. exact Hi.
        -- right. exists q, m'. exact Hi.
    + rewrite rt_sub_insert_aside by exact H. split.
      * intros [Hi|[q [m' Hi]]]; [left; exact Hi|right; exists q, m'; right; exact Hi].
      * intros [Hi|[q [m' [Hi|Hi]]]]; [left; exact Hi| |right; exists q, m'; exact Hi].
        injection Hi as Hi _. exfalso. exact (H k q Hi).
Qed.

Section Shape.
  Variable F : facts.
  Local Notation M := (f_masks F).

  (* the (path, message) pairs the insertion of e makes, in order -- by the recursion of insert_err *)
  Fixpoint ins_list (fuel : nat) (kind : nat) (pf : option key) (e : error) : list (path * msg) :=
    match fuel with
    | O => []
    | S f =>
        if is_logic M e then
          (e_dp e, mk_msg (last_key (e_dp e)) e) :: flat_map (ins_list f 2 (last_key (e_dp e))) (child_errors M e)
        else if is_group M e then flat_map (ins_list f 1 None) (child_errors M e)
        else match kind with
             | O => if has_message F (e_code e) then [(e_dp e, mk_msg (last_key (e_dp e)) e)] else []
             | 1%nat => [(e_dp e, mk_msg (last_key (e_dp e)) e)]
             | _ => [(e_dp e, mk_msg pf e)]
             end
    end.

  Lemma fold_ins1_app l1 l2 t : fold_left ins1 (l1 ++ l2) t = fold_left ins1 l2 (fold_left ins1 l1 t).
  Proof. apply fold_left_app. Qed.

  Lemma insert_err_is_fold : forall fuel kind pf e t,
    insert_err F fuel kind pf e t = fold_left ins1 (ins_list fuel kind pf e) t.
  Proof.
    induction fuel as [|f IH]; intros kind pf e t; [reflexivity|].
    cbn [insert_err ins_list].
    assert (G : forall kind' pf' cs t', fold_left (fun t0 c => insert_err F f kind' pf' c t0) cs t' =
                                        fold_left ins1 (flat_map (ins_list f kind' pf') cs) t').
    { intros kind' pf' cs. induction cs as [|c cs IHc]; intro t'; cbn [fold_left flat_map]; [reflexivity|].
      rewrite fold_ins1_app, IHc, IH. reflexivity. }
    destruct (is_logic M e); [cbn [fold_left]; rewrite ins1_pair; apply G|].
    destruct (is_group M e); [apply G|].
    destruct kind as [|[|kk]]; [destruct (has_message F (e_code e))| |]; reflexivity.
  Qed.

  Definition all_insertions (errs : list error) : list (path * msg) :=
    flat_map (fun e => ins_list (S (err_depth e)) 0 None (rewrite F (S (err_depth e)) 0 e)) errs.

  (* the errors property is the fold of single insertions over the flattened (path, message) list *)
  Theorem render_is_fold errs : fst (render F errs) = fold_left ins1 (all_insertions errs) rt_empty.
  Proof.
    unfold render, all_insertions. cbn [fst]. generalize rt_empty.
    induction errs as [|e errs IH]; intro t; cbn [fold_left flat_map]; [reflexivity|].
    rewrite fold_ins1_app, IH. unfold add_error. rewrite insert_err_is_fold. reflexivity.
  Qed.

  Lemma rt_sub_empty p : rt_sub p rt_empty = rt_empty.
  Proof. induction p as [|k p IH]; [reflexivity|]. cbn [rt_sub]. exact IH. Qed.

  (* nothing else is in the tree: the dict below ANY path p (the top level for p = []) has exactly the keys k for
     which some insertion goes to p ++ k :: q *)
  Theorem render_sub_keys errs p k :
    In k (rt_keys (rt_sub p (fst (render F errs)))) <-> exists q m, In (p ++ k :: q, m) (all_insertions errs).
  Proof.
    rewrite render_is_fold, fold_insert_sub_keys, rt_sub_empty. change (rt_keys rt_empty) with (@nil key). cbn [In].
    split; [intros [[]|H]; exact H|intro H; right; exact H].
  Qed.
End Shape.
