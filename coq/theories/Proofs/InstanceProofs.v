(* InstanceProofs.v -- C07: when every per-call attribute an entry point reads is among those it resets
   first, the outcome of a call does not depend on the attributes left behind by ANY earlier history. *)
From Coq Require Import List String Bool.
From Cerb Require Import Values Facts Instance.
Import ListNotations.
Open Scope string_scope.
Open Scope list_scope.

Section InstanceProofs.
  Variable V Cfg Call Out : Type.
  Variable fresh_value : string -> Call -> V.
  Variable resets_of reads_of : Call -> list string.

  Notation aget := (aget V).
  Notation aset := (aset V).

  Lemma aget_aset_same n v a : aget (aset n v a) n = Some v.
  Proof.
    unfold Instance.aget. induction a as [|[n' v'] r IH]; simpl.
    - rewrite String.eqb_refl. reflexivity.
    - destruct (String.eqb n n') eqn:E; simpl.
      + apply String.eqb_eq in E. subst. rewrite String.eqb_refl. reflexivity.
      + rewrite String.eqb_sym, E. exact IH.
  Qed.

  Lemma aget_aset_other n m v a : String.eqb m n = false -> aget (aset n v a) m = aget a m.
  Proof.
    intro H. unfold Instance.aget. induction a as [|[n' v'] r IH]; simpl.
    - rewrite String.eqb_sym, H. reflexivity.
    - destruct (String.eqb n n') eqn:E; simpl.
      + apply String.eqb_eq in E. subst. rewrite String.eqb_sym, H. reflexivity.
      + destruct (String.eqb n' m); [reflexivity|exact IH].
  Qed.

  (* after the resets, a reset attribute holds its fresh value whatever was there before *)
  Lemma apply_resets_get_gen c : forall names a m,
    existsb (String.eqb m) names = true \/ aget a m = Some (fresh_value m c) ->
    aget (fold_left (fun a n => aset n (fresh_value n c) a) names a) m = Some (fresh_value m c).
  Proof.
    induction names as [|n names IH]; intros a m H.
    - destruct H as [H|H]; [discriminate|exact H].
    - cbn [fold_left]. apply IH.
      destruct (String.eqb m n) eqn:E.
      + apply String.eqb_eq in E. subst. right. apply aget_aset_same.
      + destruct H as [H|H].
        * cbn [existsb] in H. rewrite E in H. left. exact H.
        * right. rewrite aget_aset_other by exact E. exact H.
  Qed.

  Lemma apply_resets_get c names a m :
    existsb (String.eqb m) names = true ->
    aget (fold_left (fun a n => aset n (fresh_value n c) a) names a) m = Some (fresh_value m c).
  Proof. intro H. apply apply_resets_get_gen. left. exact H. Qed.

  Variable process' : Cfg -> Call -> list (option V) -> attrs V * Out.

  Lemma observe_after_reset c a1 a2 :
    covers (resets_of c) (reads_of c) = true ->
    observe V (reads_of c) (apply_resets V Call fresh_value resets_of c a1) =
    observe V (reads_of c) (apply_resets V Call fresh_value resets_of c a2).
  Proof.
    intro Hcov. unfold observe. apply map_ext_in. intros m Hm.
    assert (Hr : existsb (String.eqb m) (resets_of c) = true).
    { unfold covers in Hcov. rewrite forallb_forall in Hcov. apply Hcov. exact Hm. }
    unfold apply_resets. rewrite !apply_resets_get by exact Hr. reflexivity.
  Qed.

  (* the outcome of a call is the same from ANY two attribute states, in particular after any history and on a fresh instance *)
  Theorem reset_makes_history_irrelevant cfg c a1 a2 :
    covers (resets_of c) (reads_of c) = true ->
    snd (step V Cfg Call Out fresh_value resets_of reads_of process' cfg a1 c) =
    snd (step V Cfg Call Out fresh_value resets_of reads_of process' cfg a2 c).
  Proof.
    intro Hcov. unfold step. rewrite (observe_after_reset c a1 a2 Hcov).
    destruct (process' cfg c _) as [upd out]. reflexivity.
  Qed.

  Corollary history_independent cfg (h : list Call) (probe : Call) (a0 : attrs V) :
    covers (resets_of probe) (reads_of probe) = true ->
    snd (step V Cfg Call Out fresh_value resets_of reads_of process' cfg
              (run V Cfg Call Out fresh_value resets_of reads_of process' cfg a0 h) probe) =
    snd (step V Cfg Call Out fresh_value resets_of reads_of process' cfg a0 probe).
  Proof. intro H. apply reset_makes_history_irrelevant. exact H. Qed.
End InstanceProofs.
