(* LfpProofs.v -- C17, the characterisation: for dependency-graph setters the default-setter work-list computes the
   LEAST FIXPOINT, whatever the order of the pending fields.

   Setting (generic in the state): every pending field f has the fields it reads, [deps f], and whether its setter
   succeeds once its inputs are there, [ok f].  Calling the setter of f in a state st
     - re-queues (KeyError)            when some input is absent            (ready st f = false),
     - sets f                          when all inputs are there and ok f,
     - files an error for f only       when all inputs are there and not ok f.
   [obtain] is the least set containing the keys present at the start and closed under "f is pending, ok f, and all
   of deps f are obtainable".  Theorem wl_least_fixpoint: the run returns, the keys present at the end are EXACTLY
   the obtainable ones, and the fields carrying a 'default cannot be set' error are EXACTLY the pending fields that
   are not (ok and all inputs obtainable) -- i.e. the failing setters whose inputs were there, and every field on or
   behind a cycle, a failing setter or a missing key.  Nothing in the statement mentions the order of [pending0].

   [seen] holds the pending lists themselves, as the code does (fact token state:tuple, obligation ok_worklist). *)
From Coq Require Import List Bool Arith Lia Permutation.
From Cerb Require Import Values Worklist WorklistProofs.
Import ListNotations.
Open Scope list_scope.

(** rotations *)
Lemma rot_rotn j : forall l, rot (rotn j l) = rotn j (rot l).
Proof. induction j as [|j IH]; intro l; [reflexivity|]. cbn [rotn]. apply IH. Qed.

Lemma rotn_S j l : rotn (S j) l = rot (rotn j l).
Proof. cbn [rotn]. symmetry. apply rot_rotn. Qed.

Lemma rotn_length j : forall l, length (rotn j l) = length l.
Proof. induction j as [|j IH]; intro l; [reflexivity|]. cbn [rotn]. rewrite IH. apply rot_length. Qed.

Lemma rot_perm l : Permutation l (rot l).
Proof. destruct l as [|x r]; [constructor|]. cbn [rot]. apply Permutation_cons_append. Qed.

Lemma rotn_perm j : forall l, Permutation l (rotn j l).
Proof.
  induction j as [|j IH]; intro l; [apply Permutation_refl|]. cbn [rotn].
  eapply Permutation_trans; [apply rot_perm|apply IH].
Qed.

Lemma rotn_In j l x : In x (rotn j l) <-> In x l.
Proof. split; intro H; [eapply Permutation_in; [apply Permutation_sym, rotn_perm|exact H]|eapply Permutation_in; [apply rotn_perm|exact H]]. Qed.

Lemma rotn_NoDup j l : NoDup l -> NoDup (rotn j l).
Proof. intro H. eapply Permutation_NoDup; [apply rotn_perm|exact H]. Qed.

Lemma hd_rotn : forall j l, j < length l -> hd_error (rotn j l) = nth_error l j.
Proof.
  induction j as [|j IH]; intros l Hj.
  - destruct l; reflexivity.
  - destruct l as [|x r]; [simpl in Hj; lia|]. cbn [rotn rot]. simpl in Hj.
    rewrite IH by (rewrite app_length; simpl; lia).
    cbn [nth_error]. apply nth_error_app1. lia.
Qed.

Lemma firstn_S_In {A} (g : A) : forall j l, In g (firstn (S j) l) -> In g (firstn j l) \/ nth_error l j = Some g.
Proof.
  induction j as [|j IH]; intros l H.
  - destruct l as [|x r]; [contradiction|]. cbn in H. destruct H as [->|[]]. right. reflexivity.
  - destruct l as [|x r]; [contradiction|]. cbn [firstn] in H. destruct H as [->|H].
    + left. left. reflexivity.
    + apply IH in H as [H|H]; [left; right; exact H|right; exact H].
Qed.

(* two different rotations of a duplicate-free list, both shorter than a full turn, differ *)
Lemma rotn_distinct l i k : NoDup l -> i < k -> k < length l -> rotn k l <> rotn i l.
Proof.
  intros Hnd Hik Hk E.
  assert (H : hd_error (rotn k l) = hd_error (rotn i l)) by (rewrite E; reflexivity).
  rewrite !hd_rotn in H by lia.
  apply (proj1 (NoDup_nth_error l) Hnd) in H; lia.
Qed.

Section Lfp.
  Variable St : Type.
  Variable call : St -> key -> res (disp St).
  Variable circular : St -> list key -> res St.
  Variable dom : St -> list key.          (* the fields present in the document *)
  Variable errs : St -> list key.         (* the fields carrying a 'default cannot be set' error *)
  Variable deps : key -> list key.
  Variable ok : key -> bool.

  Definition memb (k : key) (l : list key) : bool := existsb (key_eqb k) l.
  Lemma memb_In k l : memb k l = true <-> In k l.
  Proof.
    unfold memb. rewrite existsb_exists. split.
    - intros [x [Hx E]]. apply key_eqb_eq in E. subst. exact Hx.
    - intro H. exists k. split; [exact H|apply key_eqb_refl].
  Qed.

  Definition ready (st : St) (f : key) : bool := forallb (fun d => memb d (dom st)) (deps f).
  Lemma ready_spec st f : ready st f = true <-> forall d, In d (deps f) -> In d (dom st).
  Proof.
    unfold ready. rewrite forallb_forall. split; intros H d Hd; [apply memb_In|apply memb_In]; apply H; exact Hd.
  Qed.

  Lemma ready_mono st s f : (forall k, In k (dom st) -> In k (dom s)) -> ready st f = true -> ready s f = true.
  Proof. intros Hm H. apply ready_spec. intros d Hd. apply Hm. apply (proj1 (ready_spec st f) H). exact Hd. Qed.

  Variable st0 : St.
  Variable pending0 : list key.
  Hypothesis pending_nodup : NoDup pending0.

  (* what calling a setter does (it never raises out of the loop: KeyError re-queues, anything else is filed) *)
  Hypothesis call_spec : forall st f, In f pending0 ->
    match call st f with
    | Ok (DDone s) => ready st f = true /\ ok f = true /\
                      (forall k, In k (dom s) <-> k = f \/ In k (dom st)) /\ (forall k, In k (errs s) <-> In k (errs st))
    | Ok (DFailed s) => ready st f = true /\ ok f = false /\
                        (forall k, In k (dom s) <-> In k (dom st)) /\ (forall k, In k (errs s) <-> k = f \/ In k (errs st))
    | Ok DRequeue => ready st f = false
    | _ => False
    end.
  Hypothesis call_returns : forall st f, call st f <> OutOfFuel.
  Hypothesis circular_returns : forall st l, circular st l <> OutOfFuel.
  Hypothesis circular_spec : forall st P, (forall g, In g P -> In g pending0) -> exists s,
    circular st P = Ok s /\ (forall k, In k (dom s) <-> In k (dom st)) /\ (forall k, In k (errs s) <-> In k P \/ In k (errs st)).

  Inductive obtain : key -> Prop :=
  | ob_init k : In k (dom st0) -> obtain k
  | ob_set f : In f pending0 -> ok f = true -> (forall d, In d (deps f) -> obtain d) -> obtain f.

  Definition resolvable (f : key) : Prop := ok f = true /\ forall d, In d (deps f) -> obtain d.

  Definition Post (s : St) : Prop :=
    (forall k, In k (dom s) <-> obtain k) /\
    (forall k, In k (errs s) <-> In k (errs st0) \/ (In k pending0 /\ ~ resolvable k)).

  (* the loop invariant: B is the pending list as it was after the last successful or failing call, j the number of
     consecutive re-queues since then *)
  Record Inv (st : St) (pending : list key) (seen : list (list key)) (B : list key) (j : nat) : Prop := {
    i_nodup : NoDup B;
    i_sub : forall f, In f B -> In f pending0;
    i_pending : pending = rotn j B;
    i_seen : forall l, In l seen -> length B < length l \/ exists i, i <= j /\ l = rotn i B;
    i_blocked : forall g, In g (firstn j B) -> ready st g = false;
    i_sound : forall k, In k (dom st) -> obtain k;
    i_mono : forall k, In k (dom st0) -> In k (dom st);
    i_progress : forall f, In f pending0 ->
                   In f B \/ (ok f = true /\ ready st f = true /\ In f (dom st)) \/ (~ In f B /\ ok f = false /\ ready st f = true);
    i_errs : forall k, In k (errs st) <-> In k (errs st0) \/ (In k pending0 /\ ~ In k B /\ ok k = false)
  }.

  (* when every field still pending is blocked, the state is the least fixpoint *)
  Lemma final st pending seen B j :
    Inv st pending seen B j -> (forall g, In g B -> ready st g = false) ->
    (forall k, In k (dom st) <-> obtain k) /\
    (forall k, In k pending0 -> ~ resolvable k <-> In k B \/ (~ In k B /\ ok k = false)).
  Proof.
    intros I Hb.
    assert (Hcomplete : forall k, obtain k -> In k (dom st)).
    { induction 1 as [k Hk|f Hf Hok Hd IH].
      - apply (i_mono _ _ _ _ _ I). exact Hk.
      - assert (Hr : ready st f = true) by (apply ready_spec; exact IH).
        destruct (i_progress _ _ _ _ _ I f Hf) as [HB|[[_ [_ Hin]]|[_ [Hno _]]]].
        + rewrite (Hb f HB) in Hr. discriminate.
        + exact Hin.
        + congruence. }
    split.
    - intro k. split; [apply (i_sound _ _ _ _ _ I)|apply Hcomplete].
    - intros k Hk. split.
      + intro Hnr. destruct (i_progress _ _ _ _ _ I k Hk) as [HB|[[Hok [Hr _]]|[HnB [Hno _]]]].
        * left. exact HB.
        * exfalso. apply Hnr. split; [exact Hok|]. intros d Hd. apply (i_sound _ _ _ _ _ I).
          apply (proj1 (ready_spec st k) Hr). exact Hd.
        * right. split; assumption.
      + intros [HB|[_ Hno]] [Hok Hd].
        * assert (Hr : ready st k = true) by (apply ready_spec; intros d Hdd; apply Hcomplete; apply Hd; exact Hdd).
          rewrite (Hb k HB) in Hr. discriminate.
        * congruence.
  Qed.

  Notation loop := (wl_loop St call circular).

  Lemma in_seen_false (pending1 : list key) seen :
    (forall l, In l seen -> length pending1 < length l) -> existsb (path_eqb pending1) seen = false.
  Proof.
    intro H. destruct (existsb (path_eqb pending1) seen) eqn:E; [|reflexivity].
    apply existsb_exists in E as [l [Hl E]]. apply path_eqb_eq in E. subst l. specialize (H _ Hl). lia.
  Qed.

  Lemma loop_lfp : forall fuel st pending seen B j,
    Inv st pending seen B j -> loop fuel st pending seen <> OutOfFuel ->
    exists s, loop fuel st pending seen = Ok s /\ Post s.
  Proof.
    induction fuel as [|fuel IH]; intros st pending seen B j I Hfuel.
    - (* no fuel: only the empty list returns *)
      destruct pending as [|f rest]; [|exfalso; apply Hfuel; reflexivity].
      exists st. split; [reflexivity|].
      assert (HB : B = []).
      { pose proof (i_pending _ _ _ _ _ I) as Hp. apply (f_equal (@length key)) in Hp. rewrite rotn_length in Hp.
        destruct B; [reflexivity|discriminate]. }
      subst B. destruct (final _ _ _ _ _ I) as [Hdom Hres]; [intros g []|].
      split; [exact Hdom|]. intro k. rewrite (i_errs _ _ _ _ _ I k). split.
      + intros [H|[Hk [HnB Hno]]]; [left; exact H|right]. split; [exact Hk|]. apply (Hres k Hk). right. split; assumption.
      + intros [H|[Hk Hnr]]; [left; exact H|right]. apply (Hres k Hk) in Hnr as [[]|[HnB Hno]]. repeat split; assumption.
    - destruct pending as [|f rest].
      + (* nothing pending *)
        exists st. split; [destruct fuel; reflexivity|].
        assert (HB : B = []).
        { pose proof (i_pending _ _ _ _ _ I) as Hp. apply (f_equal (@length key)) in Hp. rewrite rotn_length in Hp.
          destruct B; [reflexivity|discriminate]. }
        subst B. destruct (final _ _ _ _ _ I) as [Hdom Hres]; [intros g []|].
        split; [exact Hdom|]. intro k. rewrite (i_errs _ _ _ _ _ I k). split.
        * intros [H|[Hk [HnB Hno]]]; [left; exact H|right]. split; [exact Hk|]. apply (Hres k Hk). right. split; assumption.
        * intros [H|[Hk Hnr]]; [left; exact H|right]. apply (Hres k Hk) in Hnr as [[]|[HnB Hno]]. repeat split; assumption.
      + (* one iteration *)
        pose proof (i_pending _ _ _ _ _ I) as Hp.
        assert (HfB : In f B) by (apply (rotn_In j); rewrite <- Hp; left; reflexivity).
        assert (Hf0 : In f pending0) by (apply (i_sub _ _ _ _ _ I); exact HfB).
        assert (Hlen : length B = S (length rest)).
        { apply (f_equal (@length key)) in Hp. rewrite rotn_length in Hp. simpl in Hp. lia. }
        assert (Hnd : NoDup (f :: rest)) by (rewrite Hp; apply rotn_NoDup; apply (i_nodup _ _ _ _ _ I)).
        assert (HBset : forall k, In k B <-> k = f \/ In k rest).
        { intro k. rewrite <- (rotn_In j B k), <- Hp. simpl. split; intros [H|H]; auto. }
        cbn [wl_loop] in *. pose proof (call_spec st f Hf0) as Hc.
        destruct (call st f) as [d|e site|] eqn:Ecall; [|contradiction|contradiction]. cbn [bind] in *.
        (* a call that removes f from the list: the new base is [rest], no list seen so far is that short *)
        assert (Hremoved : forall s, (forall k, In k (dom st) -> In k (dom s)) ->
                  (forall k, In k (dom s) -> obtain k) ->
                  ((ok f = true /\ ready s f = true /\ In f (dom s)) \/ (ok f = false /\ ready s f = true)) ->
                  (forall k, In k (errs s) <-> (ok f = false /\ k = f) \/ In k (errs st)) ->
                  (if existsb (path_eqb rest) seen then circular s rest else loop fuel s rest (rest :: seen)) <> OutOfFuel ->
                  exists s', (if existsb (path_eqb rest) seen then circular s rest else loop fuel s rest (rest :: seen)) = Ok s' /\ Post s').
        { intros s Hmono Hsound Hf Herrs Hfuel'.
          assert (Hns : existsb (path_eqb rest) seen = false).
          { apply in_seen_false. intros l Hl. destruct (i_seen _ _ _ _ _ I l Hl) as [H|[i [_ ->]]]; [lia|rewrite rotn_length; lia]. }
          rewrite Hns in *. apply (IH s rest (rest :: seen) rest 0); [|exact Hfuel'].
          constructor.
          - inversion Hnd; assumption.
          - intros g Hg. apply (i_sub _ _ _ _ _ I). apply HBset. right. exact Hg.
          - reflexivity.
          - intros l [<-|Hl]; [right; exists 0; split; [lia|reflexivity]|left].
            destruct (i_seen _ _ _ _ _ I l Hl) as [H|[i [_ ->]]]; [lia|rewrite rotn_length; lia].
          - intros g [].
          - exact Hsound.
          - intros k Hk. apply Hmono. apply (i_mono _ _ _ _ _ I). exact Hk.
          - intros g Hg. destruct (key_eq_dec g f) as [->|Hne].
            + destruct Hf as [[H1 [H2 H3]]|[H1 H2]]; [right; left; repeat split; assumption|right; right].
              repeat split; try assumption. inversion Hnd; assumption.
            + destruct (i_progress _ _ _ _ _ I g Hg) as [HB|[[H1 [H2 H3]]|[H1 [H2 H3]]]].
              * left. apply HBset in HB as [->|HB]; [contradiction|exact HB].
              * right. left. repeat split; [exact H1|apply (ready_mono st); assumption|apply Hmono; exact H3].
              * right. right. repeat split; [|exact H2|apply (ready_mono st); assumption].
                intro Hr. apply H1. apply HBset. right. exact Hr.
          - intro k. rewrite Herrs, (i_errs _ _ _ _ _ I k). split.
            + intros [[Hno ->]|[H|[Hk [HnB Hno]]]].
              * right. repeat split; [exact Hf0|inversion Hnd; assumption|exact Hno].
              * left. exact H.
              * right. repeat split; [exact Hk| |exact Hno]. intro Hr. apply HnB. apply HBset. right. exact Hr.
            + intros [H|[Hk [Hnr Hno]]]; [right; left; exact H|].
              destruct (key_eq_dec k f) as [->|Hne]; [left; split; [exact Hno|reflexivity]|].
              right. right. repeat split; [exact Hk| |exact Hno]. intro HB. apply HBset in HB as [->|HB]; contradiction. }
        destruct d as [s| |s].
        * (* the setter set the field *)
          destruct Hc as [Hr [Hok [Hdom Herr]]]. apply Hremoved; [| | | |exact Hfuel].
          -- intros k Hk. apply Hdom. right. exact Hk.
          -- intros k Hk. apply Hdom in Hk as [->|Hk]; [|apply (i_sound _ _ _ _ _ I); exact Hk].
             apply ob_set; [exact Hf0|exact Hok|]. intros d0 Hd0. apply (i_sound _ _ _ _ _ I).
             apply (proj1 (ready_spec st f) Hr). exact Hd0.
          -- left. repeat split; [exact Hok| |apply Hdom; left; reflexivity].
             apply (ready_mono st); [|exact Hr]. intros k Hk. apply Hdom. right. exact Hk.
          -- intro k. rewrite Herr. split; [intro H; right; exact H|intros [[Hno _]|H]; [congruence|exact H]].
        * (* KeyError: re-queued, state unchanged *)
          assert (Hrot : rest ++ [f] = rotn (S j) B) by (rewrite rotn_S, <- Hp; reflexivity).
          assert (Hblocked : forall g, In g (firstn (S j) B) -> ready st g = false).
          { intros g Hg. apply firstn_S_In in Hg as [Hg|Hg]; [apply (i_blocked _ _ _ _ _ I); exact Hg|].
            assert (Hj : j < length B) by (apply nth_error_Some; rewrite Hg; discriminate).
            rewrite <- (hd_rotn j B Hj), <- Hp in Hg. cbn in Hg. injection Hg as <-. exact Hc. }
          destruct (existsb (path_eqb (rest ++ [f])) seen) eqn:Eseen.
          -- (* the list was seen before: every pending field is blocked in this state *)
             apply existsb_exists in Eseen as [l [Hl El]]. apply path_eqb_eq in El. subst l.
             assert (Hall : forall g, In g B -> ready st g = false).
             { destruct (i_seen _ _ _ _ _ I _ Hl) as [H|[i [Hi Ei]]]; [rewrite app_length in H; simpl in H; lia|].
               destruct (Nat.lt_ge_cases (S j) (length B)) as [Hlt|Hge].
               - exfalso. rewrite Hrot in Ei. revert Ei. apply rotn_distinct; [apply (i_nodup _ _ _ _ _ I)|lia|exact Hlt].
               - intros g Hg. apply Hblocked. rewrite firstn_all2 by exact Hge. exact Hg. }
             destruct (circular_spec st (rest ++ [f])) as [s [Es [Hdom Herr]]].
             { intros g Hg. apply (i_sub _ _ _ _ _ I). rewrite Hrot in Hg. apply rotn_In in Hg. exact Hg. }
             exists s. split; [exact Es|].
             destruct (final _ _ _ _ _ I Hall) as [Hfd Hres].
             split.
             ++ intro k. rewrite Hdom. apply Hfd.
             ++ intro k. rewrite Herr, (i_errs _ _ _ _ _ I k).
                assert (HP : In k (rest ++ [f]) <-> In k B).
                { rewrite Hrot. apply rotn_In. }
                rewrite HP. split.
                ** intros [HB|[H|[Hk [HnB Hno]]]].
                   --- right. split; [apply (i_sub _ _ _ _ _ I); exact HB|]. apply Hres; [apply (i_sub _ _ _ _ _ I); exact HB|left; exact HB].
                   --- left. exact H.
                   --- right. split; [exact Hk|]. apply (Hres k Hk). right. split; assumption.
                ** intros [H|[Hk Hnr]]; [right; left; exact H|]. apply (Hres k Hk) in Hnr as [HB|[HnB Hno]]; [left; exact HB|].
                   right. right. repeat split; assumption.
          -- apply (IH st (rest ++ [f]) ((rest ++ [f]) :: seen) B (S j)); [|exact Hfuel].
             constructor.
             ++ apply (i_nodup _ _ _ _ _ I).
             ++ apply (i_sub _ _ _ _ _ I).
             ++ exact Hrot.
             ++ intros l [<-|Hl]; [right; exists (S j); split; [lia|exact Hrot]|].
                destruct (i_seen _ _ _ _ _ I l Hl) as [H|[i [Hi ->]]]; [left; exact H|right; exists i; split; [lia|reflexivity]].
             ++ exact Hblocked.
             ++ apply (i_sound _ _ _ _ _ I).
             ++ apply (i_mono _ _ _ _ _ I).
             ++ apply (i_progress _ _ _ _ _ I).
             ++ apply (i_errs _ _ _ _ _ I).
        * (* another exception: an error for f only, f is not re-queued *)
          destruct Hc as [Hr [Hno [Hdom Herr]]]. apply Hremoved; [| | | |exact Hfuel].
          -- intros k Hk. apply Hdom. exact Hk.
          -- intros k Hk. apply Hdom in Hk. apply (i_sound _ _ _ _ _ I). exact Hk.
          -- right. split; [exact Hno|]. apply (ready_mono st); [|exact Hr]. intros k Hk. apply Hdom. exact Hk.
          -- intro k. rewrite Herr. split; [intros [->|H]; [left; split; [exact Hno|reflexivity]|right; exact H]|intros [[_ ->]|H]; [left; reflexivity|right; exact H]].
  Qed.

  Theorem wl_least_fixpoint :
    exists s, wl_run St call circular st0 pending0 = Ok s /\ Post s.
  Proof.
    unfold wl_run. apply (loop_lfp _ st0 pending0 [] pending0 0).
    - constructor.
      + exact pending_nodup.
      + intros f H. exact H.
      + reflexivity.
      + intros l [].
      + intros g [].
      + intros k Hk. apply ob_init. exact Hk.
      + intros k Hk. exact Hk.
      + intros f Hf. left. exact Hf.
      + intro k. split; [intro H; left; exact H|intros [H|[Hk [H _]]]; [exact H|]].
        exfalso. apply H. exact Hk.
    - apply wl_run_terminates.
      + exact call_returns.
      + exact circular_returns.
  Qed.
End Lfp.

(* the characterisation does not depend on the ORDER of the pending fields: [obtain] only asks membership *)
Lemma obtain_ext St dom deps ok (st0 : St) p p' :
  (forall f, In f p <-> In f p') -> forall k, obtain St dom deps ok st0 p k -> obtain St dom deps ok st0 p' k.
Proof.
  intros Hp k H. induction H as [k Hk|f Hf Hok Hd IH].
  - apply ob_init. exact Hk.
  - apply ob_set; [apply Hp; exact Hf|exact Hok|exact IH].
Qed.
