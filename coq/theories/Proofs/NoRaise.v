(* NoRaise.v -- C03 (value-shape part): the leaf rule handlers of the validation model return normally
   for EVERY value shape, whenever the constraint has the shape the rule's constraint schema demands and
   filing an error for the field succeeds.  The primitives of PyOps carry Python's error cases (len of a
   non-sized value, hashing an unhashable member, `in` on a non-container ...), so an unguarded use in a
   handler makes the corresponding lemma false. *)
From Coq Require Import List ZArith String Bool Arith Lia.
From Cerb Require Import Values PyOps Regex Errors Tree Facts Pool Validate.
Import ListNotations.
Open Scope string_scope.
Open Scope list_scope.

Definition not_raise {A} (r : res A) : Prop := match r with Raise _ _ => False | _ => True end.

Section Leaf.
  Variable F : facts.
  Variable x : ctx.
  Variable field : key.
  (* filing any error for this field succeeds (established from the schema by file_error_ok below) *)
  Hypothesis files : forall st d info ch, exists st', file_error F x st field d info ch = Ok st'.

  Ltac file d :=
    match goal with
    | |- context [file_error F x ?st field d ?info ?ch] =>
        let st' := fresh "st'" in let E := fresh "E" in
        destruct (files st d info ch) as [st' E]; rewrite E; cbn [bind]
    end.

  Lemma plain_ok st : not_raise (plain st).
  Proof. exact I. Qed.

  Lemma nullable_total st c v : not_raise (h_nullable F x st c field v).
  Proof.
    unfold h_nullable. destruct (is_none v); [|exact I].
    destruct (truthy c); cbn [bind]; [exact I|]. file "NOT_NULLABLE". exact I.
  Qed.

  Lemma readonly_total st c v : not_raise (h_readonly F x st c field v).
  Proof.
    unfold h_readonly. destruct (truthy c); [|exact I].
    destruct (c_is_normalized (x_cfg x)); cbn [bind]; [exact I|]. file "READONLY_FIELD". exact I.
  Qed.

  Lemma empty_total st c v : not_raise (h_empty F x st c field v).
  Proof.
    unfold h_empty. destruct (py_len v) as [[|n]|]; try exact I.
    destruct (truthy c); cbn [bind]; [exact I|]. file "EMPTY_NOT_ALLOWED". exact I.
  Qed.

  Lemma max_total st c v : not_raise (h_max F x st c field v).
  Proof.
    unfold h_max. destruct (py_gt v c) as [[|]|]; try exact I. file "MAX_VALUE". exact I.
  Qed.

  Lemma min_total st c v : not_raise (h_min F x st c field v).
  Proof.
    unfold h_min. destruct (py_lt v c) as [[|]|]; try exact I. file "MIN_VALUE". exact I.
  Qed.

  (* type: the constraint is a type name or a list of type names, all in the types table *)
  Definition known_type (t : value) : Prop :=
    match t with
    | VStr n => exists td, find (fun td => String.eqb (td_name td) n) (f_types F) = Some td
    | _ => False
    end.

  Lemma any_type_total v ts : Forall known_type ts -> exists b, any_type_matches F v ts = Ok b.
  Proof.
    induction 1 as [|t ts Ht _ IH]; [exists false; reflexivity|].
    destruct t; try contradiction. destruct Ht as [td Htd].
    cbn [any_type_matches]. unfold type_matches. rewrite Htd. cbn [bind].
    destruct (existsb (is_instance v) (td_incl td) && negb (existsb (is_instance v) (td_excl td))).
    - exists true. reflexivity.
    - exact IH.
  Qed.

  Lemma type_total st c v :
    (known_type c \/ exists l, c = VList l /\ Forall known_type l) -> not_raise (h_type F x st c field v).
  Proof.
    intro H. unfold h_type. destruct (negb (truthy c)); [exact I|].
    assert (Hts : exists ts, (match c with VStr _ => Ok [c] | VList l => Ok l | _ => Raise TypeError "_validate_type" end) = Ok ts
                             /\ Forall known_type ts).
    { destruct H as [H|[l [-> H]]].
      - destruct c; try contradiction. eexists. split; [reflexivity|]. constructor; [exact H|constructor].
      - eexists. split; [reflexivity|exact H]. }
    destruct Hts as [ts [-> Hk]]. cbn [bind].
    destruct (any_type_total v ts Hk) as [b ->]. cbn [bind].
    destruct b; [exact I|]. file "BAD_TYPE". exact I.
  Qed.

  (* allowed / forbidden: the constraint is a list *)
  Lemma filter_not_in_total l c0 : exists r, filter_not_in l (VList c0) = Ok r.
  Proof.
    induction l as [|a l [r IH]]; [exists []; reflexivity|].
    cbn [filter_not_in py_in]. rewrite IH. cbn [bind]. eexists. reflexivity.
  Qed.

  Lemma filter_in_total l c0 : exists r, filter_in l (VList c0) = Ok r.
  Proof.
    induction l as [|a l [r IH]]; [exists []; reflexivity|].
    cbn [filter_in py_in]. rewrite IH. cbn [bind]. eexists. reflexivity.
  Qed.

  Lemma allowed0_total st c0 v : not_raise (h_allowed0 F x st (VList c0) field v).
  Proof.
    unfold h_allowed0. destruct (is_iterable v && negb (is_str v)).
    - destruct (py_iter v) as [l|]; [|exact I].
      destruct (filter_not_in_total l c0) as [r ->]. cbn [bind].
      destruct r; [exact I|]. file "UNALLOWED_VALUES". exact I.
    - cbn [py_in]. destruct (existsb (py_eq v) c0); [exact I|]. file "UNALLOWED_VALUE". exact I.
  Qed.

  Lemma allowed_total st c0 v : not_raise (h_allowed F x st (VList c0) field v).
  Proof. unfold h_allowed. cbn [allowed_members]. apply allowed0_total. Qed.

  (* a mapping of allowed values is read as the list of its keys: unhashable members of the value are fine too *)
  Lemma allowed_total_mapping st d v : not_raise (h_allowed F x st (VDict d) field v).
  Proof. unfold h_allowed. cbn [allowed_members]. apply allowed0_total. Qed.

  Lemma forbidden_total st c0 v : not_raise (h_forbidden F x st (VList c0) field v).
  Proof.
    unfold h_forbidden. destruct (is_sequence v && negb (is_str v)).
    - destruct (py_iter v) as [l|]; [|exact I].
      destruct (filter_in_total l c0) as [r ->]. cbn [bind].
      destruct r; [exact I|]. file "FORBIDDEN_VALUES". exact I.
    - cbn [py_in]. destruct (existsb (py_eq v) c0); [|exact I]. file "FORBIDDEN_VALUE". exact I.
  Qed.

  (* contains: ANY constraint and ANY value shape are fine (the expected members are compared, never hashed) *)
  Lemma contains_total st c v : not_raise (h_contains F x st c field v).
  Proof.
    unfold h_contains. destruct (py_iter v) as [present|]; [|exact I].
    assert (He : exists ex, (if negb (is_iterable c) || is_str c then Some [c] else option_map dedup (py_iter c)) = Some ex).
    { destruct c; cbn [is_iterable negb is_str orb py_iter option_map]; eexists; reflexivity. }
    destruct He as [ex ->].
    destruct (filter (fun e => negb (existsb (py_eq e) present)) ex); [exact I|].
    file "MISSING_MEMBERS". exact I.
  Qed.

  (* minlength / maxlength: the constraint is an integer *)
  Lemma maxlength_total st z v : not_raise (h_maxlength F x st (VInt z) field v).
  Proof.
    unfold h_maxlength. destruct (is_iterable v) eqn:Hi; [|exact I].
    destruct v; try discriminate; cbn [py_len py_gt py_lt num_of];
      (match goal with |- context [Z.ltb ?a ?b] => destruct (Z.ltb a b) end; [file "MAX_LENGTH"; exact I|exact I]).
  Qed.

  Lemma minlength_total st z v : not_raise (h_minlength F x st (VInt z) field v).
  Proof.
    unfold h_minlength. destruct (is_iterable v) eqn:Hi; [|exact I].
    destruct v; try discriminate; cbn [py_len py_lt num_of];
      (match goal with |- context [Z.ltb ?a ?b] => destruct (Z.ltb a b) end; [file "MIN_LENGTH"; exact I|exact I]).
  Qed.

  (* regex: the constraint is a pattern of the modelled grammar *)
  Lemma regex_total st pat v :
    (forall s, regex_fullmatch pat s <> None) -> not_raise (h_regex F x st (VStr pat) field v).
  Proof.
    intro Hp. unfold h_regex. destruct v; try exact I.
    specialize (Hp s). destruct (regex_fullmatch pat s) as [[|]|]; [exact I| |contradiction].
    file "REGEX_MISMATCH". exact I.
  Qed.

  (* dependencies: names are strings; the document may hold ANY shapes along the path *)
  Lemma lookup_parts_total : forall parts context, exists r, lookup_parts context parts = Ok r.
  Proof.
    induction parts as [|p ps IH]; intro context; [eexists; reflexivity|].
    cbn [lookup_parts]. unfold lookup_step.
    destruct context; cbn [bind]; try (eexists; reflexivity).
    destruct (assoc_get (KStr p) kvs); cbn [bind]; [apply IH|eexists; reflexivity].
  Qed.

  Lemma lookup_field_total s : exists r, lookup_field x (VStr s) = Ok r.
  Proof.
    unfold lookup_field. destruct (starts_with_caret s); apply lookup_parts_total.
  Qed.

  Definition is_vstr (v : value) : Prop := match v with VStr _ => True | _ => False end.

  Lemma deps_sequence_total : forall deps st, Forall is_vstr deps -> not_raise (deps_sequence F x st field deps).
  Proof.
    induction deps as [|d ds IH]; intros st H; [exact I|].
    inversion H as [|? ? Hd Hds]; subst. destruct d; try contradiction.
    cbn [deps_sequence]. destruct (lookup_field_total s) as [r ->]. cbn [bind].
    destruct r; cbn [bind]; [apply IH; exact Hds|].
    file "DEPENDENCIES_FIELD". apply IH. exact Hds.
  Qed.

  Lemma deps_mapping_total : forall deps okc info,
    Forall (fun kv => match fst kv with KStr _ => True | _ => False end) deps ->
    exists r, deps_mapping x deps okc info = Ok r.
  Proof.
    induction deps as [|[name vals] ds IH]; intros okc info H; [eexists; reflexivity|].
    inversion H as [|? ? Hd Hds]; subst. cbn [fst] in Hd. destruct name; try contradiction.
    cbn [deps_mapping key_to_value]. destruct (lookup_field_total s) as [r ->]. cbn [bind].
    destruct (existsb _ _); apply IH; exact Hds.
  Qed.
  Lemma dependencies_total st c v :
    (is_vstr c \/ (exists l, c = VList l /\ Forall is_vstr l) \/
     (exists d, c = VDict d /\ Forall (fun kv => match fst kv with KStr _ => True | _ => False end) d)) ->
    not_raise (h_dependencies F x st c field v).
  Proof.
    intro H. unfold h_dependencies.
    assert (Hst : exists st', (match c with
                               | VList l => deps_sequence F x st field l
                               | VDict d => do r <- deps_mapping x d O [];
                                            let '(okc, info) := r in
                                            if Nat.eqb okc (List.length d) then Ok st
                                            else file_error F x st field "DEPENDENCIES_FIELD_VALUE" [VDict info] []
                               | _ => deps_sequence F x st field [c]
                               end) = Ok st' \/
                              (match c with
                               | VList l => deps_sequence F x st field l
                               | VDict d => do r <- deps_mapping x d O [];
                                            let '(okc, info) := r in
                                            if Nat.eqb okc (List.length d) then Ok st
                                            else file_error F x st field "DEPENDENCIES_FIELD_VALUE" [VDict info] []
                               | _ => deps_sequence F x st field [c]
                               end) = OutOfFuel).
    { destruct H as [H|[[l [-> H]]|[d [-> H]]]].
      - destruct c; try contradiction.
        assert (Hs : Forall is_vstr [VStr s]) by (constructor; [exact I|constructor]).
        pose proof (deps_sequence_total [VStr s] st Hs) as T.
        destruct (deps_sequence F x st field [VStr s]); [eexists; left; reflexivity|contradiction|exists st; right; reflexivity].
      - pose proof (deps_sequence_total l st H) as T.
        destruct (deps_sequence F x st field l); [eexists; left; reflexivity|contradiction|exists st; right; reflexivity].
      - destruct (deps_mapping_total d O [] H) as [[okc info] ->]. cbn [bind].
        destruct (Nat.eqb okc (List.length d)); [eexists; left; reflexivity|].
        destruct (files st "DEPENDENCIES_FIELD_VALUE" [VDict info] []) as [st' ->]. eexists. left. reflexivity. }
    destruct Hst as [st' [-> | ->]]; cbn [bind]; exact I.
  Qed.

  Lemma file_customs_total : forall msgs st, not_raise (file_customs F x st field msgs).
  Proof.
    induction msgs as [|m ms IH]; intro st; [exact I|].
    cbn [file_customs]. file "CUSTOM". apply IH.
  Qed.

  Definition known_check (c : value) : Prop :=
    match c with VStr n | VFun n => pool_check n VNone <> None | _ => False end.

  Lemma pool_check_total n v w : pool_check n v <> None -> pool_check n w <> None.
  Proof.
    unfold pool_check.
    destruct (String.eqb n "even"); [discriminate|].
    destruct (String.eqb n "never"); [discriminate|].
    destruct (String.eqb n "always"); [discriminate|].
    destruct (String.eqb n "twice"); [discriminate|]. intro H. exact H.
  Qed.

  Lemma check_one_total st c v : known_check c -> not_raise (check_one F x st c field v).
  Proof.
    intro H. unfold check_one. destruct c; try contradiction; cbn [known_check] in H;
      (pose proof (pool_check_total _ VNone v H) as H'; destruct (pool_check _ v); [apply file_customs_total|contradiction]).
  Qed.
End Leaf.

(** filing an error succeeds when the field's rule set resolves and contains the rule of the error definition *)
Lemma file_error_ok F x st field d info ch rs0 rs r code :
  errdef F d = (code, Some r) ->
  (match assoc_get field (x_schema x) with Some v => v | None => c_allow_unknown (x_cfg x) end) = rs0 ->
  resolve_rules_set (x_cfg x) rs0 = Some rs ->
  (r = "nullable" \/ r = "required" \/ vmem r rs = true) ->
  exists st', file_error F x st field d info ch = Ok st'.
Proof.
  intros Hd Hrs0 Hres Hr. unfold file_error, mk_error. rewrite Hd.
  assert (E : (match assoc_get field (x_schema x) with
               | Some rs1 => Some rs1
               | None => Some (c_allow_unknown (x_cfg x))
               end) = Some rs0).
  { destruct (assoc_get field (x_schema x)); congruence. }
  rewrite E, Hres.
  destruct (String.eqb r "nullable") eqn:E1; [eexists; reflexivity|].
  destruct (String.eqb r "required") eqn:E2; [eexists; reflexivity|].
  destruct Hr as [->|[->|Hm]]; [discriminate|discriminate|].
  unfold vmem in Hm. destruct (vget r rs); [eexists; reflexivity|discriminate].
Qed.

Lemma file_error_norule F x st field d info ch code :
  errdef F d = (code, None) -> exists st', file_error F x st field d info ch = Ok st'.
Proof. intro Hd. unfold file_error, mk_error. rewrite Hd. eexists. reflexivity. Qed.
