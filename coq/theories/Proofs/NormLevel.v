(* NormLevel.v -- C14 on the normalization model, one whole schema level: two contexts that differ only in HOW the
   fields' rules sets are given (inline, or by names that resolve to the same rules sets) normalize every document
   alike -- same document, same errors, same exception, for every child-normalizer function, hence at every fuel. *)
From Coq Require Import List ZArith String Bool Arith Lia.
From Cerb Require Import Values PyOps Errors Tree Facts Pool Validate Worklist Normalize RefProofs RefLevel.
Import ListNotations.
Open Scope string_scope.
Open Scope list_scope.

Lemma wl_loop_ext St (call call' : St -> key -> res (disp St)) (circ circ' : St -> list key -> res St) :
  (forall st f, call' st f = call st f) -> (forall st l, circ' st l = circ st l) ->
  forall fuel st pending seen, wl_loop St call' circ' fuel st pending seen = wl_loop St call circ fuel st pending seen.
Proof.
  intros Hc Hz fuel. induction fuel as [|fuel IH]; intros st pending seen; destruct pending as [|f rest]; cbn [wl_loop]; try reflexivity.
  rewrite Hc. apply bind_ext. intro d.
  destruct d as [s0| |s0]; destruct (existsb _ _); try apply Hz; apply IH.
Qed.

Section NLevel.
  Variable F : facts.
  Variables (cfg : config) (doc : dict) (dp sp : list key) (u : bool) (s s' : dict).
  Hypothesis Hk : map fst s' = map fst s.
  Hypothesis Hr : forall f, option_map (resolve_rules_set cfg) (assoc_get f s') = option_map (resolve_rules_set cfg) (assoc_get f s).

  Local Notation X := {| x_cfg := cfg; x_schema := s; x_doc := doc; x_dp := dp; x_sp := sp; x_update := u |}.
  Local Notation X' := {| x_cfg := cfg; x_schema := s'; x_doc := doc; x_dp := dp; x_sp := sp; x_update := u |}.

  Lemma nfile_same ns f d info : nfile F X' ns f d info = nfile F X ns f d info.
  Proof. unfold nfile, with_doc. cbn [x_cfg x_schema x_dp x_sp x_update]. rewrite (fe F cfg (n_map ns) dp sp u s s' Hk Hr). reflexivity. Qed.

  Ltac nstep :=
    first
      [ reflexivity
      | rewrite nfile_same
      | apply bind_ext; intro
      | apply bind_cong; [|intro]
      | match goal with |- (match ?e with _ => _ end) = _ => destruct e eqn:? end
      | match goal with |- (if ?e then _ else _) = _ => destruct e eqn:? end ].
  Ltac ngo := repeat nstep.

  Lemma coerce_one_same ns p f v nl en : coerce_one F X' ns p f v nl en = coerce_one F X ns p f v nl en.
  Proof. unfold coerce_one. ngo. Qed.
  Lemma coerce_chain_same ns ps f v nl en : coerce_chain F X' ns ps f v nl en = coerce_chain F X ns ps f v nl en.
  Proof.
    revert ns v. induction ps as [|p ps IH]; intros ns v; cbn [coerce_chain]; [reflexivity|].
    rewrite coerce_one_same. apply bind_ext. intros [ns1 v1]. destruct (errlist_has_code _ _); [reflexivity|apply IH].
  Qed.
  Lemma do_coerce_same ns p f v nl en : do_coerce F X' ns p f v nl en = do_coerce F X ns p f v nl en.
  Proof. unfold do_coerce. destruct p; try apply coerce_one_same. apply coerce_chain_same. Qed.

  Lemma rename_handler_step_same ns rs f : rename_handler_step F X' ns rs f = rename_handler_step F X ns rs f.
  Proof.
    unfold rename_handler_step. apply bind_ext. intro has. destruct (negb has || _); [reflexivity|].
    apply bind_ext. intro h. rewrite do_coerce_same. apply bind_ext. intros [ns1 newv]. ngo.
  Qed.
  Lemma rename_step_same ns rsch f : rename_step F X' ns rsch f = rename_step F X ns rsch f.
  Proof.
    unfold rename_step. destruct (assoc_get f rsch) as [[rs|]|]; try reflexivity.
    - apply bind_ext. intro has. apply bind_ext. intro ns1. apply rename_handler_step_same.
    - destruct (unknown_rules _) eqn:Hu; [|reflexivity]. destruct (assoc_mem _ _); [apply rename_handler_step_same|reflexivity].
  Qed.
  Lemma rename_fields_same ns rsch fs : rename_fields F X' ns rsch fs = rename_fields F X ns rsch fs.
  Proof. revert ns. induction fs as [|f fs IH]; intro ns; cbn [rename_fields]; [reflexivity|]. rewrite rename_step_same. apply bind_ext. intro a. apply IH. Qed.

  Lemma readonly_check_same ns rsch : readonly_check F X' ns rsch = readonly_check F X ns rsch.
  Proof.
    revert ns. induction rsch as [|[f rs] rest IH]; intro ns; cbn [readonly_check]; [reflexivity|].
    destruct (assoc_get f (n_map ns)); [|apply IH]. apply bind_ext. intro ro. destruct (truthy ro); [|apply IH].
    unfold with_doc. cbn [x_cfg x_schema x_dp x_sp x_update].
    rewrite (readonly_same F cfg (n_map ns) dp sp u s s' Hk Hr). apply bind_ext. intro out. apply IH.
  Qed.

  Lemma setter_call_same table ns f : setter_call F X' table ns f = setter_call F X table ns f.
  Proof. unfold setter_call. apply bind_ext. intro o. destruct o; try reflexivity. rewrite nfile_same. reflexivity. Qed.
  Lemma setter_circular_same ns l : setter_circular F X' ns l = setter_circular F X ns l.
  Proof. revert ns. induction l as [|g l IH]; intro ns; cbn [setter_circular]; [reflexivity|]. rewrite nfile_same. apply bind_ext. intro a. apply IH. Qed.
  Lemma default_fields_same ns rsch : default_fields F X' ns rsch = default_fields F X ns rsch.
  Proof.
    unfold default_fields. apply bind_ext. intro ef. apply bind_ext. intro wd. apply bind_ext. intro ws.
    unfold wl_run. apply wl_loop_ext; [intros; apply setter_call_same|intros; apply setter_circular_same].
  Qed.

  Lemma coerce_fields_same ns rsch fs : coerce_fields F X' ns rsch fs = coerce_fields F X ns rsch fs.
  Proof.
    revert ns. induction fs as [|f fs IH]; intro ns; cbn [coerce_fields]; [reflexivity|].
    apply bind_ext. intro own. apply bind_cong; [|intro; apply IH].
    destruct (assoc_get f (n_map ns)); [|reflexivity]. destruct own.
    - destruct (assoc_get f rsch); [|reflexivity]. apply bind_ext. intro c. apply bind_ext. intro nl. rewrite do_coerce_same. reflexivity.
    - destruct (assoc_mem f rsch); [reflexivity|]. destruct (unknown_rules _); [|reflexivity].
      destruct (assoc_get (KStr "coerce") d); [|reflexivity]. rewrite do_coerce_same. reflexivity.
  Qed.

  Section Child.
    Variable childn : ctx -> res (dict * list error).

    Lemma keysrules_nsame ns f d pr : norm_keysrules F childn X' ns f d pr = norm_keysrules F childn X ns f d pr.
    Proof.
      unfold norm_keysrules. apply bind_ext. intros [result ces]. apply bind_ext. intro d'.
      apply bind_cong; [|intro; reflexivity].
      change (bubble F X' ns "normalize_mapping_per_keysrules" ces) with (bubble F X ns "normalize_mapping_per_keysrules" ces).
      generalize (bubble F X ns "normalize_mapping_per_keysrules" ces). clear d'.
      induction result as [|[k nk] l IH]; intro n; [reflexivity|].
      destruct (negb (py_eq (key_to_value k) nk) && negb (hashable nk)) eqn:Hc.
      - transitivity (do ns' <- nfile F X' n f "CUSTOM" [VStr "Normalized keys must be hashable."];
                      (fix rep (l0 : dict) (ns0 : nstate) {struct l0} : res nstate :=
                         match l0 with
                         | [] => Ok ns0
                         | (k0, nk0) :: l' =>
                             if negb (py_eq (key_to_value k0) nk0) && negb (hashable nk0)
                             then do ns'0 <- nfile F X' ns0 f "CUSTOM" [VStr "Normalized keys must be hashable."]; rep l' ns'0
                             else rep l' ns0
                         end) l ns').
        { cbn beta iota fix. try rewrite Hc. reflexivity. }
        rewrite nfile_same. symmetry.
        transitivity (do ns' <- nfile F X n f "CUSTOM" [VStr "Normalized keys must be hashable."];
                      (fix rep (l0 : dict) (ns0 : nstate) {struct l0} : res nstate :=
                         match l0 with
                         | [] => Ok ns0
                         | (k0, nk0) :: l' =>
                             if negb (py_eq (key_to_value k0) nk0) && negb (hashable nk0)
                             then do ns'0 <- nfile F X ns0 f "CUSTOM" [VStr "Normalized keys must be hashable."]; rep l' ns'0
                             else rep l' ns0
                         end) l ns').
        { cbn beta iota fix. try rewrite Hc. reflexivity. }
        apply bind_ext. intro a. symmetry. apply IH.
      - transitivity ((fix rep (l0 : dict) (ns0 : nstate) {struct l0} : res nstate :=
                         match l0 with
                         | [] => Ok ns0
                         | (k0, nk0) :: l' =>
                             if negb (py_eq (key_to_value k0) nk0) && negb (hashable nk0)
                             then do ns'0 <- nfile F X' ns0 f "CUSTOM" [VStr "Normalized keys must be hashable."]; rep l' ns'0
                             else rep l' ns0
                         end) l n).
        { cbn beta iota fix. try rewrite Hc. reflexivity. }
        rewrite IH. symmetry. cbn beta iota fix. try rewrite Hc. reflexivity.
    Qed.

    Lemma valuesrules_nsame ns f d vr : norm_valuesrules F childn X' ns f d vr = norm_valuesrules F childn X ns f d vr.
    Proof. reflexivity. Qed.
    Lemma mapping_schema_nsame ns f d rs : norm_mapping_schema childn X' ns f d rs = norm_mapping_schema childn X ns f d rs.
    Proof. reflexivity. Qed.
    Lemma sequence_schema_nsame ns f l sr : norm_sequence_schema F childn X' ns f l sr = norm_sequence_schema F childn X ns f l sr.
    Proof. reflexivity. Qed.
    Lemma sequence_items_nsame ns f l it : norm_sequence_items F childn X' ns f l it = norm_sequence_items F childn X ns f l it.
    Proof. reflexivity. Qed.

    Lemma containers_same ns rsch fs : containers F childn X' ns rsch fs = containers F childn X ns rsch fs.
    Proof.
      revert ns. induction fs as [|f fs IH]; intro ns; cbn [containers]; [reflexivity|].
      apply bind_cong; [|intro; apply IH].
      destruct (assoc_get f (n_map ns)) as [v|]; [|reflexivity]. apply bind_ext. intro rules.
      destruct v; try reflexivity.
      all: match goal with
           | |- context [norm_keysrules] =>
               apply bind_cong; [destruct (assoc_mem (KStr "keysrules") rules); [apply keysrules_nsame|reflexivity]|]; intro ns1;
               apply bind_ext; intro ns2; reflexivity
           | |- _ =>
               destruct (assoc_mem (KStr "schema") rules); [apply sequence_schema_nsame|];
               destruct (assoc_mem (KStr "items") rules); [apply sequence_items_nsame|reflexivity]
           end.
    Qed.

    Lemma run_step_same rsch tok ns : run_step F childn X' rsch tok ns = run_step F childn X rsch tok ns.
    Proof.
      unfold run_step. cbv zeta. cbn [x_cfg].
      repeat match goal with |- (if ?b then _ else _) = _ => destruct b end.
      all: first [ apply rename_fields_same | apply readonly_check_same | apply default_fields_same | apply coerce_fields_same
                 | apply containers_same | reflexivity | idtac "stuck"; match goal with |- ?G => idtac G end ].
    Qed.

    Lemma run_pipeline_same rsch toks ns : run_pipeline F childn X' rsch toks ns = run_pipeline F childn X rsch toks ns.
    Proof. revert ns. induction toks as [|t ts IH]; intro ns; cbn [run_pipeline]; [reflexivity|]. rewrite run_step_same. apply bind_ext. intro a. apply IH. Qed.
  End Child.
End NLevel.

Lemma same_rules_resolve_fields cfg s' s : same_rules cfg s' s -> resolve_fields cfg s' = resolve_fields cfg s.
Proof.
  unfold resolve_fields. induction 1 as [|[k' v'] [k v] l' l [Hk Hv] _ IH]; [reflexivity|]. cbn [map fst snd] in *. rewrite Hk, Hv, IH. reflexivity.
Qed.

Theorem normalize_ctx_same_rules (F : facts) : forall fuel cfg doc dp sp u s s',
  same_rules cfg s' s ->
  normalize_ctx F fuel {| x_cfg := cfg; x_schema := s'; x_doc := doc; x_dp := dp; x_sp := sp; x_update := u |} =
  normalize_ctx F fuel {| x_cfg := cfg; x_schema := s; x_doc := doc; x_dp := dp; x_sp := sp; x_update := u |}.
Proof.
  intros fuel cfg doc dp sp u s s' H. destruct fuel as [|fuel]; [reflexivity|]. cbn [normalize_ctx x_cfg x_schema x_doc].
  rewrite (same_rules_resolve_fields _ _ _ H). destruct (existsb _ _); [reflexivity|].
  rewrite (run_pipeline_same F cfg doc dp sp u s s' (same_rules_keys _ _ _ H) (same_rules_get _ _ _ H)). reflexivity.
Qed.

(** * API level: validate(document, update, normalize) and normalized(document) on a fresh validator *)
Theorem api_same_rules (F : facts) : forall fuel cfg doc u nz s s',
  same_rules cfg s' s ->
  api_validate F fuel cfg s' doc u nz = api_validate F fuel cfg s doc u nz /\
  api_normalized F fuel cfg s' doc = api_normalized F fuel cfg s doc.
Proof.
  intros fuel cfg doc u nz s s' H. split.
  - unfold api_validate, root_ctx. destruct nz.
    + rewrite (normalize_ctx_same_rules F fuel _ doc [] [] u s s' (same_rules_is_normalized cfg false _ _ H)).
      apply bind_ext. intros [doc' nerrs].
      rewrite (validate_after_same_rules F fuel _ doc' [] [] u s s' nerrs (same_rules_is_normalized cfg true _ _ H)). reflexivity.
    + rewrite (validate_ctx_same_rules F fuel _ doc [] [] u s s' (same_rules_is_normalized cfg false _ _ H)). reflexivity.
  - unfold api_normalized, root_ctx.
    rewrite (normalize_ctx_same_rules F fuel _ doc [] [] false s s' (same_rules_is_normalized cfg false _ _ H)). reflexivity.
Qed.
