(* NormalizeProofs.v -- C02 corollaries on the normalization model:
   - a failing coercer leaves the value unchanged, files its error at the field's document path, and the
     chain stops (the remaining coercers are not applied) -- using the error-tree theorem of C11;
   - the coercer of an allow_unknown rule set is not applied to fields defined in the schema;
   - items normalization is skipped when the lengths differ. *)
From Coq Require Import List ZArith String Bool Arith Lia Permutation.
From Cerb Require Import Values PyOps Errors Tree Facts Pool Validate Worklist Normalize TreeProofs.
Import ListNotations.
Open Scope string_scope.
Open Scope list_scope.

Section WithFacts.
  Variable F : facts.
  Let M := f_masks F.

  (* what mk_error produces, whatever branch it takes *)
  Lemma mk_error_shape x field d info ch e :
    mk_error F x field d info ch = Ok e ->
    e_dp e = x_dp x ++ [field] /\ e_code e = errcode F d.
  Proof.
    unfold mk_error, errcode. destruct (errdef F d) as [code rule]. cbn [fst].
    destruct rule as [r|].
    - destruct (match assoc_get field (x_schema x) with Some rs0 => Some rs0 | None => Some (c_allow_unknown (x_cfg x)) end) as [rs0|];
        [|discriminate].
      destruct (resolve_rules_set (x_cfg x) rs0) as [rs|]; [|discriminate].
      destruct (String.eqb r "nullable"); [intro H; injection H as <-; split; reflexivity|].
      destruct (String.eqb r "required"); [intro H; injection H as <-; split; reflexivity|].
      destruct (vget r rs); [intro H; injection H as <-; split; reflexivity|discriminate].
    - intro H. injection H as <-. split; reflexivity.
  Qed.

  Lemma nfile_shape x ns field d info ns' :
    nfile F x ns field d info = Ok ns' ->
    n_map ns' = n_map ns /\
    exists e, n_errs ns' = sort_errs (n_errs ns ++ [e]) /\ e_dp e = x_dp x ++ [field] /\ e_code e = errcode F d.
  Proof.
    unfold nfile, file_error. destruct (mk_error F (with_doc x (n_map ns)) field d info []) as [e| |] eqn:E;
      cbn [bind]; try discriminate.
    intro H. injection H as <-. cbn [n_map n_errs]. split; [reflexivity|].
    exists e. split; [reflexivity|]. apply (mk_error_shape _ _ _ _ _ _ E).
  Qed.

  (* a recorded top-level error is found in the document tree at its document path *)
  Lemma recorded_error_in_tree errs e :
    In e errs ->
    errlist_has_code (e_code e) (fetch_errors (build M KDoc errs) (e_dp e)) = true.
  Proof.
    intro Hin. unfold errlist_has_code. apply existsb_exists. exists e. split; [|apply Z.eqb_refl].
    eapply Permutation_in; [symmetry; apply (build_fetch M KDoc errs (e_dp e))|].
    apply filter_In. split.
    - unfold tflat. apply in_flat_map. exists e. split; [exact Hin|].
      rewrite tflat_err_unfold. left. reflexivity.
    - unfold atp. cbn [path_of]. apply path_eqb_refl.
  Qed.

  (* a failing coercer: value unchanged, error recorded (unless the nullable-None exemption applies) *)
  Theorem failing_coercer_keeps_value x ns name field v nullable errname ns' v' e :
    pool_coerce name v = Some (URaise e) ->
    coerce_one F x ns (VStr name) field v nullable errname = Ok (ns', v') ->
    v' = v /\ (nullable && is_none v = false ->
               exists er, In er (n_errs ns') /\ e_dp er = x_dp x ++ [field] /\ e_code er = errcode F errname).
  Proof.
    intros Hp H. unfold coerce_one in H. rewrite Hp in H.
    destruct (nullable && is_none v) eqn:En.
    - injection H as <- <-. split; [reflexivity|discriminate].
    - destruct (nfile F x ns field errname [exc_message e]) as [ns1| |] eqn:En1; cbn [bind] in H; try discriminate.
      injection H as <- <-. split; [reflexivity|]. intros _.
      destruct (nfile_shape _ _ _ _ _ _ En1) as [_ [er [Herrs [Hdp Hcode]]]].
      exists er. split; [|split; assumption].
      rewrite Herrs. eapply Permutation_in; [apply sort_errs_perm|]. apply in_or_app. right. left. reflexivity.
  Qed.

  (* ... and the chain stops: the remaining coercers are not applied *)
  Theorem failing_coercer_stops_chain x ns name rest field v e :
    pool_coerce name v = Some (URaise e) ->
    forall r, coerce_chain F x ns (VStr name :: rest) field v false "COERCION_FAILED" = Ok r ->
    snd r = v /\ exists ns1, nfile F x ns field "COERCION_FAILED" [exc_message e] = Ok ns1 /\ fst r = ns1.
  Proof.
    intros Hp r H. cbn [coerce_chain] in H.
    destruct (coerce_one F x ns (VStr name) field v false "COERCION_FAILED") as [[ns1 v1]| |] eqn:E1;
      cbn [bind] in H; try discriminate.
    destruct (failing_coercer_keeps_value _ _ _ _ _ _ _ _ _ _ Hp E1) as [-> Herr].
    destruct (Herr eq_refl) as [er [Hin [Hdp Hcode]]].
    assert (Hhit : errlist_has_code (errcode F "COERCION_FAILED")
                     (fetch_errors (build (f_masks F) KDoc (n_errs ns1)) (x_dp x ++ [field])) = true).
    { rewrite <- Hcode, <- Hdp. apply recorded_error_in_tree. exact Hin. }
    rewrite Hhit in H. injection H as <-. cbn [fst snd]. split; [reflexivity|].
    exists ns1. split; [|reflexivity].
    unfold coerce_one in E1. rewrite Hp in E1. cbn [andb] in E1.
    destruct (nfile F x ns field "COERCION_FAILED" [exc_message e]) as [n2| |]; cbn [bind] in E1; try discriminate.
    injection E1 as ->. reflexivity.
  Qed.

  (* the same for ANY chain of processors, whatever error it files on failure: coercers (COERCION_FAILED) and, since the
     repair 89792c6, rename handlers (RENAMING_FAILED) -- the stop test looks for the error the chain itself files *)
  Theorem failing_processor_stops_chain x ns name rest field v e errname :
    pool_coerce name v = Some (URaise e) ->
    forall r, coerce_chain F x ns (VStr name :: rest) field v false errname = Ok r ->
    snd r = v /\ exists ns1, nfile F x ns field errname [exc_message e] = Ok ns1 /\ fst r = ns1.
  Proof.
    intros Hp r H. cbn [coerce_chain] in H.
    destruct (coerce_one F x ns (VStr name) field v false errname) as [[ns1 v1]| |] eqn:E1;
      cbn [bind] in H; try discriminate.
    destruct (failing_coercer_keeps_value _ _ _ _ _ _ _ _ _ _ Hp E1) as [-> Herr].
    destruct (Herr eq_refl) as [er [Hin [Hdp Hcode]]].
    assert (Hhit : errlist_has_code (errcode F errname)
                     (fetch_errors (build (f_masks F) KDoc (n_errs ns1)) (x_dp x ++ [field])) = true).
    { rewrite <- Hcode, <- Hdp. apply recorded_error_in_tree. exact Hin. }
    rewrite Hhit in H. injection H as <-. cbn [fst snd]. split; [reflexivity|].
    exists ns1. split; [|reflexivity].
    unfold coerce_one in E1. rewrite Hp in E1. cbn [andb] in E1.
    destruct (nfile F x ns field errname [exc_message e]) as [n2| |]; cbn [bind] in E1; try discriminate.
    injection E1 as ->. reflexivity.
  Qed.

  (* rules for unknown fields are applied to unknown fields only: a schema field without a coerce rule is left alone *)
  Theorem known_field_not_coerced_by_unknown_rule x ns rsch f rs :
    assoc_get f rsch = Some rs ->
    rs_has "_normalize_coerce" rs "coerce" = Ok false ->
    coerce_fields F x ns rsch [f] = Ok ns.
  Proof.
    intros Hg Hc. cbn [coerce_fields]. rewrite Hg, Hc. cbn [bind].
    destruct (assoc_get f (n_map ns)); cbn [bind]; [|reflexivity].
    unfold assoc_mem. rewrite Hg. reflexivity.
  Qed.

  (* items whose number differs from the number of values are not normalized *)
  Theorem items_length_mismatch_not_normalized childn x ns field l its :
    Nat.eqb (List.length its) (List.length l) = false ->
    norm_sequence_items F childn x ns field l (VList its) = Ok ns.
  Proof. intro H. unfold norm_sequence_items. rewrite H. reflexivity. Qed.
End WithFacts.
