(* OfProofs.v -- C09: an *of-rule decides by the number of its definitions that validate
   the field individually, with the documented thresholds.  For arbitrary child
   validations (the recursive call is abstract). *)
From Coq Require Import List ZArith String Bool Arith Lia.
From Cerb Require Import Values PyOps Errors Tree Facts FactsOk SpecFacts Pool Validate.
Import ListNotations.
Open Scope string_scope.
Open Scope Z_scope.
Open Scope list_scope.

Section Of.
  Variable F : facts.
  Variable child : ctx -> res (list error).

  (* the child context in which definition number i is validated on its own:
     schema {field: definition + inherited type / allow_unknown}, the SAME document, options and update flag *)
  Definition def_ctx (x : ctx) (op : string) (field : key) (i : Z) (def' : dict) : ctx :=
    {| x_cfg := as_child (set_is_normalized (set_allow_unknown (x_cfg x) (VBool true)) false) (VDict (x_doc x));
       x_schema := [(field, VDict def')]; x_doc := x_doc x;
       x_dp := x_dp x; x_sp := x_sp x ++ [field; KStr op; KInt i];
       x_update := upd F x "validate_logical" |}.

  Definition def_outcome (x : ctx) (op : string) (field : key) (i : Z) (d : value) : res (list error) :=
    match d with
    | VDict def => do def' <- inherit_rules F x field def; child (def_ctx x op field i def')
    | _ => Raise AttributeError "__validate_logical"
    end.

  Definition validates (x : ctx) (op : string) (field : key) (i : Z) (d : value) : bool :=
    match def_outcome x op field i d with Ok [] => true | _ => false end.

  (* number of definitions (numbered from i) that validate individually *)
  Fixpoint count_valid (x : ctx) (op : string) (field : key) (i : Z) (defs : list value) : Z :=
    match defs with
    | [] => 0
    | d :: ds => (if validates x op field i d then 1 else 0) + count_valid x op field (i + 1) ds
    end.

  (* the errors of the failing definitions, in order, after the bubbling crumb drop *)
  Fixpoint failing_errors (x : ctx) (op : string) (field : key) (i : Z) (defs : list value) : list error :=
    match defs with
    | [] => []
    | d :: ds =>
        match def_outcome x op field i d with
        | Ok (e :: es) => drop_sp_all F x "validate_logical" (e :: es) ++ failing_errors x op field (i + 1) ds
        | _ => failing_errors x op field (i + 1) ds
        end
    end.

  Lemma count_valid_nonneg x op field : forall defs i, 0 <= count_valid x op field i defs.
  Proof.
    induction defs as [|d ds IH]; intro i; simpl; [lia|].
    specialize (IH (i + 1)). destruct (validates x op field i d); lia.
  Qed.

  Lemma count_valid_le x op field : forall defs i, count_valid x op field i defs <= Z.of_nat (List.length defs).
  Proof.
    induction defs as [|d ds IH]; intro i; [simpl; lia|].
    cbn [count_valid List.length]. specialize (IH (i + 1)). destruct (validates x op field i d); lia.
  Qed.

  (* the loop of __validate_logical computes exactly that count and those errors *)
  Lemma logical_loop_counts x op field : forall defs i valid acc r,
    logical_loop F child x op field i defs valid acc = Ok r ->
    r = (valid + count_valid x op field i defs, acc ++ failing_errors x op field i defs).
  Proof.
    induction defs as [|d ds IH]; intros i valid acc r H.
    - simpl in H. injection H as <-. simpl. rewrite Z.add_0_r, app_nil_r. reflexivity.
    - cbn [logical_loop] in H. cbn [count_valid failing_errors].
      unfold validates, def_outcome.
      destruct d as [| | | | | |def|]; try discriminate.
      destruct (inherit_rules F x field def) as [def'| |]; cbn [bind] in H |- *; try discriminate.
      fold (def_ctx x op field i def') in H.
      destruct (child (def_ctx x op field i def')) as [ces| |]; cbn [bind] in H; try discriminate.
      destruct ces as [|e es].
      + apply IH in H. rewrite H. f_equal; lia.
      + apply IH in H. rewrite H. rewrite <- app_assoc. f_equal; lia.
  Qed.

  (* the handler: an error is filed exactly when the extracted comparison holds for that count *)
  Theorem of_rule_by_count od x st defs field v n errs :
    logical_loop F child x (of_name od) field 0 defs 0 [] = Ok (n, errs) ->
    n = count_valid x (of_name od) field 0 defs /\
    errs = failing_errors x (of_name od) field 0 defs /\
    h_logical F child od x st (VList defs) field v =
      (if cmp_eval (of_cmp od) n (match of_operand od with OLit z => z | OLen => Z.of_nat (List.length defs) end)
       then do st' <- file_error F x st field (of_err od) [VInt n; VInt (Z.of_nat (List.length defs))] errs; plain st'
       else plain st).
  Proof.
    intro H. pose proof (logical_loop_counts _ _ _ _ _ _ _ _ H) as E.
    injection E as E1 E2. simpl in E1, E2. repeat split; [lia|exact E2|].
    unfold h_logical. rewrite H. reflexivity.
  Qed.
End Of.

(** The documented thresholds.  They follow from the extracted operator table being the
    documented one (ok_of), by computation. *)
Definition fails_documented (op : string) (n k : Z) : bool :=
  if String.eqb op "anyof" then Z.eqb n 0           (* zero validate *)
  else if String.eqb op "allof" then Z.ltb n k       (* fewer than all *)
  else if String.eqb op "noneof" then Z.ltb 0 n      (* more than zero *)
  else if String.eqb op "oneof" then negb (Z.eqb n 1) (* different from one *)
  else false.

Definition od_fails (od : ofdef) (n k : Z) : bool :=
  cmp_eval (of_cmp od) n (match of_operand od with OLit z => z | OLen => k end).

Theorem thresholds_documented F :
  ok_of F = true ->
  forall op, In op ["anyof"; "allof"; "noneof"; "oneof"] ->
  exists od, find (fun od => String.eqb (of_name od) op) (f_ofdefs F) = Some od /\
             of_name od = op /\
             forall n k, 0 <= n -> od_fails od n k = fails_documented op n k.
Proof.
  intros Hok op Hop. apply ok_of_eq in Hok as [_ Hdefs]. rewrite Hdefs.
  simpl in Hop. destruct Hop as [<-|[<-|[<-|[<-|[]]]]].
  - eexists. split; [reflexivity|]. split; [reflexivity|].
    intros n k Hn. unfold od_fails, fails_documented. simpl.
    destruct (Z.ltb_spec n 1), (Z.eqb_spec n 0); try reflexivity; lia.
  - eexists. split; [reflexivity|]. split; [reflexivity|].
    intros n k Hn. reflexivity.
  - eexists. split; [reflexivity|]. split; [reflexivity|].
    intros n k Hn. unfold od_fails, fails_documented. simpl.
    destruct (Z.gtb_spec n 0), (Z.ltb_spec 0 n); try reflexivity; lia.
  - eexists. split; [reflexivity|]. split; [reflexivity|].
    intros n k Hn. reflexivity.
Qed.
