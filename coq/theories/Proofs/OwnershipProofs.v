(* OwnershipProofs.v -- C05: if every extracted write site is at depth 0 or re-binds the nested member to a copy
   first, no run of normalization -- any sequence of executed sites, meeting members owned by anybody -- writes
   into an object of the caller or of the schema.  Conversely a deeper site without a copy writes into the
   caller's nested mapping (the defect repaired by fd9d03c). *)
From Coq Require Import List String Bool Arith.
From Cerb Require Import Values Facts Ownership.
Import ListNotations.
Open Scope string_scope.
Open Scope list_scope.

Lemma site_ok_fresh s nested : site_ok s = true -> target_owner s nested = Fresh.
Proof.
  unfold site_ok, target_owner. destruct (s_depth s); [reflexivity|].
  intro H. apply andb_true_iff in H as [_ H]. rewrite H. reflexivity.
Qed.

Lemma filter_all_false {A} (f : A -> bool) l : (forall a, In a l -> f a = false) -> filter f l = [].
Proof.
  induction l as [|a l IH]; intro H; [reflexivity|]. cbn [filter].
  rewrite (H a (or_introl eq_refl)). apply IH. intros b Hb. apply H. right. exact Hb.
Qed.

Theorem no_foreign_write (F : facts) :
  ok_writes F = true ->
  forall run, (forall so, In so run -> In (fst so) (f_write_sites F)) -> foreign_writes run = [].
Proof.
  intros Hok run Hin. unfold ok_writes in Hok. apply andb_true_iff in Hok as [_ Hok].
  rewrite forallb_forall in Hok.
  unfold foreign_writes. apply filter_all_false. intros so Hso.
  rewrite (site_ok_fresh (fst so) (snd so) (Hok _ (Hin so Hso))). reflexivity.
Qed.

(* the pre-repair site of __normalize_mapping_per_keysrules: depth 1, no copy *)
Example unguarded_nested_write_is_foreign :
  foreign_writes [(("normalize_mapping_per_keysrules", "mapping", 1, false), Caller)] <> [].
Proof. vm_compute. discriminate. Qed.
