(* QueueProofs.v -- C01 (queue lemma): the rule queue of __validate_definitions
   (pop(0), _drop_remaining_rules removing from the remaining list, break on a truthy
   result) processes exactly the rules a declarative skip-set reading prescribes:
   a rule is evaluated iff no rule evaluated before it asked to drop it (or everything),
   in queue order.  Holds for ARBITRARY rule handlers. *)
From Coq Require Import List ZArith String Bool Arith Lia.
From Cerb Require Import Values PyOps Errors Tree Facts FactsOk SpecFacts Pool Validate.
Import ListNotations.
Open Scope list_scope.

Lemma str_in_spec s l : str_in s l = true <-> In s l.
Proof.
  unfold str_in. rewrite existsb_exists. split.
  - intros [y [H1 H2]]. apply String.eqb_eq in H2. subst. exact H1.
  - intro H. exists s. split; [exact H|apply String.eqb_refl].
Qed.

Lemma str_in_app a l D : str_in a (l ++ D) = str_in a l || str_in a D.
Proof. unfold str_in. apply existsb_app. Qed.

Lemma str_in_cons a r rs : str_in a (r :: rs) = String.eqb a r || str_in a rs.
Proof. reflexivity. Qed.

Lemma remove_first_notin r l : ~ In r l -> remove_first r l = l.
Proof.
  induction l as [|a l IH]; simpl; intro H; [reflexivity|].
  destruct (String.eqb r a) eqn:E.
  - apply String.eqb_eq in E. subst. exfalso. apply H. left. reflexivity.
  - f_equal. apply IH. intro H'. apply H. right. exact H'.
Qed.

(* on a duplicate-free list, removing the first occurrence = filtering the name out *)
Lemma remove_first_filter r l :
  NoDup l -> remove_first r l = filter (fun a => negb (String.eqb r a)) l.
Proof.
  induction 1 as [|a l Hn Hd IH]; simpl; [reflexivity|].
  destruct (String.eqb r a) eqn:E; simpl.
  - apply String.eqb_eq in E. subst. rewrite <- IH. symmetry. apply remove_first_notin. exact Hn.
  - f_equal. exact IH.
Qed.

Lemma NoDup_filter {A} (f : A -> bool) l : NoDup l -> NoDup (filter f l).
Proof.
  induction 1 as [|a l Hn Hd IH]; simpl; [constructor|].
  destruct (f a); [|exact IH]. constructor; [|exact IH].
  intro H. apply filter_In in H as [H _]. contradiction.
Qed.

Lemma fold_remove_filter rs : forall l,
  NoDup l ->
  fold_left (fun q r => remove_first r q) rs l = filter (fun a => negb (str_in a rs)) l.
Proof.
  induction rs as [|r rs IH]; intros l Hd.
  - cbn [fold_left]. clear Hd. induction l as [|a l IHl]; [reflexivity|].
    cbn [filter]. change (str_in a []) with false. cbn [negb]. f_equal. exact IHl.
  - cbn [fold_left]. rewrite remove_first_filter by exact Hd.
    rewrite IH by (apply NoDup_filter; exact Hd).
    clear. induction l as [|a l IHl]; [reflexivity|].
    cbn [filter]. rewrite str_in_cons, (String.eqb_sym a r).
    destruct (String.eqb r a); cbn [negb orb filter].
    + exact IHl.
    + destruct (str_in a rs); cbn [negb]; rewrite IHl; reflexivity.
Qed.

Lemma filter_len_le {A} (f : A -> bool) l : (List.length (filter f l) <= List.length l)%nat.
Proof. induction l as [|a l IH]; simpl; [lia|]. destruct (f a); simpl; lia. Qed.

Section Queue.
  Variable F : facts.
  Variable child : ctx -> res (list error).

  (* declarative reading: walk the queue once, carrying the set of dropped rule names *)
  Fixpoint spec_queue (x : ctx) (st : vstate) (defs : value) (field : key) (v : value)
           (q : list string) (dropped : list string) : res vstate :=
    match q with
    | [] => Ok st
    | r :: rest =>
        if str_in r dropped then spec_queue x st defs field v rest dropped
        else
          do out <- run_rule F child x st defs field v r;
          if o_stop out then Ok (o_st out)
          else match o_drop out with
               | DNone => spec_queue x (o_st out) defs field v rest dropped
               | DAll => Ok (o_st out)
               | DList l => spec_queue x (o_st out) defs field v rest (l ++ dropped)
               end
    end.

  Lemma filter_dropped_app (l D : list string) (q : list string) :
    filter (fun a => negb (str_in a l)) (filter (fun a => negb (str_in a D)) q)
    = filter (fun a => negb (str_in a (l ++ D))) q.
  Proof.
    induction q as [|a q IH]; [reflexivity|].
    cbn [filter]. rewrite str_in_app.
    destruct (str_in a D) eqn:E1; cbn [negb filter].
    - rewrite orb_true_r. cbn [negb]. exact IH.
    - rewrite orb_false_r. destruct (str_in a l); cbn [negb]; rewrite IH; reflexivity.
  Qed.

  Lemma spec_queue_all_dropped x st defs field v q D :
    (forall r, In r q -> str_in r D = true) -> spec_queue x st defs field v q D = Ok st.
  Proof.
    induction q as [|r q IH]; intro H; simpl; [reflexivity|].
    rewrite (H r (or_introl eq_refl)). apply IH. intros r' Hr'. apply H. right. exact Hr'.
  Qed.

  Theorem run_queue_is_spec : forall q x st defs field v D n,
    NoDup q ->
    (List.length (filter (fun a => negb (str_in a D)) q) <= n)%nat ->
    run_queue F child n x st defs field v (filter (fun a => negb (str_in a D)) q)
    = spec_queue x st defs field v q D.
  Proof.
    induction q as [|r q IH]; intros x st defs field v D n Hd Hn; [destruct n; reflexivity|].
    inversion Hd as [|? ? Hnotin Hd']; subst.
    cbn [filter spec_queue]. cbn [filter] in Hn. destruct (str_in r D) eqn:E; cbn [negb] in Hn |- *.
    - apply IH; [exact Hd'|exact Hn].
    - cbn [Datatypes.length] in Hn. destruct n as [|n']; [lia|].
      cbn [run_queue].
      destruct (run_rule F child x st defs field v r) as [out|e s|]; cbn [bind]; try reflexivity.
      destruct (o_stop out); [reflexivity|].
      destruct (o_drop out) as [|l|]; cbn [apply_drop].
      + apply IH; [exact Hd'|lia].
      + rewrite fold_remove_filter by (apply NoDup_filter; exact Hd').
        rewrite filter_dropped_app.
        apply IH; [exact Hd'|].
        rewrite <- filter_dropped_app.
        etransitivity; [apply filter_len_le|lia].
      + (* DAll: the remaining queue is emptied *)
        destruct n'; reflexivity.
  Qed.

  Corollary run_queue_spec x st defs field v q :
    NoDup q ->
    run_queue F child (List.length q) x st defs field v q = spec_queue x st defs field v q [].
  Proof.
    intro Hd.
    assert (Hf : filter (fun a => negb (str_in a [])) q = q).
    { clear. induction q as [|a q IH]; [reflexivity|]. cbn [filter]. change (str_in a []) with false.
      cbn [negb]. f_equal. exact IH. }
    pose proof (run_queue_is_spec q x st defs field v [] (List.length q) Hd) as H.
    rewrite Hf in H. apply H. lia.
  Qed.
End Queue.
