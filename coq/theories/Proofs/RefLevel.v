(* RefLevel.v -- C14 on the validation model, one whole schema level: two contexts that differ only in HOW the fields'
   rules sets are given (inline, or by names that resolve to the same rules sets) validate every document alike --
   same result of validate_ctx (errors, exception, fuel) for every child-validator function, hence at every fuel. *)
From Coq Require Import List ZArith String Bool Arith Lia.
From Cerb Require Import Values PyOps Errors Tree Facts Pool Validate RefProofs.
Import ListNotations.
Open Scope string_scope.
Open Scope list_scope.

Lemma bind_ext {A B} (r : res A) (f g : A -> res B) : (forall a, f a = g a) -> bind r f = bind r g.
Proof. intro H. destruct r; cbn [bind]; [apply H|reflexivity|reflexivity]. Qed.

Lemma bind_cong {A B} (r r' : res A) (f g : A -> res B) : r = r' -> (forall a, f a = g a) -> bind r f = bind r' g.
Proof. intros -> H. apply bind_ext. exact H. Qed.

Section Level.
  Variable F : facts.
  Variables (cfg : config) (doc : dict) (dp sp : list key) (u : bool) (s s' : dict).
  Hypothesis Hk : map fst s' = map fst s.
  Hypothesis Hr : forall f, option_map (resolve_rules_set cfg) (assoc_get f s') = option_map (resolve_rules_set cfg) (assoc_get f s).

  Local Notation X := {| x_cfg := cfg; x_schema := s; x_doc := doc; x_dp := dp; x_sp := sp; x_update := u |}.
  Local Notation X' := {| x_cfg := cfg; x_schema := s'; x_doc := doc; x_dp := dp; x_sp := sp; x_update := u |}.

  Lemma E : same_resolved X X'.
  Proof. constructor; try reflexivity; [exact Hk|exact Hr]. Qed.

  Lemma fe st field d info ch : file_error F X' st field d info ch = file_error F X st field d info ch.
  Proof. exact (file_error_same F X X' E st field d info ch). Qed.

  Ltac step :=
    first
      [ reflexivity
      | rewrite fe
      | apply bind_ext; intro
      | apply bind_cong; [|intro]
      | match goal with |- (match ?e with _ => _ end) = _ => destruct e eqn:? end
      | match goal with |- (if ?e then _ else _) = _ => destruct e eqn:? end ].
  Ltac go := repeat step.

  Lemma nullable_same st c f v : h_nullable F X' st c f v = h_nullable F X st c f v.
  Proof. unfold h_nullable. go. Qed.
  Lemma readonly_same st c f v : h_readonly F X' st c f v = h_readonly F X st c f v.
  Proof. unfold h_readonly. go. Qed.
  Lemma type_same st c f v : h_type F X' st c f v = h_type F X st c f v.
  Proof. unfold h_type. go. Qed.
  Lemma empty_same st c f v : h_empty F X' st c f v = h_empty F X st c f v.
  Proof. unfold h_empty. go. Qed.
  Lemma allowed_same st c f v : h_allowed F X' st c f v = h_allowed F X st c f v.
  Proof. unfold h_allowed, h_allowed0. go. Qed.
  Lemma contains_same st c f v : h_contains F X' st c f v = h_contains F X st c f v.
  Proof. unfold h_contains. go. Qed.
  Lemma forbidden_same st c f v : h_forbidden F X' st c f v = h_forbidden F X st c f v.
  Proof. unfold h_forbidden. go. Qed.
  Lemma max_same st c f v : h_max F X' st c f v = h_max F X st c f v.
  Proof. unfold h_max. go. Qed.
  Lemma min_same st c f v : h_min F X' st c f v = h_min F X st c f v.
  Proof. unfold h_min. go. Qed.
  Lemma maxlength_same st c f v : h_maxlength F X' st c f v = h_maxlength F X st c f v.
  Proof. unfold h_maxlength. go. Qed.
  Lemma minlength_same st c f v : h_minlength F X' st c f v = h_minlength F X st c f v.
  Proof. unfold h_minlength. go. Qed.
  Lemma regex_same st c f v : h_regex F X' st c f v = h_regex F X st c f v.
  Proof. unfold h_regex. go. Qed.

  Lemma customs_same st f msgs : file_customs F X' st f msgs = file_customs F X st f msgs.
  Proof. revert st. induction msgs as [|m ms IH]; intro st; cbn [file_customs]; [reflexivity|]. rewrite fe. apply bind_ext. intro a. apply IH. Qed.
  Lemma check_one_same st c f v : check_one F X' st c f v = check_one F X st c f v.
  Proof. unfold check_one. destruct c; try reflexivity; destruct (pool_check _ _); try reflexivity; apply customs_same. Qed.
  Lemma check_list_same st cs f v : check_list F X' st cs f v = check_list F X st cs f v.
  Proof. revert st. induction cs as [|c cs IH]; intro st; cbn [check_list]; [reflexivity|]. rewrite check_one_same. apply bind_ext. intro a. apply IH. Qed.
  Lemma check_with_same st c f v : h_check_with F X' st c f v = h_check_with F X st c f v.
  Proof. unfold h_check_with. apply bind_cong; [|reflexivity]. destruct c; try apply check_one_same. apply check_list_same. Qed.

  Lemma deps_sequence_same st f deps : deps_sequence F X' st f deps = deps_sequence F X st f deps.
  Proof.
    revert st. induction deps as [|d ds IH]; intro st; cbn [deps_sequence]; [reflexivity|].
    apply bind_ext. intro r. apply bind_cong; [destruct r; [reflexivity|apply fe]|]. intro a. apply IH.
  Qed.
  Lemma deps_mapping_same deps okc info : deps_mapping X' deps okc info = deps_mapping X deps okc info.
  Proof.
    revert okc info. induction deps as [|[name vals] ds IH]; intros okc info; cbn [deps_mapping]; [reflexivity|].
    apply bind_ext. intro r. destruct (existsb _ _); apply IH.
  Qed.
  Lemma dependencies_same st c f v : h_dependencies F X' st c f v = h_dependencies F X st c f v.
  Proof.
    unfold h_dependencies. apply bind_cong; [|reflexivity].
    destruct c; try apply deps_sequence_same.
    rewrite deps_mapping_same. apply bind_ext. intros [okc info]. destruct (Nat.eqb _ _); [reflexivity|apply fe].
  Qed.
  Lemma excludes_same' st c f v : h_excludes F X' st c f v = h_excludes F X st c f v.
  Proof. exact (excludes_same F X X' E st c f v). Qed.

  Section Child.
    Variable child : ctx -> res (list error).

    Lemma mk_child_same c' sch d dc sc up : mk_child X' c' sch d dc sc up = mk_child X c' sch d dc sc up.
    Proof. reflexivity. Qed.
    Lemma upd_same site : upd F X' site = upd F X site.
    Proof. reflexivity. Qed.

    Lemma items_same st c f v : h_items F child X' st c f v = h_items F child X st c f v.
    Proof. unfold h_items. go. Qed.
    Lemma keysrules_same st c f v : h_keysrules F child X' st c f v = h_keysrules F child X st c f v.
    Proof. unfold h_keysrules. go. Qed.
    Lemma valuesrules_same st c f v : h_valuesrules F child X' st c f v = h_valuesrules F child X st c f v.
    Proof. unfold h_valuesrules. go. Qed.

    Lemma resolved_field f :
      match assoc_get f s' with Some rs0 => Some (resolve_rules_set cfg rs0) | None => None end =
      match assoc_get f s with Some rs0 => Some (resolve_rules_set cfg rs0) | None => None end.
    Proof. pose proof (Hr f) as H. destruct (assoc_get f s'), (assoc_get f s); cbn [option_map] in H; congruence. Qed.

    Lemma schema_same st c f v : h_schema F child X' st c f v = h_schema F child X st c f v.
    Proof.
      unfold h_schema.
      change (x_cfg X') with cfg. change (x_cfg X) with cfg. change (x_schema X') with s'. change (x_schema X) with s.
      destruct c; try reflexivity; destruct v; try reflexivity; try (solve [go]).
      all: destruct (resolve_schema cfg _) as [[]|]; try reflexivity.
      all: generalize (resolved_field f); destruct (assoc_get f s') as [a|], (assoc_get f s) as [b|]; intro H; try discriminate; try reflexivity.
      all: injection H as H; rewrite H; destruct (resolve_rules_set cfg b); [|reflexivity]; rewrite mk_child_same, upd_same; go.
    Qed.

    Lemma logical_loop_same op f i defs valid acc :
      logical_loop F child X' op f i defs valid acc = logical_loop F child X op f i defs valid acc.
    Proof.
      revert i valid acc. induction defs as [|d ds IH]; intros i valid acc; cbn [logical_loop]; [reflexivity|].
      destruct d; try reflexivity.
      rewrite (inherit_rules_same F X X' E). apply bind_ext. intro def'. apply bind_ext. intro ces.
      destruct ces; apply IH.
    Qed.
    Lemma logical_same od st c f v : h_logical F child od X' st c f v = h_logical F child od X st c f v.
    Proof.
      unfold h_logical. destruct c; try reflexivity. rewrite logical_loop_same. apply bind_ext. intros [valids errs].
      destruct (cmp_eval _ _ _); [|reflexivity]. go.
    Qed.

    Lemma run_rule_same st defs f v rule : run_rule F child X' st defs f v rule = run_rule F child X st defs f v rule.
    Proof.
      unfold run_rule.
      repeat match goal with |- (if ?b then _ else _) = _ => destruct b end;
        first [ apply nullable_same | apply readonly_same | apply type_same | apply empty_same | apply allowed_same | apply contains_same
              | apply forbidden_same | apply max_same | apply min_same | apply maxlength_same | apply minlength_same | apply regex_same
              | apply check_with_same | apply dependencies_same | apply excludes_same' | apply items_same | apply keysrules_same
              | apply valuesrules_same | apply schema_same | idtac ].
      destruct (find _ _); [apply logical_same|reflexivity].
    Qed.

    Lemma run_queue_same n st defs f v q : run_queue F child n X' st defs f v q = run_queue F child n X st defs f v q.
    Proof.
      revert st q. induction n as [|n IH]; intros st q; destruct q as [|r rest]; cbn [run_queue]; try reflexivity.
      rewrite run_rule_same. apply bind_ext. intro out. destruct (o_stop out); [reflexivity|apply IH].
    Qed.

    Lemma definitions_same st defs0 f : validate_definitions F child X' st defs0 f = validate_definitions F child X st defs0 f.
    Proof. unfold validate_definitions. cbn [x_cfg x_doc]. destruct (resolve_rules_set cfg defs0) as [[]|]; try reflexivity.
           destruct (assoc_get f doc); [apply run_queue_same|reflexivity]. Qed.

    Lemma unknown_same st f v : validate_unknown F child X' st f v = validate_unknown F child X st f v.
    Proof. unfold validate_unknown. go. Qed.

    Lemma fields_same st fields : validate_fields F child X' st fields = validate_fields F child X st fields.
    Proof.
      revert st. induction fields as [|[f v] rest IH]; intro st; cbn [validate_fields]; [reflexivity|].
      cbn [x_cfg x_schema].
      destruct (c_ignore_none cfg && is_none v); [apply IH|].
      apply bind_cong; [|intro; apply IH].
      pose proof (Hr f) as H.
      destruct (assoc_get f s') as [a|], (assoc_get f s) as [b|]; cbn [option_map] in H; try discriminate.
      - injection H as H. unfold validate_definitions. cbn [x_cfg x_doc]. rewrite H.
        destruct (resolve_rules_set cfg b) as [[]|]; try reflexivity. destruct (assoc_get f doc); [apply run_queue_same|reflexivity].
      - apply unknown_same.
    Qed.
  End Child.

  Lemma file_each_same st d fs : file_each F X' st d fs = file_each F X st d fs.
  Proof. revert st. induction fs as [|f fs IH]; intro st; cbn [file_each]; [reflexivity|]. rewrite fe. apply bind_ext. intro a. apply IH. Qed.

  Lemma required_same st : required_set X' s' = required_set X s -> validate_required F X' st = validate_required F X st.
  Proof.
    intro Hreq. unfold validate_required. change (x_schema X') with s'. change (x_schema X) with s. rewrite Hreq.
    apply bind_ext. intro req. rewrite file_each_same. apply bind_ext. intro st1.
    destruct (s_unreq st); [reflexivity|]. destruct (existsb _ _); [reflexivity|apply file_each_same].
  Qed.

  Lemma level_from_same child st0 : required_set X' s' = required_set X s ->
    (do st1 <- validate_fields F child X' st0 doc;
     do st2 <- (if u then Ok st1 else validate_required F X' st1); Ok (s_errs st2)) =
    (do st1 <- validate_fields F child X st0 doc;
     do st2 <- (if u then Ok st1 else validate_required F X st1); Ok (s_errs st2)).
  Proof. intro Hreq. rewrite fields_same. apply bind_ext. intro st1. rewrite (required_same st1 Hreq). reflexivity. Qed.

  Lemma level_same child : required_set X' s' = required_set X s ->
    (do st1 <- validate_fields F child X' {| s_errs := []; s_unreq := [] |} doc;
     do st2 <- (if u then Ok st1 else validate_required F X' st1); Ok (s_errs st2)) =
    (do st1 <- validate_fields F child X {| s_errs := []; s_unreq := [] |} doc;
     do st2 <- (if u then Ok st1 else validate_required F X st1); Ok (s_errs st2)).
  Proof. intro Hreq. rewrite fields_same. apply bind_ext. intro st1. rewrite (required_same st1 Hreq). reflexivity. Qed.
End Level.

(** * The theorem: field rules given by name or inline -- one result *)
Definition same_rules (cfg : config) (s' s : dict) : Prop :=
  Forall2 (fun kv' kv => fst kv' = fst kv /\ resolve_rules_set cfg (snd kv') = resolve_rules_set cfg (snd kv)) s' s.

Lemma same_rules_keys cfg s' s : same_rules cfg s' s -> map fst s' = map fst s.
Proof. induction 1 as [|[k' v'] [k v] l' l [Hk _] _ IH]; cbn [map fst] in *; [reflexivity|]. rewrite Hk, IH. reflexivity. Qed.

Lemma same_rules_get cfg s' s : same_rules cfg s' s ->
  forall f, option_map (resolve_rules_set cfg) (assoc_get f s') = option_map (resolve_rules_set cfg) (assoc_get f s).
Proof.
  induction 1 as [|[k' v'] [k v] l' l [Hk Hv] _ IH]; intro f; [reflexivity|]. cbn [fst snd] in Hk, Hv. subst k'.
  cbn [assoc_get]. destruct (key_eqb f k); [cbn [option_map]; rewrite Hv; reflexivity|apply IH].
Qed.

Lemma same_rules_required (x x' : ctx) s' s :
  x_cfg x' = x_cfg x -> x_sp x' = x_sp x -> same_rules (x_cfg x) s' s -> required_set x' s' = required_set x s.
Proof.
  intros Hc Hs. induction 1 as [|[k' v'] [k v] l' l [Hk Hv] _ IH]; [reflexivity|]. cbn [fst snd] in Hk, Hv. subst k'.
  cbn [required_set]. rewrite Hc, Hs, Hv. destruct (resolve_rules_set (x_cfg x) v); [|reflexivity]. rewrite IH. reflexivity.
Qed.

Theorem validate_ctx_same_rules (F : facts) : forall fuel cfg doc dp sp u s s',
  same_rules cfg s' s ->
  validate_ctx F fuel {| x_cfg := cfg; x_schema := s'; x_doc := doc; x_dp := dp; x_sp := sp; x_update := u |} =
  validate_ctx F fuel {| x_cfg := cfg; x_schema := s; x_doc := doc; x_dp := dp; x_sp := sp; x_update := u |}.
Proof.
  intros fuel cfg doc dp sp u s s' H. destruct fuel as [|fuel]; [reflexivity|]. cbn [validate_ctx x_doc x_update].
  apply level_same.
  - exact (same_rules_keys _ _ _ H).
  - exact (same_rules_get _ _ _ H).
  - apply same_rules_required; [reflexivity|reflexivity|exact H].
Qed.

Theorem validate_after_same_rules (F : facts) : forall fuel cfg doc dp sp u s s' errs0,
  same_rules cfg s' s ->
  validate_after F fuel {| x_cfg := cfg; x_schema := s'; x_doc := doc; x_dp := dp; x_sp := sp; x_update := u |} errs0 =
  validate_after F fuel {| x_cfg := cfg; x_schema := s; x_doc := doc; x_dp := dp; x_sp := sp; x_update := u |} errs0.
Proof.
  intros fuel cfg doc dp sp u s s' errs0 H. unfold validate_after. cbn [x_doc x_update].
  apply level_from_same.
  - exact (same_rules_keys _ _ _ H).
  - exact (same_rules_get _ _ _ H).
  - apply same_rules_required; [reflexivity|reflexivity|exact H].
Qed.

Lemma same_rules_is_normalized cfg b s' s : same_rules cfg s' s -> same_rules (set_is_normalized cfg b) s' s.
Proof. unfold same_rules. intro H. induction H as [|a b0 l l' [Hk Hv] _ IH]; constructor; [|exact IH]. split; [exact Hk|].
       destruct (snd a), (snd b0); cbn [resolve_rules_set set_is_normalized c_rules_reg] in *; exact Hv. Qed.

(* the intended use: any of the fields' rules sets replaced by the NAME of a registry entry that holds it *)
Inductive by_name (cfg : config) : value -> value -> Prop :=
| bn_same v : by_name cfg v v
| bn_ref n d : reg_get (c_rules_reg cfg) n = Some (VDict d) -> by_name cfg (VStr n) (VDict d).

Lemma by_name_same_rules cfg s' s :
  Forall2 (fun kv' kv => fst kv' = fst kv /\ by_name cfg (snd kv') (snd kv)) s' s -> same_rules cfg s' s.
Proof.
  induction 1 as [|[k' v'] [k v] l' l [Hk Hv] _ IH]; constructor; [|exact IH]. split; [exact Hk|].
  cbn [snd] in *. destruct Hv as [w|n d Hd]; [reflexivity|]. cbn [resolve_rules_set]. exact Hd.
Qed.
