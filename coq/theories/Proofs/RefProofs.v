(* RefProofs.v -- C14 on the validation model: replacing the rules sets of any fields of a schema by names of
   registry entries that resolve to the same rules sets does not change what validating a document records --
   verdict, errors, child validations -- because every use of a field's rules goes through _resolve_rules_set.
   (One schema level, arbitrary child validators; deeper positions are reached through the child validators'
   own schemas, to which the same theorem applies.) *)
From Coq Require Import List ZArith String Bool Arith Lia.
From Cerb Require Import Values PyOps Errors Tree Facts Pool Validate.
Import ListNotations.
Open Scope string_scope.
Open Scope list_scope.

Section WithFacts.
  Variable F : facts.

  (* two contexts that differ only in HOW the fields' rules sets are given *)
  Record same_resolved (x x' : ctx) : Prop := {
    sr_cfg : x_cfg x' = x_cfg x; sr_doc : x_doc x' = x_doc x; sr_dp : x_dp x' = x_dp x; sr_sp : x_sp x' = x_sp x;
    sr_update : x_update x' = x_update x;
    sr_keys : map fst (x_schema x') = map fst (x_schema x);
    sr_rules : forall f, option_map (resolve_rules_set (x_cfg x)) (assoc_get f (x_schema x')) =
                         option_map (resolve_rules_set (x_cfg x)) (assoc_get f (x_schema x))
  }.

  Lemma assoc_mem_keys {A} (f : key) (a b : list (key * A)) : map fst a = map fst b -> assoc_mem f a = assoc_mem f b.
  Proof.
    revert b. induction a as [|[k v] a IH]; intros [|[k' v'] b] H; try discriminate; [reflexivity|].
    cbn [map fst] in H. injection H as -> H. unfold assoc_mem in *. cbn [assoc_get].
    destruct (key_eqb f k'); [reflexivity|]. apply IH. exact H.
  Qed.

  Variable x x' : ctx.
  Hypothesis E : same_resolved x x'.

  Lemma resolved_at f :
    (match assoc_get f (x_schema x') with Some v => Some (resolve_rules_set (x_cfg x') v) | None => None end) =
    (match assoc_get f (x_schema x) with Some v => Some (resolve_rules_set (x_cfg x) v) | None => None end).
  Proof.
    rewrite (sr_cfg _ _ E). pose proof (sr_rules _ _ E f) as H.
    destruct (assoc_get f (x_schema x')), (assoc_get f (x_schema x)); cbn [option_map] in H; congruence.
  Qed.

  Lemma mk_error_same field d info ch : mk_error F x' field d info ch = mk_error F x field d info ch.
  Proof.
    unfold mk_error. rewrite (sr_dp _ _ E), (sr_sp _ _ E), (sr_doc _ _ E), (sr_cfg _ _ E).
    destruct (errdef F d) as [code [r|]]; [|reflexivity].
    pose proof (resolved_at field) as H. rewrite (sr_cfg _ _ E) in H.
    destruct (assoc_get field (x_schema x')) as [a|], (assoc_get field (x_schema x)) as [b|]; try discriminate.
    - injection H as H. rewrite H. reflexivity.
    - reflexivity.
  Qed.

  Lemma file_error_same st field d info ch : file_error F x' st field d info ch = file_error F x st field d info ch.
  Proof. unfold file_error. rewrite mk_error_same. reflexivity. Qed.

  Lemma excludes_same st c field v : h_excludes F x' st c field v = h_excludes F x st c field v.
  Proof.
    unfold h_excludes. rewrite (resolved_at field).
    destruct (match assoc_get field (x_schema x) with Some v0 => Some (resolve_rules_set (x_cfg x) v0) | None => None end) as [[[]|]|];
      try reflexivity.
    rewrite (sr_cfg _ _ E), (sr_doc _ _ E).
    assert (Hm : forall k, assoc_mem k (x_schema x') = assoc_mem k (x_schema x)).
    { intro k. apply assoc_mem_keys. exact (sr_keys _ _ E). }
    assert (Hf : forall un l, fold_left (fun un ex => match value_to_key ex with
                                                      | Some k => if assoc_mem k (x_schema x') && truthy (match assoc_get (KStr "required") kvs with Some r => r | None => VBool (c_require_all (x_cfg x)) end) then add_key k un else un
                                                      | None => un end) l un =
                            fold_left (fun un ex => match value_to_key ex with
                                                      | Some k => if assoc_mem k (x_schema x) && truthy (match assoc_get (KStr "required") kvs with Some r => r | None => VBool (c_require_all (x_cfg x)) end) then add_key k un else un
                                                      | None => un end) l un).
    { intros un l. revert un. induction l as [|a l IH]; intro un; [reflexivity|]. cbn [fold_left].
      destruct (value_to_key a); [rewrite Hm|]; apply IH. }
    rewrite Hf. destruct (existsb _ _); [rewrite file_error_same|]; reflexivity.
  Qed.

  (* the *of rules inherit type / allow_unknown from the RESOLVED rules set of the field *)
  Lemma inherit_rules_same field def : inherit_rules F x' field def = inherit_rules F x field def.
  Proof.
    unfold inherit_rules. rewrite (resolved_at field).
    destruct (match assoc_get field (x_schema x) with Some v0 => Some (resolve_rules_set (x_cfg x) v0) | None => None end) as [[[]|]|];
      try reflexivity.
    rewrite (sr_cfg _ _ E). reflexivity.
  Qed.

  (* the required pass reads every field's rules through the registry as well *)
  Lemma required_set_same :
    (forall f v v', assoc_get f (x_schema x') = Some v' -> assoc_get f (x_schema x) = Some v ->
                    resolve_rules_set (x_cfg x) v' = resolve_rules_set (x_cfg x) v) ->
    forall s s', map fst s' = map fst s ->
      Forall2 (fun kv' kv => resolve_rules_set (x_cfg x) (snd kv') = resolve_rules_set (x_cfg x) (snd kv)) s' s ->
      required_set x' s' = required_set x s.
  Proof.
    intros _ s. induction s as [|[k v] s IH]; intros [|[k' v'] s'] Hk H2; try discriminate; [reflexivity|].
    cbn [map fst] in Hk. injection Hk as -> Hk. inversion H2 as [|? ? ? ? Hv Hrest]; subst. cbn [snd] in Hv.
    cbn [required_set]. rewrite (sr_cfg _ _ E), (sr_sp _ _ E), Hv.
    destruct (resolve_rules_set (x_cfg x) v); [|reflexivity].
    rewrite (IH s' Hk Hrest). reflexivity.
  Qed.
End WithFacts.
