(* SetterLfp.v -- C17: the least-fixpoint theorem of LfpProofs.v instantiated on the normalization model's
   default-setter loop (__normalize_default_fields): state = (document, errors), call = setter_call, circular =
   setter_circular.  For setters that behave as a dependency graph -- KeyError exactly when an input is absent,
   otherwise a value ([ok]) or another exception -- the document ends with exactly the obtainable fields, and
   exactly the pending fields that are not resolvable carry a SETTING_DEFAULT_FAILED error at their own path. *)
From Coq Require Import List ZArith String Bool Arith Lia Permutation.
From Cerb Require Import Values PyOps Errors Tree Facts Pool Validate Worklist Normalize WorklistProofs NoRaise
     DefaultsProofs NormalizeProofs LfpProofs.
Import ListNotations.
Open Scope string_scope.
Open Scope list_scope.

Lemma keys_assoc_set {A} f (v : A) : forall m k, In k (map fst (assoc_set f v m)) <-> k = f \/ In k (map fst m).
Proof.
  induction m as [|[k' v'] m IH]; intro k; cbn [assoc_set map fst In].
  - split; [intros [H|[]]; left; symmetry; exact H|intros [H|[]]; left; symmetry; exact H].
  - destruct (key_eqb f k') eqn:E; cbn [map fst In].
    + apply key_eqb_eq in E. subst k'. split; [intros [H|H]; [left; symmetry; exact H|right; right; exact H]|].
      intros [H|[H|H]]; [left; symmetry; exact H|left; exact H|right; exact H].
    + rewrite IH. split; [intros [H|[H|H]]; auto|intros [H|[H|H]]; auto].
Qed.

Section WithFacts.
  Variable F : facts.
  Variable x : ctx.
  Variable table : list (key * option value).
  Variable deps : key -> list key.
  Variable ok : key -> bool.

  Definition sdf : Z := errcode F "SETTING_DEFAULT_FAILED".

  Definition dom (ns : nstate) : list key := map fst (n_map ns).
  (* the fields (of this validator's document) carrying a 'default cannot be set' error *)
  Definition failed_fields (ns : nstate) : list key :=
    flat_map (fun e => if Z.eqb (e_code e) sdf
                       then match rev (e_dp e) with
                            | f :: r => if path_eqb (rev r) (x_dp x) then [f] else []
                            | [] => []
                            end
                       else []) (n_errs ns).

  Lemma failed_fields_spec ns k :
    In k (failed_fields ns) <-> exists e, In e (n_errs ns) /\ e_code e = sdf /\ e_dp e = x_dp x ++ [k].
  Proof.
    unfold failed_fields. rewrite in_flat_map. split.
    - intros [e [He Hk]]. exists e. split; [exact He|].
      destruct (Z.eqb (e_code e) sdf) eqn:Ec; [|contradiction]. apply Z.eqb_eq in Ec. split; [exact Ec|].
      destruct (rev (e_dp e)) as [|f r] eqn:Er; [contradiction|].
      destruct (path_eqb (rev r) (x_dp x)) eqn:Ep; [|contradiction]. apply path_eqb_eq in Ep.
      destruct Hk as [->|[]]. rewrite <- Ep. rewrite <- (rev_involutive (e_dp e)), Er. reflexivity.
    - intros [e [He [Ec Hdp]]]. exists e. split; [exact He|].
      rewrite Ec, Z.eqb_refl, Hdp, rev_app_distr. cbn [rev app]. rewrite rev_involutive, path_eqb_refl. left. reflexivity.
  Qed.

  Hypothesis table_nodup : NoDup (map fst table).

  (* dependency-graph setters: KeyError exactly when an input is absent; otherwise a value or another exception *)
  Hypothesis graph : forall f, In f (map fst table) -> forall m,
    match call_setter m (match assoc_get f table with Some r => r | None => None end) with
    | Ok (SetOk _) => (forall d, In d (deps f) -> In d (map fst m)) /\ ok f = true
    | Ok SetRequeue => ~ (forall d, In d (deps f) -> In d (map fst m))
    | Ok (SetFailed _) => (forall d, In d (deps f) -> In d (map fst m)) /\ ok f = false
    | _ => False
    end.

  (* an error for a field with a default_setter rule can be filed (NoRaise.file_error_ok) *)
  Hypothesis rule_present : forall f, In f (map fst table) ->
    exists code rs0 rs, errdef F "SETTING_DEFAULT_FAILED" = (code, Some "default_setter") /\
      assoc_get f (x_schema x) = Some rs0 /\ resolve_rules_set (x_cfg x) rs0 = Some rs /\ vmem "default_setter" rs = true.

  Lemma files ns f info : In f (map fst table) ->
    exists ns', nfile F x ns f "SETTING_DEFAULT_FAILED" info = Ok ns' /\ n_map ns' = n_map ns /\
                forall k, In k (failed_fields ns') <-> k = f \/ In k (failed_fields ns).
  Proof.
    intro Hf. destruct (rule_present f Hf) as [code [rs0 [rs [Hd [Hs [Hr Hm]]]]]].
    destruct (file_error_ok F (with_doc x (n_map ns)) (vs_of ns) f "SETTING_DEFAULT_FAILED" info [] rs0 rs "default_setter" code Hd)
      as [st' Hst]; [cbn [with_doc x_schema]; rewrite Hs; reflexivity|exact Hr|right; right; exact Hm|].
    assert (Hn : nfile F x ns f "SETTING_DEFAULT_FAILED" info = Ok {| n_map := n_map ns; n_errs := s_errs st' |}).
    { unfold nfile. rewrite Hst. reflexivity. }
    eexists. split; [exact Hn|]. split; [reflexivity|].
    destruct (nfile_shape F _ _ _ _ _ _ Hn) as [_ [e [Herrs [Hdp Hcode]]]].
    intro k. rewrite !failed_fields_spec. split.
    - intros [e' [He' [Hc' Hdp']]]. rewrite Herrs in He'.
      apply (Permutation_in _ (Permutation_sym (sort_errs_perm _))) in He'. apply in_app_or in He' as [He'|[<-|[]]].
      + right. exists e'. repeat split; assumption.
      + left. rewrite Hdp in Hdp'. apply app_inj_tail in Hdp' as [_ H]. symmetry. exact H.
    - intros [->|[e' [He' [Hc' Hdp']]]].
      + exists e. repeat split; [|exact Hcode|exact Hdp].
        rewrite Herrs. apply (Permutation_in _ (sort_errs_perm _)). apply in_or_app. right. left. reflexivity.
      + exists e'. repeat split; [|exact Hc'|exact Hdp'].
        rewrite Herrs. apply (Permutation_in _ (sort_errs_perm _)). apply in_or_app. left. exact He'.
  Qed.

  Lemma circular_files : forall P ns, (forall g, In g P -> In g (map fst table)) ->
    exists s, setter_circular F x ns P = Ok s /\ (forall k, In k (dom s) <-> In k (dom ns)) /\
              (forall k, In k (failed_fields s) <-> In k P \/ In k (failed_fields ns)).
  Proof.
    induction P as [|g P IH]; intros ns HP; cbn [setter_circular].
    - exists ns. split; [reflexivity|]. split; intro k; [reflexivity|]. split; [intro H; right; exact H|intros [[]|H]; exact H].
    - destruct (files ns g [VStr "Circular dependencies of default setters."]) as [ns1 [E1 [Hm1 He1]]]; [apply HP; left; reflexivity|].
      rewrite E1. cbn [bind]. destruct (IH ns1) as [s [Es [Hd He]]]; [intros g' Hg'; apply HP; right; exact Hg'|].
      exists s. split; [exact Es|]. split.
      + intro k. rewrite Hd. unfold dom. rewrite Hm1. reflexivity.
      + intro k. rewrite He, He1. cbn [In]. split.
        * intros [H|[H|H]]; [left; right; exact H|left; left; symmetry; exact H|right; exact H].
        * intros [[H|H]|H]; [right; left; symmetry; exact H|left; exact H|right; right; exact H].
  Qed.

  Notation ready := (LfpProofs.ready nstate dom deps).

  Lemma ready_iff ns f : ready ns f = true <-> forall d, In d (deps f) -> In d (map fst (n_map ns)).
  Proof. apply ready_spec. Qed.

  (* the circular branch is only ever called on a sub-list of the table; to keep the generic theorem's hypothesis
     total we state what it does on ANY list of table fields and use the loop's own invariant for the rest *)
  Variable ns0 : nstate.

  Theorem default_setters_least_fixpoint :
    exists ns',
      wl_run nstate (setter_call F x table) (setter_circular F x) ns0 (map fst table) = Ok ns' /\
      (forall k, In k (dom ns') <-> obtain nstate dom deps ok ns0 (map fst table) k) /\
      (forall k, In k (failed_fields ns') <->
                 In k (failed_fields ns0) \/
                 (In k (map fst table) /\ ~ resolvable nstate dom deps ok ns0 (map fst table) k)).
  Proof.
    destruct (wl_least_fixpoint nstate (setter_call F x table) (setter_circular F x) dom failed_fields deps ok ns0 (map fst table)) as [s [Es [Hd He]]].
    - exact table_nodup.
    - intros ns f Hf. unfold setter_call. pose proof (graph f Hf (n_map ns)) as Hg.
      destruct (call_setter (n_map ns) _) as [[v| |e]| |]; cbn [bind]; try contradiction.
      + destruct Hg as [Hd Hok]. split; [apply ready_iff; exact Hd|]. split; [exact Hok|]. split.
        * intro k. unfold dom. cbn [n_map]. apply keys_assoc_set.
        * intro k. reflexivity.
      + destruct (ready ns f) eqn:Er; [|reflexivity]. exfalso. apply Hg. apply ready_iff. exact Er.
      + destruct Hg as [Hd Hno]. destruct (files ns f [exc_message e] Hf) as [ns1 [E1 [Hm1 He1]]]. rewrite E1. cbn [bind].
        split; [apply ready_iff; exact Hd|]. split; [exact Hno|]. split.
        * intro k. unfold dom. rewrite Hm1. reflexivity.
        * exact He1.
    - intros ns f. apply setter_call_returns.
    - intros ns l. apply setter_circular_returns.
    - intros ns P HP. apply circular_files. exact HP.
    - exists s. split; [exact Es|]. split; [exact Hd|exact He].
  Qed.
End WithFacts.

(** the pool's reading setters are dependency-graph setters *)
Fixpoint chars (s : string) : list key :=
  match s with EmptyString => [] | String c s' => KStr (String c EmptyString) :: chars s' end.

Lemma assoc_get_keys {A} k (m : list (key * A)) : (exists v, assoc_get k m = Some v) <-> In k (map fst m).
Proof.
  induction m as [|[k' v'] m IH]; cbn [assoc_get map fst In].
  - split; [intros [v H]; discriminate|intros []].
  - destruct (key_eqb k k') eqn:E.
    + apply key_eqb_eq in E. subst. split; [intros _; left; reflexivity|intros _; exists v'; reflexivity].
    + rewrite IH. split; [intro H; right; exact H|intros [H|H]; [subst; rewrite key_eqb_refl in E; discriminate|exact H]].
Qed.

Lemma read_fields_graph doc : forall s acc,
  match read_fields doc s acc with
  | UOk _ => forall d, In d (chars s) -> In d (map fst doc)
  | URaise e => e = KeyError /\ ~ (forall d, In d (chars s) -> In d (map fst doc))
  end.
Proof.
  induction s as [|c s IH]; intro acc; cbn [read_fields chars].
  - intros d [].
  - destruct (assoc_get (KStr (String c EmptyString)) doc) as [v|] eqn:E.
    + specialize (IH (v :: acc)). destruct (read_fields doc s (v :: acc)) as [r|e].
      * intros d [<-|Hd]; [apply assoc_get_keys; exists v; exact E|apply IH; exact Hd].
      * destruct IH as [-> Hn]. split; [reflexivity|]. intro H. apply Hn. intros d Hd. apply H. right. exact Hd.
    + split; [reflexivity|]. intro H. assert (Hin : In (KStr (String c EmptyString)) (map fst doc)) by (apply H; left; reflexivity).
      apply assoc_get_keys in Hin as [v Hv]. congruence.
Qed.

(* a setter that only reads the fields [s]: a value exactly when every one of them is a key, else KeyError *)
Lemma reading_setter_graph name s m :
  pool_setter name m = Some (read_fields m s []) ->
  match call_setter m (Some (VDict [(KStr "default_setter", VStr name)])) with
  | Ok (SetOk _) => (forall d, In d (chars s) -> In d (map fst m))
  | Ok SetRequeue => ~ (forall d, In d (chars s) -> In d (map fst m))
  | _ => False
  end.
Proof.
  intro Hp. unfold call_setter. change (assoc_get (KStr "default_setter") [(KStr "default_setter", VStr name)]) with (Some (VStr name)). cbv iota.
  rewrite Hp. pose proof (read_fields_graph m s []) as H. destruct (read_fields m s []) as [v|e]; [exact H|].
  destruct H as [-> H]. exact H.
Qed.

(* a setter that reads the fields [s] and then raises ValueError *)
Lemma raising_setter_graph name s m :
  pool_setter name m = Some (match read_fields m s [] with UOk _ => URaise ValueError | r => r end) ->
  match call_setter m (Some (VDict [(KStr "default_setter", VStr name)])) with
  | Ok (SetFailed _) => (forall d, In d (chars s) -> In d (map fst m))
  | Ok SetRequeue => ~ (forall d, In d (chars s) -> In d (map fst m))
  | _ => False
  end.
Proof.
  intro Hp. unfold call_setter. change (assoc_get (KStr "default_setter") [(KStr "default_setter", VStr name)]) with (Some (VStr name)). cbv iota.
  rewrite Hp. pose proof (read_fields_graph m s []) as H. destruct (read_fields m s []) as [v|e]; [exact H|].
  destruct H as [-> H]. exact H.
Qed.

(** regardless of the order of the fields: two tables holding the same setters in any order end with the same
    fields present and the same fields in error *)
Theorem order_irrelevant F x table table' deps ok ns0 :
  NoDup (map fst table) -> NoDup (map fst table') ->
  (forall f, In f (map fst table) <-> In f (map fst table')) ->
  (forall f, assoc_get f table' = assoc_get f table) ->
  (forall f, In f (map fst table) -> forall m,
    match call_setter m (match assoc_get f table with Some r => r | None => None end) with
    | Ok (SetOk _) => (forall d, In d (deps f) -> In d (map fst m)) /\ ok f = true
    | Ok SetRequeue => ~ (forall d, In d (deps f) -> In d (map fst m))
    | Ok (SetFailed _) => (forall d, In d (deps f) -> In d (map fst m)) /\ ok f = false
    | _ => False
    end) ->
  (forall f, In f (map fst table) ->
    exists code rs0 rs, errdef F "SETTING_DEFAULT_FAILED" = (code, Some "default_setter") /\
      assoc_get f (x_schema x) = Some rs0 /\ resolve_rules_set (x_cfg x) rs0 = Some rs /\ vmem "default_setter" rs = true) ->
  exists ns1 ns2,
    wl_run nstate (setter_call F x table) (setter_circular F x) ns0 (map fst table) = Ok ns1 /\
    wl_run nstate (setter_call F x table') (setter_circular F x) ns0 (map fst table') = Ok ns2 /\
    (forall k, In k (dom ns1) <-> In k (dom ns2)) /\
    (forall k, In k (failed_fields F x ns1) <-> In k (failed_fields F x ns2)).
Proof.
  intros Hnd Hnd' Hsame Hget Hgraph Hrule.
  destruct (default_setters_least_fixpoint F x table deps ok Hnd Hgraph Hrule ns0) as [ns1 [E1 [Hd1 He1]]].
  destruct (default_setters_least_fixpoint F x table' deps ok Hnd') with (ns0 := ns0) as [ns2 [E2 [Hd2 He2]]].
  - intros f Hf m. rewrite Hget. apply Hgraph. apply Hsame. exact Hf.
  - intros f Hf. apply Hrule. apply Hsame. exact Hf.
  - exists ns1, ns2. split; [exact E1|]. split; [exact E2|].
    assert (Hob : forall k, obtain nstate dom deps ok ns0 (map fst table) k <-> obtain nstate dom deps ok ns0 (map fst table') k).
    { intro k. split; apply obtain_ext; intro f; [apply Hsame|symmetry; apply Hsame]. }
    split.
    + intro k. rewrite Hd1, Hd2. apply Hob.
    + intro k. rewrite He1, He2. unfold resolvable.
      split; (intros [H|[Hk Hnr]]; [left; exact H|right]; split; [apply Hsame; exact Hk|]; intros [Hok Hd]; apply Hnr;
              split; [exact Hok|]; intros d Hdd; apply Hob; apply Hd; exact Hdd).
Qed.
