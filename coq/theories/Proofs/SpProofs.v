(* SpProofs.v -- C12: an invariant of the WHOLE validation model, by induction on fuel: every error in a validator's own
   list -- at whatever depth that validator runs -- has a schema path that starts with the validator's schema path,
   continues with allow_unknown crumbs only (errors of unknown fields held against an allow_unknown rules set), and, for
   an error that names its rule, ends with [field; rule] where field is the last element of its document path: the
   place in the schema where the violated constraint is spelled out.  ('__require_all__' stands for the implicit rule.)
   Same skeleton as LocProofs.v, different invariant. *)
From Coq Require Import List ZArith String Bool Arith Lia Permutation.
From Cerb Require Import Values PyOps Errors Tree Facts Pool Validate.
Import ListNotations.
Open Scope string_scope.
Open Scope list_scope.

Lemma assoc_get_In {A} (k : key) (d : list (key * A)) v : assoc_get k d = Some v -> exists k', key_eqb k k' = true /\ In (k', v) d.
Proof.
  induction d as [|[k' a] r IH]; cbn [assoc_get]; [discriminate|].
  destruct (key_eqb k k') eqn:E.
  - intro H. injection H as <-. exists k'. split; [exact E|left; reflexivity].
  - intro H. destruct (IH H) as [k2 [E2 Hi]]. exists k2. split; [exact E2|right; exact Hi].
Qed.

Section WithFacts.
  Variable F : facts.

  Definition crumbs (mid : list key) : Prop :=
    Forall (fun k => k = KStr "allow_unknown" \/ k = KStr "__allow_unknown__") mid.

  Definition located (x : ctx) (e : error) : Prop :=
    exists field mid, e_dp e = x_dp x ++ [field] /\ crumbs mid /\
      (e_sp e = SPStr "__require_all__" \/ e_sp e = SP (x_sp x ++ mid) \/
       exists r, e_rule e = Some r /\ e_sp e = SP (x_sp x ++ mid ++ [field; KStr r])).

  Definition st_good (x : ctx) (st : vstate) : Prop := Forall (located x) (s_errs st).

  Lemma located_sort x es : Forall (located x) es -> Forall (located x) (sort_errs es).
  Proof. intro H. eapply Permutation_Forall; [apply sort_errs_perm|exact H]. Qed.

  Lemma mk_error_located x field d info ch e : mk_error F x field d info ch = Ok e -> located x e.
  Proof.
    intro H. exists field, []. rewrite app_nil_r. cbn [app].
    assert (G : e_dp e = x_dp x ++ [field] /\
                (e_sp e = SPStr "__require_all__" \/ e_sp e = SP (x_sp x) \/
                 exists r, e_rule e = Some r /\ e_sp e = SP (x_sp x ++ [field; KStr r]))).
    { revert H. unfold mk_error. destruct (errdef F d) as [code rule].
      destruct rule as [r|].
      - destruct (match assoc_get field (x_schema x) with Some rs0 => Some rs0 | None => Some (c_allow_unknown (x_cfg x)) end) as [rs0|];
          [|discriminate].
        destruct (resolve_rules_set (x_cfg x) rs0) as [rs|]; [|discriminate].
        assert (S0 : forall k v i c0 e0,
                  e0 = Err (x_dp x ++ [field]) (SP (if Z.eqb code (errcode F "UNKNOWN_FIELD") then x_sp x else x_sp x ++ [field; KStr r]))
                           code (Some r) k v i c0 ->
                  e_dp e0 = x_dp x ++ [field] /\
                  (e_sp e0 = SPStr "__require_all__" \/ e_sp e0 = SP (x_sp x) \/
                   exists r0, e_rule e0 = Some r0 /\ e_sp e0 = SP (x_sp x ++ [field; KStr r0]))).
        { intros k v i c0 e0 ->. split; [reflexivity|]. cbn [e_sp e_rule].
          destruct (Z.eqb code (errcode F "UNKNOWN_FIELD")); [right; left; reflexivity|right; right; exists r; split; reflexivity]. }
        destruct (String.eqb r "nullable"); [intro H; injection H as <-; eapply S0; reflexivity|].
        destruct (String.eqb r "required").
        + intro H. injection H as <-. destruct (vmem r rs); [eapply S0; reflexivity|].
          split; [reflexivity|left; reflexivity].
        + destruct (vget r rs); [intro H; injection H as <-; eapply S0; reflexivity|discriminate].
      - intro H. injection H as <-. split; [reflexivity|right; left; reflexivity]. }
    destruct G as [G1 G2]. split; [exact G1|]. split; [constructor|exact G2].
  Qed.

  Lemma file_error_good x st field d info ch st' :
    st_good x st -> file_error F x st field d info ch = Ok st' -> st_good x st'.
  Proof.
    intros Hst H. unfold file_error in H.
    destruct (mk_error F x field d info ch) as [e| |] eqn:E; cbn [bind] in H; try discriminate.
    injection H as <-. unfold st_good, add_errors. cbn [s_errs]. apply located_sort. apply Forall_app. split; [exact Hst|].
    constructor; [|constructor]. eapply mk_error_located. exact E.
  Qed.

  Lemma file_error_good0 x st field d info st' :
    st_good x st -> file_error F x st field d info [] = Ok st' -> st_good x st'.
  Proof. apply file_error_good. Qed.

  (* a handler outcome keeps the invariant *)
  Definition out_good (x : ctx) (r : res hout) : Prop := forall o, r = Ok o -> st_good x (o_st o).

  Lemma plain_good x st : st_good x st -> out_good x (plain st).
  Proof. intros H o E. injection E as <-. exact H. Qed.

  Ltac fe H :=
    match type of H with
    | context [file_error F ?x ?st ?f ?d ?i ?c] =>
        let st' := fresh "st'" in let E := fresh "E" in
        destruct (file_error F x st f d i c) as [st'| |] eqn:E; cbn [bind] in H; try discriminate
    end.

  Ltac leaf x Hst :=
    intros o Ho;
    repeat match type of Ho with
           | context [if ?b then _ else _] => destruct b
           | context [match ?t with _ => _ end] => destruct t
           end; cbn [bind] in Ho; try discriminate;
    try (injection Ho as <-; cbn [o_st]; first [exact Hst | eapply file_error_good0; eassumption]).

  Lemma nullable_good x st c field v : st_good x st -> out_good x (h_nullable F x st c field v).
  Proof.
    intros Hst o Ho. unfold h_nullable in Ho. destruct (is_none v); [|injection Ho as <-; exact Hst].
    destruct (truthy c); cbn [bind] in Ho; [injection Ho as <-; exact Hst|]. fe Ho.
    injection Ho as <-. cbn [o_st]. eapply file_error_good0; eassumption.
  Qed.

  Lemma readonly_good x st c field v : st_good x st -> out_good x (h_readonly F x st c field v).
  Proof.
    intros Hst o Ho. unfold h_readonly in Ho. destruct (truthy c); [|injection Ho as <-; exact Hst].
    destruct (c_is_normalized (x_cfg x)); cbn [bind] in Ho; [injection Ho as <-; exact Hst|]. fe Ho.
    injection Ho as <-. cbn [o_st]. eapply file_error_good0; eassumption.
  Qed.

  Lemma type_good x st c field v : st_good x st -> out_good x (h_type F x st c field v).
  Proof.
    intros Hst o Ho. unfold h_type in Ho. destruct (negb (truthy c)); [injection Ho as <-; exact Hst|].
    destruct (match c with VStr _ => Ok [c] | VList l => Ok l | _ => Raise TypeError "_validate_type" end); cbn [bind] in Ho; try discriminate.
    destruct (any_type_matches F v a) as [[|]| |]; cbn [bind] in Ho; try discriminate; [injection Ho as <-; exact Hst|].
    fe Ho. injection Ho as <-. cbn [o_st]. eapply file_error_good0; eassumption.
  Qed.

  Lemma empty_good x st c field v : st_good x st -> out_good x (h_empty F x st c field v).
  Proof.
    intros Hst o Ho. unfold h_empty in Ho. destruct (py_len v) as [[|n]|]; try (injection Ho as <-; exact Hst).
    destruct (truthy c); cbn [bind] in Ho; [injection Ho as <-; exact Hst|]. fe Ho.
    injection Ho as <-. cbn [o_st]. eapply file_error_good0; eassumption.
  Qed.

  Lemma allowed_good x st c field v : st_good x st -> out_good x (h_allowed F x st c field v).
  Proof.
    intros Hst o Ho. unfold h_allowed, h_allowed0 in Ho. generalize dependent (allowed_members c). clear c. intros c Ho.
    destruct (is_iterable v && negb (is_str v)).
    - destruct (py_iter v); [|injection Ho as <-; exact Hst].
      destruct (filter_not_in l c) as [[|u us]| |]; cbn [bind] in Ho; try discriminate; [injection Ho as <-; exact Hst|].
      fe Ho. injection Ho as <-. eapply file_error_good0; eassumption.
    - destruct (py_in v c) as [[|]|]; try discriminate; [injection Ho as <-; exact Hst|].
      fe Ho. injection Ho as <-. eapply file_error_good0; eassumption.
  Qed.

  Lemma contains_good x st c field v : st_good x st -> out_good x (h_contains F x st c field v).
  Proof.
    intros Hst o Ho. unfold h_contains in Ho. destruct (py_iter v); [|injection Ho as <-; exact Hst].
    destruct (if negb (is_iterable c) || is_str c then Some [c] else option_map dedup (py_iter c)); [|discriminate].
    destruct (filter _ l0); [injection Ho as <-; exact Hst|].
    fe Ho. injection Ho as <-. eapply file_error_good0; eassumption.
  Qed.

  Lemma forbidden_good x st c field v : st_good x st -> out_good x (h_forbidden F x st c field v).
  Proof.
    intros Hst o Ho. unfold h_forbidden in Ho. destruct (is_sequence v && negb (is_str v)).
    - destruct (py_iter v); [|injection Ho as <-; exact Hst].
      destruct (filter_in l c) as [[|u us]| |]; cbn [bind] in Ho; try discriminate; [injection Ho as <-; exact Hst|].
      fe Ho. injection Ho as <-. eapply file_error_good0; eassumption.
    - destruct (py_in v c) as [[|]|]; try discriminate; [|injection Ho as <-; exact Hst].
      fe Ho. injection Ho as <-. eapply file_error_good0; eassumption.
  Qed.

  Lemma max_good x st c field v : st_good x st -> out_good x (h_max F x st c field v).
  Proof.
    intros Hst o Ho. unfold h_max in Ho. destruct (py_gt v c) as [[|]|]; try (injection Ho as <-; exact Hst).
    fe Ho. injection Ho as <-. eapply file_error_good0; eassumption.
  Qed.

  Lemma min_good x st c field v : st_good x st -> out_good x (h_min F x st c field v).
  Proof.
    intros Hst o Ho. unfold h_min in Ho. destruct (py_lt v c) as [[|]|]; try (injection Ho as <-; exact Hst).
    fe Ho. injection Ho as <-. eapply file_error_good0; eassumption.
  Qed.

  Lemma maxlength_good x st c field v : st_good x st -> out_good x (h_maxlength F x st c field v).
  Proof.
    intros Hst o Ho. unfold h_maxlength in Ho. destruct (is_iterable v); [|injection Ho as <-; exact Hst].
    destruct (py_len v); [|discriminate]. destruct (py_gt _ c) as [[|]|]; try discriminate; [|injection Ho as <-; exact Hst].
    fe Ho. injection Ho as <-. eapply file_error_good0; eassumption.
  Qed.

  Lemma minlength_good x st c field v : st_good x st -> out_good x (h_minlength F x st c field v).
  Proof.
    intros Hst o Ho. unfold h_minlength in Ho. destruct (is_iterable v); [|injection Ho as <-; exact Hst].
    destruct (py_len v); [|discriminate]. destruct (py_lt _ c) as [[|]|]; try discriminate; [|injection Ho as <-; exact Hst].
    fe Ho. injection Ho as <-. eapply file_error_good0; eassumption.
  Qed.

  Lemma regex_good x st c field v : st_good x st -> out_good x (h_regex F x st c field v).
  Proof.
    intros Hst o Ho. unfold h_regex in Ho. destruct v; try (injection Ho as <-; exact Hst).
    destruct c; try discriminate. destruct (Regex.regex_fullmatch s0 s) as [[|]|]; try discriminate; [injection Ho as <-; exact Hst|].
    fe Ho. injection Ho as <-. eapply file_error_good0; eassumption.
  Qed.

  Lemma file_customs_good x field : forall msgs st st', st_good x st -> file_customs F x st field msgs = Ok st' -> st_good x st'.
  Proof.
    induction msgs as [|m ms IH]; intros st st' Hst H; [injection H as <-; exact Hst|].
    cbn [file_customs] in H. fe H. eapply IH; [|exact H]. eapply file_error_good0; eassumption.
  Qed.

  Lemma check_one_good x st c field v st' : st_good x st -> check_one F x st c field v = Ok st' -> st_good x st'.
  Proof.
    intros Hst H. unfold check_one in H.
    destruct c; try discriminate; (destruct (pool_check _ v); [|discriminate]; eapply file_customs_good; eassumption).
  Qed.

  Lemma check_list_good x field v : forall cs st st', st_good x st -> check_list F x st cs field v = Ok st' -> st_good x st'.
  Proof.
    induction cs as [|c cs IH]; intros st st' Hst H; [injection H as <-; exact Hst|].
    cbn [check_list] in H. destruct (check_one F x st c field v) as [s1| |] eqn:E; cbn [bind] in H; try discriminate.
    eapply IH; [|exact H]. eapply check_one_good; eassumption.
  Qed.

  Lemma check_with_good x st c field v : st_good x st -> out_good x (h_check_with F x st c field v).
  Proof.
    intros Hst o Ho. unfold h_check_with in Ho.
    destruct c; cbn [bind] in Ho;
      try (destruct (check_one F x st _ field v) as [s1| |] eqn:E; cbn [bind] in Ho; try discriminate;
           injection Ho as <-; eapply check_one_good; eassumption).
    destruct (check_list F x st l field v) as [s1| |] eqn:E; cbn [bind] in Ho; try discriminate.
    injection Ho as <-. eapply check_list_good; eassumption.
  Qed.

  Lemma deps_sequence_good x field : forall deps st st', st_good x st -> deps_sequence F x st field deps = Ok st' -> st_good x st'.
  Proof.
    induction deps as [|d ds IH]; intros st st' Hst H; [injection H as <-; exact Hst|].
    cbn [deps_sequence] in H. destruct (lookup_field x d) as [[w|]| |]; cbn [bind] in H; try discriminate.
    - eapply IH; eassumption.
    - fe H. eapply IH; [|exact H]. eapply file_error_good0; eassumption.
  Qed.

  Lemma dependencies_good x st c field v : st_good x st -> out_good x (h_dependencies F x st c field v).
  Proof.
    intros Hst o Ho. unfold h_dependencies in Ho.
    assert (G : forall st', (match c with
                             | VList l => deps_sequence F x st field l
                             | VDict d => do r <- deps_mapping x d O [];
                                          let '(okc, info) := r in
                                          if Nat.eqb okc (List.length d) then Ok st
                                          else file_error F x st field "DEPENDENCIES_FIELD_VALUE" [VDict info] []
                             | _ => deps_sequence F x st field [c]
                             end) = Ok st' -> st_good x st').
    { intros st' H. destruct c; try (eapply deps_sequence_good; eassumption).
      destruct (deps_mapping x kvs O []) as [[okc info]| |]; cbn [bind] in H; try discriminate.
      destruct (Nat.eqb okc (List.length kvs)); [injection H as <-; exact Hst|]. eapply file_error_good0; eassumption. }
    destruct (match c with VList l => _ | VDict d => _ | _ => _ end) as [s1| |]; cbn [bind] in Ho; try discriminate.
    injection Ho as <-. cbn [o_st]. apply G. reflexivity.
  Qed.

  Lemma excludes_good x st c field v : st_good x st -> out_good x (h_excludes F x st c field v).
  Proof.
    intros Hst o Ho. unfold h_excludes in Ho.
    destruct (match assoc_get field (x_schema x) with None => None | Some rs0 => Some (resolve_rules_set (x_cfg x) rs0) end) as [[[]|]|];
      try discriminate.
    match type of Ho with context [if ?b then _ else _] => destruct b end.
    - fe Ho. injection Ho as <-. cbn [o_st]. eapply file_error_good0; [|eassumption]. exact Hst.
    - injection Ho as <-. exact Hst.
  Qed.

  (** handlers with child validators: the child's errors extend the child's path, which extends ours *)
  Section WithChild.
    Variable child : ctx -> res (list error).
    Hypothesis child_good : forall cx es, child cx = Ok es -> Forall (located cx) es.

    Lemma items_good x st c field v : st_good x st -> out_good x (h_items F child x st c field v).
    Proof.
      intros Hst o Ho. unfold h_items in Ho. destruct c; try discriminate.
      destruct (py_len v); [|injection Ho as <-; exact Hst]. destruct (py_iter v); [|injection Ho as <-; exact Hst].
      destruct (negb _).
      - fe Ho. injection Ho as <-. eapply file_error_good0; eassumption.
      - match type of Ho with context [child ?cx] => destruct (child cx) as [ces| |] eqn:Ec end; cbn [bind] in Ho; try discriminate.
        destruct ces as [|e es]; [injection Ho as <-; exact Hst|].
        fe Ho. injection Ho as <-. cbn [o_st]. eapply file_error_good; [exact Hst|eassumption].
    Qed.

    Lemma keysrules_good x st c field v : st_good x st -> out_good x (h_keysrules F child x st c field v).
    Proof.
      intros Hst o Ho. unfold h_keysrules in Ho. destruct v; try (injection Ho as <-; exact Hst).
      match type of Ho with context [child ?cx] => destruct (child cx) as [ces| |] eqn:Ec end; cbn [bind] in Ho; try discriminate.
      destruct ces as [|e es]; [injection Ho as <-; exact Hst|].
      fe Ho. injection Ho as <-. cbn [o_st]. eapply file_error_good; [exact Hst|eassumption].
    Qed.

    Lemma valuesrules_good x st c field v : st_good x st -> out_good x (h_valuesrules F child x st c field v).
    Proof.
      intros Hst o Ho. unfold h_valuesrules in Ho. destruct v; try (injection Ho as <-; exact Hst).
      match type of Ho with context [child ?cx] => destruct (child cx) as [ces| |] eqn:Ec end; cbn [bind] in Ho; try discriminate.
      destruct ces as [|e es]; [injection Ho as <-; exact Hst|].
      fe Ho. injection Ho as <-. cbn [o_st]. eapply file_error_good; [exact Hst|eassumption].
    Qed.

    Lemma schema_good x st c field v : st_good x st -> out_good x (h_schema F child x st c field v).
    Proof.
      intros Hst o Ho. unfold h_schema in Ho.
      destruct c; try (injection Ho as <-; exact Hst);
        (destruct v; try (injection Ho as <-; exact Hst);
         [ (* sequence *)
           match type of Ho with context [child ?cx] => destruct (child cx) as [ces| |] eqn:Ec end; cbn [bind] in Ho; try discriminate;
           destruct ces as [|e es]; [injection Ho as <-; exact Hst|];
           fe Ho; injection Ho as <-; cbn [o_st]; eapply file_error_good; [exact Hst|eassumption]
         | (* mapping *)
           destruct (resolve_schema (x_cfg x) _) as [[| | | | | |sch|]|]; try discriminate;
           destruct (assoc_get field (x_schema x)); try discriminate;
           destruct (resolve_rules_set (x_cfg x) v) as [rs|]; try discriminate;
           match type of Ho with context [child ?cx] => destruct (child cx) as [ces|ex s0|] eqn:Ec end; try discriminate;
           [ destruct ces as [|e es]; [injection Ho as <-; exact Hst|];
             fe Ho; injection Ho as <-; cbn [o_st]; eapply file_error_good; [exact Hst|eassumption]
           | destruct ex; try discriminate; fe Ho; injection Ho as <-; cbn [o_st]; eapply file_error_good0; eassumption ] ]).
    Qed.

    Lemma logical_good od x st c field v : st_good x st -> out_good x (h_logical F child od x st c field v).
    Proof.
      intros Hst o Ho. unfold h_logical in Ho. destruct c; try discriminate.
      destruct (logical_loop F child x (of_name od) field 0 l 0 []) as [[valids errs]| |] eqn:El; cbn [bind] in Ho; try discriminate.
      destruct (cmp_eval _ _ _); [|injection Ho as <-; exact Hst].
      fe Ho. injection Ho as <-. cbn [o_st]. eapply file_error_good; [exact Hst|eassumption].
    Qed.

    Lemma run_rule_good x st defs field v rule : st_good x st -> out_good x (run_rule F child x st defs field v rule).
    Proof.
      intro Hst. unfold run_rule.
      repeat match goal with |- out_good _ (if ?b then _ else _) => destruct b end;
        first [ apply nullable_good | apply readonly_good | apply type_good | apply empty_good | apply allowed_good
              | apply contains_good | apply forbidden_good | apply max_good | apply min_good | apply maxlength_good
              | apply minlength_good | apply regex_good | apply check_with_good | apply dependencies_good
              | apply excludes_good | apply items_good | apply keysrules_good | apply valuesrules_good | apply schema_good
              | idtac ]; try exact Hst.
      destruct (find _ (f_ofdefs F)); [apply logical_good; exact Hst|intros o Ho; discriminate].
    Qed.

    Lemma run_queue_good : forall n x st defs field v q st',
      st_good x st -> run_queue F child n x st defs field v q = Ok st' -> st_good x st'.
    Proof.
      induction n as [|n IH]; intros x st defs field v q st' Hst H.
      - destruct q; [injection H as <-; exact Hst|discriminate].
      - destruct q as [|r rest]; [injection H as <-; exact Hst|]. cbn [run_queue] in H.
        destruct (run_rule F child x st defs field v r) as [out| |] eqn:E; cbn [bind] in H; try discriminate.
        pose proof (run_rule_good x st defs field v r Hst out E) as Hout.
        destruct (o_stop out); [injection H as <-; exact Hout|]. eapply IH; eassumption.
    Qed.

    (* the child validator over {field: value}: its errors are located in the parent as well, one crumb further *)
    Lemma located_unknown x cx crumb e :
      x_dp cx = x_dp x -> x_sp cx = x_sp x ++ [KStr crumb] -> (crumb = "allow_unknown" \/ crumb = "__allow_unknown__") ->
      located cx e -> located x e.
    Proof.
      intros Hdp Hsp Hc [f' [mid [H1 [Hm H2]]]]. exists f', (KStr crumb :: mid). rewrite Hdp in H1. split; [exact H1|].
      split; [constructor; [destruct Hc as [-> | ->]; [left|right]; reflexivity|exact Hm]|].
      rewrite Hsp in H2. destruct H2 as [H2|[H2|[r [Hr H2]]]]; [left; exact H2| |].
      - right. left. rewrite <- app_assoc in H2. exact H2.
      - right. right. exists r. split; [exact Hr|]. rewrite <- app_assoc in H2. exact H2.
    Qed.

    Lemma validate_unknown_good x st field v st' :
      st_good x st -> validate_unknown F child x st field v = Ok st' -> st_good x st'.
    Proof.
      intros Hst H. unfold validate_unknown in H. destruct (truthy (c_allow_unknown (x_cfg x))).
      - destruct (c_allow_unknown (x_cfg x)); try (injection H as <-; exact Hst);
          (match type of H with context [child ?cx] => destruct (child cx) as [ces| |] eqn:Ec end; cbn [bind] in H; try discriminate;
           injection H as <-; destruct ces as [|e es]; [exact Hst|];
           unfold st_good, add_errors; cbn [s_errs]; apply located_sort; apply Forall_app; split; [exact Hst|];
           apply child_good in Ec; eapply Forall_impl; [|exact Ec];
           intros e0 He0; eapply located_unknown; [| | |exact He0]; [reflexivity|reflexivity|];
           destruct (c_is_child (x_cfg x)); [left|right]; reflexivity).
      - eapply file_error_good0; eassumption.
    Qed.

    Lemma validate_fields_good x : forall fields st st',
      st_good x st -> validate_fields F child x st fields = Ok st' -> st_good x st'.
    Proof.
      induction fields as [|[field v] rest IH]; intros st st' Hst H; [injection H as <-; exact Hst|].
      cbn [validate_fields] in H. destruct (c_ignore_none (x_cfg x) && is_none v); [eapply IH; eassumption|].
      destruct (assoc_get field (x_schema x)) as [defs|].
      - destruct (validate_definitions F child x st defs field) as [s1| |] eqn:E; cbn [bind] in H; try discriminate.
        eapply IH; [|exact H]. unfold validate_definitions in E.
        destruct (resolve_rules_set (x_cfg x) defs) as [[| | | | | |d|]|]; try discriminate.
        destruct (assoc_get field (x_doc x)); try discriminate. eapply run_queue_good; eassumption.
      - destruct (validate_unknown F child x st field v) as [s1| |] eqn:E; cbn [bind] in H; try discriminate.
        eapply IH; [|exact H]. eapply validate_unknown_good; eassumption.
    Qed.
  End WithChild.

  Lemma file_each_good x d : forall fields st st', st_good x st -> file_each F x st d fields = Ok st' -> st_good x st'.
  Proof.
    induction fields as [|f fs IH]; intros st st' Hst H; [injection H as <-; exact Hst|].
    cbn [file_each] in H. fe H. eapply IH; [|exact H]. eapply file_error_good0; eassumption.
  Qed.

  Lemma validate_required_good x st st' : st_good x st -> validate_required F x st = Ok st' -> st_good x st'.
  Proof.
    intros Hst H. unfold validate_required in H.
    destruct (required_set x (x_schema x)) as [req| |]; cbn [bind] in H; try discriminate.
    destruct (file_each F x st "REQUIRED_FIELD" _) as [s1| |] eqn:E1; cbn [bind] in H; try discriminate.
    pose proof (file_each_good _ _ _ _ _ Hst E1) as H1.
    destruct (s_unreq st); [injection H as <-; exact H1|].
    destruct (existsb _ _); [injection H as <-; exact H1|]. eapply file_each_good; eassumption.
  Qed.


  (** MAIN: every error in the list of a validator -- at any nesting depth of schema and document -- is located *)
  Theorem validate_schema_paths_located : forall fuel x errs, validate_ctx F fuel x = Ok errs -> Forall (located x) errs.
  Proof.
    induction fuel as [|fuel IH]; intros x errs H; [discriminate|].
    cbn [validate_ctx] in H.
    destruct (validate_fields F (validate_ctx F fuel) x {| s_errs := []; s_unreq := [] |} (x_doc x)) as [st1| |] eqn:E1;
      cbn [bind] in H; try discriminate.
    assert (H1 : st_good x st1).
    { eapply (validate_fields_good (validate_ctx F fuel) IH); [|exact E1]. constructor. }
    destruct (x_update x); cbn [bind] in H.
    - injection H as <-. exact H1.
    - destruct (validate_required F x st1) as [st2| |] eqn:E2; cbn [bind] in H; try discriminate.
      injection H as <-. eapply validate_required_good; eassumption.
  Qed.
End WithFacts.
