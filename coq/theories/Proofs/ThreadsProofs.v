(* ThreadsProofs.v -- C18: non-interference.  Let abs be an abstraction of the shared store.  If every operation
   of every thread (a) leaves abs unchanged and (b) computes its local result from abs of the store only, then
   under EVERY schedule each thread's local state is the one it reaches executing the same number of its own
   operations alone, from any store with the same abstract value.
   Instances (Properties/C18.v): writes that store equal values (in-place expansion of a canonical schema:
   C15_canonical_is_fixed_point), monotone cache insertions whose hits are sound (C08), publication of a
   complete lazily-created object. *)
From Coq Require Import List Arith Bool Lia.
From Cerb Require Import Threads.
Import ListNotations.
Open Scope list_scope.

Section NonInterference.
  Variables St Lo A : Type.
  Variable abs : St -> A.

  Definition benign (o : op St Lo) : Prop :=
    (forall s l, abs (fst (o s l)) = abs s) /\
    (forall s s' l, abs s = abs s' -> snd (o s l) = snd (o s' l)).

  Definition all_benign (ts : list (thread St Lo)) : Prop := Forall (fun t => Forall benign (snd t)) ts.

  Lemma step_nth_abs i : forall ts s, all_benign ts ->
    abs (fst (step_nth St Lo i s ts)) = abs s /\ all_benign (snd (step_nth St Lo i s ts)).
  Proof.
    induction i as [|i IH]; intros ts s Hb.
    - destruct ts as [|[l ops] rest]; [split; [reflexivity|exact Hb]|].
      cbn [step_nth]. destruct ops as [|o ops']; [split; [reflexivity|exact Hb]|].
      inversion Hb as [|? ? Ht Hrest]; subst. cbn [snd] in Ht. inversion Ht as [|? ? Ho Hops]; subst.
      destruct (o s l) as [s' l'] eqn:E. cbn [fst snd]. split.
      + destruct Ho as [Ho _]. specialize (Ho s l). rewrite E in Ho. exact Ho.
      + constructor; [exact Hops|exact Hrest].
    - destruct ts as [|[l ops] rest]; [split; [reflexivity|exact Hb]|].
      cbn [step_nth]. inversion Hb as [|? ? Ht Hrest]; subst.
      destruct (IH rest s Hrest) as [H1 H2].
      destruct (step_nth St Lo i s rest) as [s' rest']. cbn [fst snd] in *.
      split; [exact H1|constructor; assumption].
  Qed.

  (* local state and remaining program of thread i *)
  Definition nth_thread (i : nat) (ts : list (thread St Lo)) : option (thread St Lo) := nth_error ts i.

  Lemma step_nth_other i j : i <> j -> forall ts s,
    nth_thread j (snd (step_nth St Lo i s ts)) = nth_thread j ts.
  Proof.
    revert j. induction i as [|i IH]; intros j Hij ts s.
    - destruct ts as [|[l ops] rest]; [reflexivity|]. cbn [step_nth].
      destruct ops as [|o ops']; [reflexivity|]. destruct (o s l) as [s' l']. cbn [snd].
      destruct j; [contradiction|reflexivity].
    - destruct ts as [|[l ops] rest]; [reflexivity|]. cbn [step_nth].
      destruct (step_nth St Lo i s rest) as [s' rest'] eqn:E. cbn [snd].
      destruct j as [|j]; [reflexivity|]. unfold nth_thread. cbn [nth_error].
      specialize (IH j (fun H => Hij (f_equal Datatypes.S H)) rest s). rewrite E in IH. exact IH.
  Qed.

  (* the thread that moves does one step of its alone-execution, from a store that is abstractly the same *)
  Lemma step_nth_self i : forall ts s t, nth_thread i ts = Some t ->
    nth_thread i (snd (step_nth St Lo i s ts)) = Some (snd (alone St Lo 1 s t)).
  Proof.
    induction i as [|i IH]; intros ts s t H.
    - destruct ts as [|[l ops] rest]; [discriminate|]. injection H as <-.
      cbn [step_nth alone snd fst]. destruct ops as [|o ops']; [reflexivity|].
      destruct (o s l) as [s' l']. reflexivity.
    - destruct ts as [|[l ops] rest]; [discriminate|]. unfold nth_thread in H. cbn [nth_error] in H.
      cbn [step_nth]. specialize (IH rest s t H).
      destruct (step_nth St Lo i s rest) as [s' rest']. cbn [snd] in *. exact IH.
  Qed.

  (* alone-execution is insensitive to the concrete store, given benign operations *)
  Lemma alone_abs k : forall s s' t, Forall benign (snd t) -> abs s = abs s' ->
    snd (alone St Lo k s t) = snd (alone St Lo k s' t) /\ abs (fst (alone St Lo k s t)) = abs s.
  Proof.
    induction k as [|k IH]; intros s s' [l ops] Hb Ha; [split; reflexivity|].
    cbn [alone snd fst]. destruct ops as [|o ops']; [split; reflexivity|].
    cbn [snd] in Hb. inversion Hb as [|? ? Ho Hops]; subst.
    destruct Ho as [Ho1 Ho2].
    pose proof (Ho2 s s' l Ha) as E2. pose proof (Ho1 s l) as E1. pose proof (Ho1 s' l) as E1'.
    destruct (o s l) as [s1 l1]. destruct (o s' l) as [s1' l1']. cbn [fst snd] in *. subst l1'.
    assert (Ha1 : abs s1 = abs s1') by congruence.
    destruct (IH s1 s1' (l1, ops') Hops Ha1) as [H1 H2]. split; [exact H1|congruence].
  Qed.

  Lemma alone_succ k : forall s t, Forall benign (snd t) ->
    snd (alone St Lo (Datatypes.S k) s t) = snd (alone St Lo 1 (fst (alone St Lo k s t)) (snd (alone St Lo k s t))).
  Proof.
    induction k as [|k IH]; intros s [l ops] Hb; [reflexivity|].
    cbn [alone snd fst]. destruct ops as [|o ops']; [reflexivity|].
    cbn [snd] in Hb. inversion Hb as [|? ? Ho Hops]; subst.
    destruct (o s l) as [s1 l1]. apply (IH s1 (l1, ops') Hops).
  Qed.

  Lemma alone_benign k : forall s t, Forall benign (snd t) -> Forall benign (snd (snd (alone St Lo k s t))).
  Proof.
    induction k as [|k IH]; intros s [l ops] Hb; [exact Hb|].
    cbn [alone snd fst]. destruct ops as [|o ops']; [exact Hb|].
    cbn [snd] in Hb. inversion Hb as [|? ? Ho Hops]; subst.
    destruct (o s l) as [s1 l1]. apply (IH s1 (l1, ops') Hops).
  Qed.

  Fixpoint count (i : nat) (sched : list nat) : nat :=
    match sched with [] => 0 | j :: r => (if Nat.eqb i j then 1 else 0) + count i r end.

  (* MAIN: under every schedule, thread i is where it would be after executing as many of its own operations alone *)
  Theorem non_interference : forall sched s ts i t,
    all_benign ts -> nth_thread i ts = Some t ->
    forall s0, abs s0 = abs s ->
    nth_thread i (snd (run St Lo sched s ts)) = Some (snd (alone St Lo (count i sched) s0 t)).
  Proof.
    induction sched as [|j sched IH]; intros s ts i t Hb Ht s0 Hs0; [exact Ht|].
    cbn [run count].
    destruct (step_nth_abs j ts s Hb) as [Habs Hb'].
    destruct (step_nth St Lo j s ts) as [s' ts'] eqn:E. cbn [fst snd] in Habs, Hb'.
    assert (Hti : Forall benign (snd t)).
    { unfold all_benign in Hb. rewrite Forall_forall in Hb. apply Hb. eapply nth_error_In. exact Ht. }
    destruct (Nat.eqb i j) eqn:Eij.
    - apply Nat.eqb_eq in Eij. subst j.
      pose proof (step_nth_self i ts s t Ht) as Hself. rewrite E in Hself. cbn [snd] in Hself.
      rewrite (IH s' ts' i _ Hb' Hself (fst (alone St Lo 1 s0 t))).
      + (* one step from s, then the rest alone from s0's successor = (1 + n) steps alone from s0 *)
        f_equal.
        destruct (alone_abs 1 s s0 t Hti (eq_sym Hs0)) as [E1 _].
        rewrite E1. clear.
        destruct t as [l ops]. change (1 + count i sched) with (Datatypes.S (count i sched)).
        cbn [alone snd fst]. destruct ops as [|o ops'].
        * destruct (count i sched); reflexivity.
        * destruct (o s0 l) as [s1 l1]. reflexivity.
      + destruct (alone_abs 1 s0 s t Hti Hs0) as [_ E2]. rewrite E2. congruence.
    - apply Nat.eqb_neq in Eij.
      pose proof (step_nth_other j i (fun H => Eij (eq_sym H)) ts s) as Hother. rewrite E in Hother. cbn [snd] in Hother.
      rewrite Ht in Hother.
      apply (IH s' ts' i t Hb' Hother s0). congruence.
  Qed.
End NonInterference.
