(* TreeProofs.v -- C11: the error-tree model contains exactly the reported errors
   at their paths.  All statements hold for ARBITRARY error lists (any nesting,
   any paths), by induction over paths and over the nested error structure. *)
From Coq Require Import List ZArith String Bool Lia Permutation.
From Cerb Require Import Values PyOps Errors Tree.
Import ListNotations.
Open Scope list_scope.

Definition is_some {A} (o : option A) : bool := match o with Some _ => true | None => false end.

Lemma path_eqb_sym p q : path_eqb p q = path_eqb q p.
Proof.
  destruct (path_eqb p q) eqn:E.
  - apply path_eqb_eq in E; subst. symmetry; apply path_eqb_refl.
  - destruct (path_eqb q p) eqn:E'; [|reflexivity].
    apply path_eqb_eq in E'; subst. rewrite path_eqb_refl in E. discriminate.
Qed.

(** ** kids_update *)
Lemma get_kids_update_same k f kids :
  assoc_get k (kids_update k f kids) =
  Some (f (match assoc_get k kids with Some t => t | None => empty_tree end)).
Proof.
  induction kids as [|[k' t] r IH]; simpl.
  - rewrite key_eqb_refl. reflexivity.
  - destruct (key_eqb k k') eqn:E; simpl; rewrite E; auto.
Qed.

Lemma get_kids_update_other k k' f kids :
  key_eqb k' k = false -> assoc_get k' (kids_update k f kids) = assoc_get k' kids.
Proof.
  intro H. induction kids as [|[k2 t] r IH]; simpl.
  - rewrite H. reflexivity.
  - destruct (key_eqb k k2) eqn:E; simpl.
    + apply key_eqb_eq in E; subst. rewrite H. reflexivity.
    + destruct (key_eqb k' k2); auto.
Qed.

Lemma fetch_node_empty p :
  fetch_node empty_tree p = match p with [] => Some empty_tree | _ :: _ => None end.
Proof. destruct p; reflexivity. Qed.

Lemma fetch_errors_empty p : fetch_errors empty_tree p = [].
Proof. unfold fetch_errors. rewrite fetch_node_empty. destruct p; reflexivity. Qed.

(** ** insert *)
Lemma fetch_errors_insert q e : forall t p,
  fetch_errors (insert q e t) p =
  if path_eqb p q then sort_errs (fetch_errors t p ++ [e]) else fetch_errors t p.
Proof.
  induction q as [|k q IH]; intros [errs kids] p.
  - destruct p; reflexivity.
  - destruct p as [|k' p']; [reflexivity|].
    unfold fetch_errors. cbn [insert fetch_node node_kids path_eqb].
    destruct (key_eqb k' k) eqn:E.
    + apply key_eqb_eq in E; subst k'. rewrite get_kids_update_same. cbn [andb].
      specialize (IH (match assoc_get k kids with Some t => t | None => empty_tree end) p').
      unfold fetch_errors in IH. rewrite IH.
      destruct (assoc_get k kids) as [c|]; [reflexivity|].
      rewrite fetch_node_empty. destruct p'; reflexivity.
    + rewrite get_kids_update_other by exact E. reflexivity.
Qed.

Lemma fetch_errors_insert_perm q e t p :
  Permutation (fetch_errors (insert q e t) p)
              (fetch_errors t p ++ (if path_eqb q p then [e] else [])).
Proof.
  rewrite fetch_errors_insert, (path_eqb_sym q p).
  destruct (path_eqb p q).
  - symmetry. apply sort_errs_perm.
  - rewrite app_nil_r. reflexivity.
Qed.

Lemma fetch_node_insert q e : forall t p,
  is_some (fetch_node (insert q e t) p) = is_some (fetch_node t p) || is_prefix p q.
Proof.
  induction q as [|k q IH]; intros [errs kids] p.
  - destruct p as [|k' p']; [reflexivity|].
    cbn [insert fetch_node node_kids is_prefix]. rewrite orb_false_r. reflexivity.
  - destruct p as [|k' p']; [reflexivity|].
    cbn [insert fetch_node node_kids is_prefix].
    destruct (key_eqb k' k) eqn:E.
    + apply key_eqb_eq in E; subst k'. rewrite get_kids_update_same. cbn [andb].
      rewrite IH. destruct (assoc_get k kids) as [c|]; [reflexivity|].
      rewrite fetch_node_empty. destruct p'; reflexivity.
    + rewrite get_kids_update_other by exact E. cbn [andb]. rewrite orb_false_r. reflexivity.
Qed.

Definition kids_errors (kids : list (key * tree)) : list error :=
  flat_map (fun kc => all_errors (snd kc)) kids.

Lemma all_errors_node errs kids : all_errors (Node errs kids) = errs ++ kids_errors kids.
Proof.
  cbn [all_errors]. f_equal. unfold kids_errors.
  induction kids as [|[k c] r IH]; [reflexivity|]. cbn [flat_map snd]. rewrite <- IH. reflexivity.
Qed.

Lemma all_errors_insert q e : forall t,
  Permutation (all_errors (insert q e t)) (e :: all_errors t).
Proof.
  induction q as [|k q IH]; intros [errs kids].
  - cbn [insert]. rewrite !all_errors_node.
    rewrite <- sort_errs_perm. rewrite <- app_assoc. cbn [app].
    symmetry. apply Permutation_middle.
  - cbn [insert]. rewrite !all_errors_node.
    assert (H : Permutation (kids_errors (kids_update k (insert q e) kids))
                            (e :: kids_errors kids)).
    { induction kids as [|[k' c] r IHr].
      - cbn [kids_update kids_errors flat_map snd]. rewrite app_nil_r.
        rewrite IH. reflexivity.
      - cbn [kids_update]. destruct (key_eqb k k').
        + unfold kids_errors. cbn [flat_map snd]. rewrite IH. reflexivity.
        + unfold kids_errors in *. cbn [flat_map snd]. rewrite IHr.
          symmetry. apply Permutation_middle. }
    rewrite H. symmetry. apply Permutation_middle.
Qed.

Section WithMasks.
  Variable m : masks.
  Variable kd : tkind.

  Definition atp (p : path) (e : error) : bool := path_eqb (path_of kd e) p.

  Definition nonempty (p : path) : bool := match p with [] => false | _ :: _ => true end.

  Lemma tree_add_unfold e t :
    tree_add m kd e t =
    if nonempty (path_of kd e) && is_group m e
    then tree_add_all m kd (e_children e) (insert (path_of kd e) e t)
    else insert (path_of kd e) e t.
  Proof. destruct e as [dp sp c r k v i ch]. cbn [tree_add]. destruct (path_of kd _); reflexivity. Qed.

  Lemma tflat_err_unfold e :
    tflat_err m kd e =
    e :: (if nonempty (path_of kd e) && is_group m e then tflat m kd (e_children e) else []).
  Proof. destruct e as [dp sp c r k v i ch]. cbn [tflat_err]. destruct (path_of kd _); reflexivity. Qed.

  Lemma tree_add_all_cons e l t :
    tree_add_all m kd (e :: l) t = tree_add_all m kd l (tree_add m kd e t).
  Proof. reflexivity. Qed.

  (** *** Errors found at a path *)
  Definition add_fetch_spec (e : error) : Prop :=
    forall t p, Permutation (fetch_errors (tree_add m kd e t) p)
                            (fetch_errors t p ++ filter (atp p) (tflat_err m kd e)).

  Lemma add_all_fetch l :
    Forall add_fetch_spec l ->
    forall t p, Permutation (fetch_errors (tree_add_all m kd l t) p)
                            (fetch_errors t p ++ filter (atp p) (tflat m kd l)).
  Proof.
    induction 1 as [|e l He _ IH]; intros t p.
    - cbn. rewrite app_nil_r. reflexivity.
    - unfold add_fetch_spec in He. rewrite tree_add_all_cons, IH, He. unfold tflat. cbn [flat_map].
      rewrite filter_app, app_assoc. reflexivity.
  Qed.

  Lemma tree_add_fetch e : add_fetch_spec e.
  Proof.
    induction e as [dp sp c r k v i ch IH] using error_ind'.
    intros t p. set (e := Err dp sp c r k v i ch) in *.
    rewrite tree_add_unfold, tflat_err_unfold.
    assert (Hins : forall t, Permutation (fetch_errors (insert (path_of kd e) e t) p)
                                         (fetch_errors t p ++ filter (atp p) [e])).
    { intro t0. rewrite fetch_errors_insert_perm. cbn [filter]. unfold atp.
      destruct (path_eqb (path_of kd e) p); reflexivity. }
    change (e_children e) with ch.
    destruct (nonempty (path_of kd e) && is_group m e).
    - rewrite (add_all_fetch _ IH), Hins.
      change (e :: tflat m kd ch) with ([e] ++ tflat m kd ch).
      rewrite filter_app, app_assoc. reflexivity.
    - apply Hins.
  Qed.

  Theorem build_fetch errs p :
    Permutation (fetch_errors (build m kd errs) p) (filter (atp p) (tflat m kd errs)).
  Proof.
    unfold build. rewrite add_all_fetch.
    - rewrite fetch_errors_empty. reflexivity.
    - apply Forall_forall. intros e _. apply tree_add_fetch.
  Qed.

  (** *** Nothing else is in the tree *)
  Definition add_all_spec (e : error) : Prop :=
    forall t, Permutation (all_errors (tree_add m kd e t)) (all_errors t ++ tflat_err m kd e).

  Lemma add_all_all l :
    Forall add_all_spec l ->
    forall t, Permutation (all_errors (tree_add_all m kd l t)) (all_errors t ++ tflat m kd l).
  Proof.
    induction 1 as [|e l He _ IH]; intros t.
    - cbn. rewrite app_nil_r. reflexivity.
    - unfold add_all_spec in He. rewrite tree_add_all_cons, IH, He. unfold tflat. cbn [flat_map].
      rewrite app_assoc. reflexivity.
  Qed.

  Lemma tree_add_all_errors e : add_all_spec e.
  Proof.
    induction e as [dp sp c r k v i ch IH] using error_ind'.
    intros t. set (e := Err dp sp c r k v i ch) in *.
    rewrite tree_add_unfold, tflat_err_unfold.
    assert (Hins : forall t, Permutation (all_errors (insert (path_of kd e) e t))
                                         (all_errors t ++ [e])).
    { intro t0. rewrite all_errors_insert. apply Permutation_cons_append. }
    change (e_children e) with ch.
    destruct (nonempty (path_of kd e) && is_group m e).
    - rewrite (add_all_all _ IH), Hins.
      change (e :: tflat m kd ch) with ([e] ++ tflat m kd ch).
      rewrite app_assoc. reflexivity.
    - apply Hins.
  Qed.

  Theorem build_all_errors errs :
    Permutation (all_errors (build m kd errs)) (tflat m kd errs).
  Proof.
    unfold build. rewrite add_all_all.
    - reflexivity.
    - apply Forall_forall. intros e _. apply tree_add_all_errors.
  Qed.

  (** *** Which nodes exist *)
  Definition under (p : path) (e : error) : bool := is_prefix p (path_of kd e).

  Definition add_node_spec (e : error) : Prop :=
    forall t p, is_some (fetch_node (tree_add m kd e t) p) =
                is_some (fetch_node t p) || existsb (under p) (tflat_err m kd e).

  Lemma add_all_node l :
    Forall add_node_spec l ->
    forall t p, is_some (fetch_node (tree_add_all m kd l t) p) =
                is_some (fetch_node t p) || existsb (under p) (tflat m kd l).
  Proof.
    induction 1 as [|e l He _ IH]; intros t p.
    - cbn. rewrite orb_false_r. reflexivity.
    - unfold add_node_spec in He. rewrite tree_add_all_cons, IH, He. unfold tflat. cbn [flat_map].
      rewrite existsb_app, orb_assoc. reflexivity.
  Qed.

  Lemma tree_add_node e : add_node_spec e.
  Proof.
    induction e as [dp sp c r k v i ch IH] using error_ind'.
    intros t p. set (e := Err dp sp c r k v i ch) in *.
    rewrite tree_add_unfold, tflat_err_unfold.
    assert (Hins : forall t, is_some (fetch_node (insert (path_of kd e) e t) p) =
                             is_some (fetch_node t p) || existsb (under p) [e]).
    { intro t0. rewrite fetch_node_insert. cbn [existsb]. rewrite orb_false_r. reflexivity. }
    change (e_children e) with ch.
    destruct (nonempty (path_of kd e) && is_group m e).
    - rewrite (add_all_node _ IH), Hins.
      change (e :: tflat m kd ch) with ([e] ++ tflat m kd ch).
      rewrite existsb_app, orb_assoc. reflexivity.
    - apply Hins.
  Qed.

  Theorem build_node errs p :
    is_some (fetch_node (build m kd errs) p) =
    match p with [] => true | _ :: _ => existsb (under p) (tflat m kd errs) end.
  Proof.
    unfold build. rewrite add_all_node.
    - rewrite fetch_node_empty. destruct p; reflexivity.
    - apply Forall_forall. intros e _. apply tree_add_node.
  Qed.

  (** *** Emptiness *)
  Lemma insert_not_empty q e t : tree_is_empty (insert q e t) = false.
  Proof.
    destruct t as [errs kids]. destruct q as [|k q]; cbn [insert].
    - assert (H : Permutation (errs ++ [e]) (sort_errs (errs ++ [e]))) by apply sort_errs_perm.
      destruct (sort_errs (errs ++ [e])) eqn:E; [|reflexivity].
      apply Permutation_sym, Permutation_nil in H. destruct errs; discriminate.
    - destruct errs; [|reflexivity]. destruct kids as [|[k' c] r]; cbn [kids_update].
      + reflexivity.
      + destruct (key_eqb k k'); reflexivity.
  Qed.

  Lemma all_errors_empty_tree t : tree_is_empty t = true -> all_errors t = [].
  Proof. destruct t as [[|] [|]]; try discriminate. reflexivity. Qed.

  Theorem build_empty_iff errs :
    tree_is_empty (build m kd errs) = true <-> errs = [].
  Proof.
    split.
    - intro H. apply all_errors_empty_tree in H.
      pose proof (build_all_errors errs) as P. rewrite H in P.
      apply Permutation_nil in P. destruct errs as [|e l]; [reflexivity|].
      unfold tflat in P. cbn [flat_map] in P. rewrite tflat_err_unfold in P. discriminate.
    - intros ->. reflexivity.
  Qed.

  (** *** tflat is the plain flattening when group errors have non-empty paths
      (the validator always appends the field to the path: see ValidateProofs). *)
  Definition nonempty_paths (e : error) : Prop := path_of kd e <> [].

  Lemma flat_map_eq_Forall (f g : error -> list error) l :
    Forall (fun x => Forall nonempty_paths (f x) -> g x = f x) l ->
    Forall nonempty_paths (flat_map f l) -> flat_map g l = flat_map f l.
  Proof.
    induction 1 as [|x xs Hx _ IH]; [reflexivity|]. cbn [flat_map]. intro H.
    apply Forall_app in H as [H1 H2]. rewrite Hx, IH by assumption. reflexivity.
  Qed.

  Lemma tflat_err_flatten e :
    Forall nonempty_paths (flatten_err m e) -> tflat_err m kd e = flatten_err m e.
  Proof.
    induction e as [dp sp c r k v i ch IH] using error_ind'.
    set (e := Err dp sp c r k v i ch) in *.
    rewrite tflat_err_unfold, flatten_err_unfold. intro H.
    inversion H as [|? ? Hne Hrest]; subst. f_equal. unfold nonempty_paths in Hne.
    destruct (path_of kd e) eqn:Hp; [contradiction Hne; reflexivity|]. cbn [nonempty andb].
    change (e_children e) with ch in *. revert Hrest.
    destruct (is_group m e); [|reflexivity]. intro Hrest.
    apply flat_map_eq_Forall; assumption.
  Qed.

  Lemma tflat_flatten errs :
    Forall nonempty_paths (flatten m errs) -> tflat m kd errs = flatten m errs.
  Proof.
    unfold tflat, flatten. induction errs as [|e l IH]; [reflexivity|].
    cbn [flat_map]. intro H. apply Forall_app in H as [H1 H2].
    rewrite tflat_err_flatten by exact H1. rewrite IH by exact H2. reflexivity.
  Qed.
End WithMasks.

(** ** Membership test / lookup by error definition agree with the node's list *)
Lemma node_contains_code_iff n c :
  node_contains_code n c = true <-> exists e, In e (node_errs n) /\ e_code e = c.
Proof.
  unfold node_contains_code, errlist_has_code. rewrite existsb_exists.
  split; intros [e [H1 H2]]; exists e; split; auto; apply Z.eqb_eq; auto.
Qed.

Lemma node_get_code_some n c e :
  node_get_code n c = Some e -> In e (node_errs n) /\ e_code e = c.
Proof.
  unfold node_get_code. intro H. apply find_some in H as [H1 H2].
  split; [exact H1|apply Z.eqb_eq; exact H2].
Qed.

Lemma node_get_code_none_iff n c :
  node_get_code n c = None <-> node_contains_code n c = false.
Proof.
  unfold node_get_code, node_contains_code, errlist_has_code.
  induction (node_errs n) as [|x xs IH]; cbn [find existsb]; [tauto|].
  destruct (Z.eqb (e_code x) c); cbn [orb]; [split; discriminate|exact IH].
Qed.
