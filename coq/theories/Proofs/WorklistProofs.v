(* WorklistProofs.v -- C17: the default-setter work-list always terminates within
   the fuel the model gives itself (n(n+1)+1 iterations for n pending setters),
   for ARBITRARY setters (any [call] that itself returns). *)
From Coq Require Import List Bool Arith Lia.
From Cerb Require Import Values Worklist.
Import ListNotations.
Open Scope list_scope.

Definition rot (l : list key) : list key :=
  match l with [] => [] | x :: r => r ++ [x] end.

Fixpoint rotn (n : nat) (l : list key) : list key :=
  match n with O => l | S n' => rotn n' (rot l) end.

Fixpoint tri (m : nat) : nat := match m with O => O | S m' => S m' + tri m' end.

Lemma rot_length l : length (rot l) = length l.
Proof. destruct l; simpl; [reflexivity|]. rewrite app_length. simpl. lia. Qed.

Lemma rotn_app a : forall b, rotn (length a) (a ++ b) = b ++ a.
Proof.
  induction a as [|x a IH]; intro b; simpl.
  - rewrite app_nil_r. reflexivity.
  - rewrite <- app_assoc. rewrite IH. rewrite <- app_assoc. reflexivity.
Qed.

Lemma rotn_full l : rotn (length l) l = l.
Proof. pose proof (rotn_app l []) as H. rewrite app_nil_r in H. exact H. Qed.

Lemma tri_le m : tri m <= m * (m + 1).
Proof. induction m as [|m IH]; simpl; [lia|]. nia. Qed.

Lemma tri_pred m : 1 <= m -> tri m = m + tri (pred m).
Proof. destruct m; simpl; lia. Qed.

Lemma In_existsb_path (p : list key) seen : In p seen -> existsb (path_eqb p) seen = true.
Proof.
  intro H. apply existsb_exists. exists p. split; [exact H|apply path_eqb_refl].
Qed.

Section Termination.
  Variable St : Type.
  Variable call : St -> key -> res (disp St).
  Variable circular : St -> list key -> res St.
  Hypothesis call_returns : forall st f, call st f <> OutOfFuel.
  Hypothesis circular_returns : forall st l, circular st l <> OutOfFuel.

  Notation loop := (wl_loop St call circular).

  (* if after j more consecutive re-queues the pending list is certainly in [seen],
     then j + tri(m-1) iterations suffice (m = number of pending fields) *)
  Lemma loop_terminates : forall m j st pending seen fuel,
    length pending = m -> 1 <= j -> In (rotn j pending) seen ->
    j + tri (pred m) <= fuel ->
    loop fuel st pending seen <> OutOfFuel.
  Proof.
    induction m as [m IHm] using lt_wf_ind.
    induction j as [|j IHj]; intros st pending seen fuel Hlen Hj Hin Hfuel; [lia|].
    destruct pending as [|f rest]; [destruct fuel; simpl; discriminate|].
    simpl in Hlen. destruct m as [|m']; [discriminate|]. injection Hlen as Hlen.
    simpl pred in Hfuel.
    destruct fuel as [|fuel']; [lia|].
    cbn [wl_loop].
    destruct (call st f) as [d|e s|] eqn:Hc; cbn [bind];
      [|discriminate|exfalso; exact (call_returns _ _ Hc)].
    assert (Hshort : forall s, (if existsb (path_eqb rest) seen then circular s rest
                                else loop fuel' s rest (rest :: seen)) <> OutOfFuel).
    { intro s. destruct (existsb (path_eqb rest) seen); [apply circular_returns|].
      destruct rest as [|g rest']; [destruct fuel'; simpl; discriminate|].
      assert (H1 : 1 <= m') by (simpl in Hlen; lia).
      apply (IHm m') with (j := m').
      - lia.
      - exact Hlen.
      - exact H1.
      - left. rewrite <- Hlen. symmetry. apply rotn_full.
      - rewrite (tri_pred m') in Hfuel by exact H1. lia. }
    destruct d as [s| |s]; [apply Hshort| |apply Hshort].
    (* Requeue *)
    destruct (existsb (path_eqb (rest ++ [f])) seen) eqn:Hex; [apply circular_returns|].
    destruct j as [|j'].
    - (* j = 1: rot pending is in seen, so the test above cannot have failed *)
      exfalso. simpl in Hin. rewrite (In_existsb_path _ _ Hin) in Hex. discriminate.
    - apply IHj.
      + rewrite app_length. simpl. lia.
      + lia.
      + right. exact Hin.
      + simpl pred. lia.
  Qed.

  Theorem wl_run_terminates st pending : wl_run St call circular st pending <> OutOfFuel.
  Proof.
    unfold wl_run, wl_fuel.
    destruct pending as [|f rest]; [simpl; discriminate|].
    set (n := length (f :: rest)).
    cbn [wl_loop].
    destruct (call st f) as [d|e s|] eqn:Hc; cbn [bind];
      [|discriminate|exfalso; exact (call_returns _ _ Hc)].
    assert (Hn : n = S (length rest)) by reflexivity.
    assert (Hshort : forall s, (if existsb (path_eqb rest) [] then circular s rest
                                else loop (n * (n + 1)) s rest [rest]) <> OutOfFuel).
    { intro s. cbn [existsb].
      destruct rest as [|g rest'] eqn:Hr; [destruct (n * (n + 1)); simpl; discriminate|]. rewrite <- Hr in *.
      apply loop_terminates with (m := length rest) (j := length rest).
      - reflexivity.
      - subst rest. simpl. lia.
      - left. symmetry. apply rotn_full.
      - pose proof (tri_le (pred (length rest))). nia. }
    destruct d as [s| |s]; [apply Hshort| |apply Hshort].
    cbn [existsb].
    apply loop_terminates with (m := n) (j := n).
    - rewrite app_length. simpl. lia.
    - lia.
    - left. assert (Hl : length (rest ++ [f]) = n) by (rewrite app_length; simpl; lia).
      rewrite <- Hl. symmetry. apply rotn_full.
    - pose proof (tri_le (pred n)). nia.
  Qed.
End Termination.
