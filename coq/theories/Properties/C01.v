(* C01 -- validation verdict and error set follow the documented rule semantics.
   The reference interpreter of the documented semantics is the validation model instantiated at the
   DOCUMENTED facts (Model/SpecFacts.v); the harness diffs the real code against it on every run.
   Proved here:
   (1) the facts the validation model reads from the current source ARE the documented ones
       (re-checked by computation on every run: this is the obligation a changed drop-list, priority order,
       type table, *of operator, forwarded keyword or crumb index breaks);
   (2) the queue lemma: the code-shaped rule queue (pop(0), drop-lists removing from the remaining list,
       break on a truthy result) evaluates exactly the rules the declarative skip-set reading prescribes,
       for arbitrary rule handlers and rule sets;
   (3) verdict = no errors. *)
From Coq Require Import List ZArith String Bool.
From Cerb Require Import Values PyOps Errors Facts SpecFacts FactsOk Tree Pool Validate Normalize QueueProofs Current.
Import ListNotations.

Theorem C01_validation_facts_are_documented : ok_validation current = true.
Proof. vm_compute. reflexivity. Qed.
Print Assumptions C01_validation_facts_are_documented.

Theorem C01_queue_is_skip_set :
  forall (child : ctx -> res (list error)) x st defs field v q,
    NoDup q ->
    run_queue current child (List.length q) x st defs field v q = spec_queue current child x st defs field v q [].
Proof. exact (run_queue_spec current). Qed.
Print Assumptions C01_queue_is_skip_set.

(* priority and mandatory rules come first, in the documented order; the queue has no duplicates
   whenever the rule set has none (a mapping never has) *)
Theorem C01_priority_order : f_priority current = ["nullable"; "readonly"; "type"; "empty"]%string
                             /\ f_mandatory current = ["nullable"]%string.
Proof. split; reflexivity. Qed.

Theorem C01_verdict_iff_no_errors :
  forall fuel cfg schema doc update normalize o,
    api_validate current fuel cfg schema doc update normalize = Ok o ->
    (out_verdict o = true <-> out_errs o = []).
Proof.
  intros fuel cfg schema doc update normalize o H. unfold api_validate in H.
  destruct normalize.
  - destruct (normalize_ctx current fuel _) as [[d ne]| |]; cbn [bind] in H; try discriminate.
    destruct (validate_after current fuel _ ne) as [errs| |]; cbn [bind] in H; try discriminate.
    injection H as <-. cbn [out_verdict out_errs]. destruct errs; split; intro; congruence.
  - destruct (validate_ctx current fuel _) as [errs| |]; cbn [bind] in H; try discriminate.
    injection H as <-. cbn [out_verdict out_errs]. destruct errs; split; intro; congruence.
Qed.
Print Assumptions C01_verdict_iff_no_errors.

(* non-vacuity: a queue with drop-lists at work: None under {nullable: False, type, min} *)
Example C01_example :
  let cfg := {| c_allow_unknown := VBool false; c_require_all := false; c_ignore_none := false; c_purge_unknown := false;
                c_purge_readonly := false; c_is_child := false; c_is_normalized := false; c_root_doc := VNone;
                c_rules_reg := []; c_schema_reg := [] |} in
  let rules := VDict [(KStr "type", VStr "integer"); (KStr "min", VInt 3)] in
  match validate_ctx current 5 (root_ctx cfg [(KStr "a", rules)] [(KStr "a", VNone)] false) with
  | Ok [e] => e_code e = 35%Z          (* NOT_NULLABLE only: type and min were dropped *)
  | _ => False
  end.
Proof. vm_compute. reflexivity. Qed.
