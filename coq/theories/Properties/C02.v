(* C02 -- normalization yields the documented result in the documented order.
   The reference is the normalization model at the documented facts (Spec); the harness diffs normalized() /
   validate() of the real code against it and against the model at the extracted facts.
   Proved here: the pipeline the model folds over -- the step tokens EXTRACTED from __normalize_mapping -- is the
   documented order with the documented guards; and the corollaries that are one-token changes in the code. *)
From Coq Require Import List ZArith String Bool.
From Cerb Require Import Values PyOps Errors Tree Facts SpecFacts FactsOk Pool Validate Worklist Normalize NormalizeProofs Current.
Import ListNotations.
Open Scope string_scope.
Open Scope list_scope.

(* rename -> purge unknown (unless unknown fields are allowed) -> purge readonly -> readonly check -> defaults -> coerce -> containers *)
Theorem C02_pipeline_is_documented :
  f_pipeline current =
  ["normalize_rename_fields"; "normalize_purge_unknown?self.purge_unknown and (not self.allow_unknown)";
   "normalize_purge_readonly?self.purge_readonly"; "validate_readonly_fields"; "normalize_default_fields";
   "normalize_coerce"; "normalize_containers"; "set_is_normalized"].
Proof. vm_compute. reflexivity. Qed.
Print Assumptions C02_pipeline_is_documented.

Theorem C02_facts : ok_pipeline current = true /\ ok_sites current = true /\ ok_errors current = true.
Proof. vm_compute. repeat split; reflexivity. Qed.

Theorem C02_failing_coercer_keeps_value :
  forall x ns name field v nullable errname ns' v' e,
    pool_coerce name v = Some (URaise e) ->
    coerce_one current x ns (VStr name) field v nullable errname = Ok (ns', v') ->
    v' = v /\ (nullable && is_none v = false ->
               exists er, In er (n_errs ns') /\ e_dp er = x_dp x ++ [field] /\ e_code er = errcode current errname).
Proof. exact (failing_coercer_keeps_value current). Qed.
Print Assumptions C02_failing_coercer_keeps_value.

Theorem C02_failing_coercer_stops_chain :
  forall x ns name rest field v e,
    pool_coerce name v = Some (URaise e) ->
    forall r, coerce_chain current x ns (VStr name :: rest) field v false "COERCION_FAILED" = Ok r ->
    snd r = v /\ exists ns1, nfile current x ns field "COERCION_FAILED" [exc_message e] = Ok ns1 /\ fst r = ns1.
Proof. exact (failing_coercer_stops_chain current). Qed.
Print Assumptions C02_failing_coercer_stops_chain.

(* ... and so does a failing rename handler (the chain is the same loop, the error it files and looks for is RENAMING_FAILED) *)
Theorem C02_failing_rename_handler_stops_chain :
  forall x ns name rest field v e,
    pool_coerce name v = Some (URaise e) ->
    forall r, coerce_chain current x ns (VStr name :: rest) field v false "RENAMING_FAILED" = Ok r ->
    snd r = v /\ exists ns1, nfile current x ns field "RENAMING_FAILED" [exc_message e] = Ok ns1 /\ fst r = ns1.
Proof. intros x ns name rest field v e. exact (failing_processor_stops_chain current x ns name rest field v e "RENAMING_FAILED"). Qed.
Print Assumptions C02_failing_rename_handler_stops_chain.

(* renaming a field to its own name changes nothing (ad56e43: the assignment-then-delete dropped the field) *)
Theorem C02_rename_to_itself_keeps_the_field :
  forall x ns rsch field d,
    assoc_get field rsch = Some (Some (VDict d)) ->
    assoc_get (KStr "rename") d = Some (key_to_value field) ->
    assoc_mem (KStr "rename_handler") d = false ->
    rename_step current x ns rsch field = Ok ns.
Proof.
  intros x ns rsch field d Hg Hr Hh.
  assert (Hrefl : py_eq (key_to_value field) (key_to_value field) = true).
  { destruct field; cbn [key_to_value py_eq num_of]; [apply String.eqb_refl|apply Z.eqb_refl]. }
  unfold rename_step. rewrite Hg. cbn [rs_has bind]. unfold assoc_mem at 1. rewrite Hr. cbn [bind rs_get_default].
  rewrite Hr, Hrefl. cbn [bind]. unfold rename_handler_step. cbn [rs_has bind]. rewrite Hh. reflexivity.
Qed.
Print Assumptions C02_rename_to_itself_keeps_the_field.

(* a rename handler that returns something unhashable: a failed renaming at the field's path, the field keeps its name (3b44ca7) *)
Theorem C02_unhashable_new_name_is_a_failed_renaming :
  forall x ns d field h ns' newv,
    assoc_get (KStr "rename_handler") d = Some h -> assoc_mem field (n_map ns) = true ->
    do_coerce current x ns h field (key_to_value field) false "RENAMING_FAILED" = Ok (ns', newv) ->
    py_eq newv (key_to_value field) = false -> hashable newv = false ->
    rename_handler_step current x ns (Some (VDict d)) field =
    nfile current x ns' field "RENAMING_FAILED" [VStr "The new name must be hashable."].
Proof.
  intros x ns d field h ns' newv Hh Hm Hc Hne Hu. unfold rename_handler_step. cbn [rs_has bind]. unfold assoc_mem at 1. rewrite Hh.
  cbn [negb orb]. rewrite Hm. cbn [negb bind rs_get_default]. rewrite Hh, Hc. cbn [bind]. rewrite Hne, Hu. reflexivity.
Qed.

Theorem C02_unknown_rules_only_on_unknown_fields :
  forall x ns rsch f rs,
    assoc_get f rsch = Some rs -> rs_has "_normalize_coerce" rs "coerce" = Ok false ->
    coerce_fields current x ns rsch [f] = Ok ns.
Proof. exact (known_field_not_coerced_by_unknown_rule current). Qed.

(* the rules for unknown fields reach the CONTAINERS of unknown fields (900b8aa): an unknown list is normalized member by member
   against the `schema` of those rules, exactly as a declared field's list is against its own *)
Theorem C02_unknown_lists_are_normalized_by_the_unknown_rules :
  forall childn x ns rsch f l d,
    assoc_get f rsch = None -> unknown_rules x = Some d ->
    assoc_get f (n_map ns) = Some (VList l) -> assoc_mem (KStr "schema") d = true ->
    containers current childn x ns rsch [f] =
    (do ns' <- norm_sequence_schema current childn x ns f l
                 (match assoc_get (KStr "schema") d with Some c => c | None => VNone end);
     Ok ns').
Proof.
  intros childn x ns rsch f l d Hg Hu Hv Hs. cbn [containers]. rewrite Hv, Hg, Hu. cbn [bind]. rewrite Hs. reflexivity.
Qed.

Theorem C02_items_length_mismatch_not_normalized :
  forall childn x ns field l its,
    Nat.eqb (List.length its) (List.length l) = false ->
    norm_sequence_items current childn x ns field l (VList its) = Ok ns.
Proof. exact (items_length_mismatch_not_normalized current). Qed.

(* the purge steps.  Purging unknown fields keeps exactly the fields the schema defines, in their order, and the errors;
   it is skipped when unknown fields are allowed (allow_unknown truthy: True or a rules set) or purge_unknown is off *)
Theorem C02_purge_unknown_keeps_exactly_the_known_fields : forall ns rsch,
  n_map (purge_unknown_step ns rsch) = filter (fun kv => assoc_mem (fst kv) rsch) (n_map ns) /\
  n_errs (purge_unknown_step ns rsch) = n_errs ns /\
  (forall kv, In kv (n_map (purge_unknown_step ns rsch)) <-> In kv (n_map ns) /\ assoc_mem (fst kv) rsch = true).
Proof.
  intros ns rsch. split; [reflexivity|split; [reflexivity|]].
  intro kv. unfold purge_unknown_step. cbn [n_map]. apply filter_In.
Qed.

Theorem C02_purge_unknown_skipped_when_unknown_allowed : forall childn x rsch ns,
  c_purge_unknown (x_cfg x) = false \/ truthy (c_allow_unknown (x_cfg x)) = true ->
  run_step current childn x rsch "normalize_purge_unknown?self.purge_unknown and (not self.allow_unknown)" ns = Ok ns.
Proof.
  intros childn x rsch ns H. unfold run_step.
  change (String.eqb "normalize_purge_unknown?self.purge_unknown and (not self.allow_unknown)" "normalize_rename_fields") with false.
  change (String.eqb "normalize_purge_unknown?self.purge_unknown and (not self.allow_unknown)"
                     "normalize_purge_unknown?self.purge_unknown and (not self.allow_unknown)") with true.
  cbv iota. destruct H as [H|H]; rewrite H; [reflexivity|]. rewrite andb_false_r. reflexivity.
Qed.

(* purging readonly fields removes exactly the fields whose rules say readonly, keeps the order and the errors *)
Theorem C02_purge_readonly_removes_exactly_the_readonly_fields : forall ns rsch ns',
  purge_readonly_step ns rsch = Ok ns' ->
  exists ro, readonly_fields rsch (n_map ns) = Ok ro /\ n_errs ns' = n_errs ns /\
             n_map ns' = filter (fun kv => negb (key_in (fst kv) ro)) (n_map ns).
Proof.
  intros ns rsch ns' H. unfold purge_readonly_step in H.
  destruct (readonly_fields rsch (n_map ns)) as [ro| |]; cbn [bind] in H; try discriminate.
  injection H as <-. exists ro. repeat split.
Qed.

Theorem C02_readonly_fields_are_those_with_a_truthy_readonly_rule : forall rsch m ro,
  readonly_fields rsch m = Ok ro ->
  forall k, In k ro <->
            In k (map fst m) /\ exists rs v, assoc_get k rsch = Some rs /\
                                             rs_get_default "__normalize_purge_readonly" rs "readonly" (VBool false) = Ok v /\
                                             truthy v = true.
Proof.
  intros rsch m. induction m as [|[k0 v0] m IH]; intros ro H k; cbn [readonly_fields] in H.
  - injection H as <-. split; [intros []|intros [[] _]].
  - destruct (assoc_get k0 rsch) as [rs|] eqn:Er.
    + destruct (rs_get_default "__normalize_purge_readonly" rs "readonly" (VBool false)) as [w| |] eqn:Ew; cbn [bind] in H; try discriminate.
      destruct (readonly_fields rsch m) as [r| |]; cbn [bind] in H; try discriminate.
      injection H as <-. specialize (IH r eq_refl k). cbn [map fst In]. destruct (truthy w) eqn:Et.
      * cbn [In]. rewrite IH. split.
        -- intros [<-|[Hi Hx]]; [split; [left; reflexivity|exists rs, w; repeat split; assumption]|split; [right; exact Hi|exact Hx]].
        -- intros [[<-|Hi] Hx]; [left; reflexivity|right; split; assumption].
      * rewrite IH. split.
        -- intros [Hi Hx]. split; [right; exact Hi|exact Hx].
        -- intros [[<-|Hi] Hx]; [|split; assumption].
           destruct Hx as [rs' [w' [H1 [H2 H3]]]]. rewrite Er in H1. injection H1 as <-. rewrite Ew in H2. injection H2 as <-.
           rewrite Et in H3. discriminate.
    + cbn [bind] in H. destruct (readonly_fields rsch m) as [r| |]; cbn [bind] in H; try discriminate.
      injection H as <-. specialize (IH r eq_refl k). cbn [map fst In]. rewrite IH. split.
      * intros [Hi Hx]. split; [right; exact Hi|exact Hx].
      * intros [[<-|Hi] Hx]; [|split; assumption].
        destruct Hx as [rs' [w' [H1 _]]]. rewrite Er in H1. discriminate.
Qed.
Print Assumptions C02_readonly_fields_are_those_with_a_truthy_readonly_rule.

(* non-vacuity / worked instance: rename, default, coerce chain with a failing member, nested purge *)
Example C02_example :
  let cfg := {| c_allow_unknown := VBool false; c_require_all := false; c_ignore_none := false; c_purge_unknown := true;
                c_purge_readonly := false; c_is_child := false; c_is_normalized := false; c_root_doc := VNone;
                c_rules_reg := []; c_schema_reg := [] |} in
  let schema := [(KStr "a", VDict [(KStr "rename", VStr "b")]);
                 (KStr "b", VDict [(KStr "coerce", VList [VStr "to_int"; VStr "fail"; VStr "inc"])]);
                 (KStr "c", VDict [(KStr "default", VInt 5)])] in
  match api_normalized current 10 cfg schema [(KStr "a", VStr "12"); (KStr "zz", VInt 1)] with
  | Ok o => out_doc o = [(KStr "b", VInt 12); (KStr "c", VInt 5)] /\ List.length (out_errs o) = 1%nat
  | _ => False
  end.
Proof. vm_compute. split; reflexivity. Qed.
