(* C03 -- processing reports problems as errors and never raises.  PARTIAL (see DESIGN section 6 C03):
   proved here, for the validation model at the facts extracted from /repo, is the VALUE-SHAPE part: every
   leaf rule handler returns normally for every JSON-like value -- None, bool, int, float, str, list, dict,
   any nesting, unhashable members included -- given a constraint of the shape the rule's constraint schema
   demands, and given that filing an error for the field succeeds (which file_error_ok derives from the
   field's rule set containing the rule).  The recursive skeleton (child validators, *of, required pass,
   normalization, exception capture around user callables) is covered by the differential run and by the
   all-entry-points oracle of the harness, not by a theorem. *)
From Coq Require Import List ZArith String Bool.
From Cerb Require Import Values PyOps Regex Errors Tree Facts SpecFacts FactsOk Pool Validate NoRaise Current.
Import ListNotations.

Section WithField.
  Variable x : ctx.
  Variable field : key.
  Hypothesis files : forall st d info ch, exists st', file_error current x st field d info ch = Ok st'.

  Theorem C03_nullable_any_value : forall st c v, not_raise (h_nullable current x st c field v).
  Proof. exact (nullable_total current x field files). Qed.
  Theorem C03_readonly_any_value : forall st c v, not_raise (h_readonly current x st c field v).
  Proof. exact (readonly_total current x field files). Qed.
  Theorem C03_empty_any_value : forall st c v, not_raise (h_empty current x st c field v).
  Proof. exact (empty_total current x field files). Qed.
  Theorem C03_min_max_any_value : forall st c v, not_raise (h_max current x st c field v) /\ not_raise (h_min current x st c field v).
  Proof. intros. split; [apply (max_total current x field files)|apply (min_total current x field files)]. Qed.
  Theorem C03_type_any_value : forall st c v,
    (known_type current c \/ exists l, c = VList l /\ Forall (known_type current) l) -> not_raise (h_type current x st c field v).
  Proof. exact (type_total current x field files). Qed.
  Theorem C03_allowed_forbidden_any_value : forall st c0 v,
    not_raise (h_allowed current x st (VList c0) field v) /\ not_raise (h_forbidden current x st (VList c0) field v).
  Proof. intros. split; [apply (allowed_total current x field files)|apply (forbidden_total current x field files)]. Qed.
  (* allowed values given as a mapping (read as its keys since 2752c56): unhashable members of the value are fine *)
  Theorem C03_allowed_mapping_any_value : forall st d v, not_raise (h_allowed current x st (VDict d) field v).
  Proof. exact (allowed_total_mapping current x field files). Qed.
  (* any constraint (the hypothesis "hashable members" fell with the repair e210946) *)
  Theorem C03_contains_any_value : forall st c v, not_raise (h_contains current x st c field v).
  Proof. exact (contains_total current x field files). Qed.
  Theorem C03_lengths_any_value : forall st z v,
    not_raise (h_maxlength current x st (VInt z) field v) /\ not_raise (h_minlength current x st (VInt z) field v).
  Proof. intros. split; [apply (maxlength_total current x field files)|apply (minlength_total current x field files)]. Qed.
  Theorem C03_regex_any_value : forall st pat v,
    (forall s, regex_fullmatch pat s <> None) -> not_raise (h_regex current x st (VStr pat) field v).
  Proof. exact (regex_total current x field files). Qed.
  Theorem C03_dependencies_any_document : forall st c v,
    (is_vstr c \/ (exists l, c = VList l /\ Forall is_vstr l) \/
     (exists d, c = VDict d /\ Forall (fun kv => match fst kv with KStr _ => True | _ => False end) d)) ->
    not_raise (h_dependencies current x st c field v).
  Proof. exact (dependencies_total current x field files). Qed.
  Theorem C03_check_with_pool : forall st c v, known_check c -> not_raise (check_one current x st c field v).
  Proof. exact (check_one_total current x field files). Qed.
End WithField.
Print Assumptions C03_contains_any_value.
Print Assumptions C03_dependencies_any_document.

(* the hypothesis [files] is satisfiable: an error whose rule is spelled out in the field's (resolved) rule set can be filed *)
Theorem C03_filing_succeeds :
  forall x st field d info ch rs0 rs r code,
    errdef current d = (code, Some r) ->
    (match assoc_get field (x_schema x) with Some v => v | None => c_allow_unknown (x_cfg x) end) = rs0 ->
    resolve_rules_set (x_cfg x) rs0 = Some rs ->
    (r = "nullable"%string \/ r = "required"%string \/ vmem r rs = true) ->
    exists st', file_error current x st field d info ch = Ok st'.
Proof. exact (file_error_ok current). Qed.
Print Assumptions C03_filing_succeeds.

(* every error definition the handlers use names the handler's own rule (so "the rule is in the rule set" is what
   the queue guarantees): checked by computation on the extracted error table *)
Theorem C03_error_rules :
  map (errrule current) ["NOT_NULLABLE"; "READONLY_FIELD"; "BAD_TYPE"; "EMPTY_NOT_ALLOWED"; "UNALLOWED_VALUE"; "UNALLOWED_VALUES";
                         "FORBIDDEN_VALUE"; "FORBIDDEN_VALUES"; "MISSING_MEMBERS"; "MAX_VALUE"; "MIN_VALUE"; "MAX_LENGTH"; "MIN_LENGTH";
                         "REGEX_MISMATCH"; "DEPENDENCIES_FIELD"; "DEPENDENCIES_FIELD_VALUE"; "EXCLUDES_FIELD"; "ITEMS_LENGTH"; "BAD_ITEMS"]%string
  = map Some ["nullable"; "readonly"; "type"; "empty"; "allowed"; "allowed"; "forbidden"; "forbidden"; "contains"; "max"; "min";
              "maxlength"; "minlength"; "regex"; "dependencies"; "dependencies"; "excludes"; "items"; "items"]%string.
Proof. vm_compute. reflexivity. Qed.

(* non-vacuity: wrong-shaped values under every leaf rule at once, no exception *)
Example C03_example :
  let cfg := {| c_allow_unknown := VBool false; c_require_all := false; c_ignore_none := false; c_purge_unknown := false;
                c_purge_readonly := false; c_is_child := false; c_is_normalized := false; c_root_doc := VNone;
                c_rules_reg := []; c_schema_reg := [] |} in
  let rules := VDict [(KStr "items", VList [VDict []]); (KStr "forbidden", VList [VInt 1]); (KStr "contains", VStr "ab");
                      (KStr "minlength", VInt 1); (KStr "dependencies", VStr "g.h"); (KStr "min", VInt 1); (KStr "regex", VStr "a.")] in
  forallb (fun v => is_ok (validate_ctx current 5 {| x_cfg := cfg; x_schema := [(KStr "f", rules); (KStr "g", VDict [])];
                                                     x_doc := [(KStr "f", v); (KStr "g", v)]; x_dp := []; x_sp := []; x_update := false |}))
          [VBool true; VInt 0; VFloat 10; VStr ""; VList [VList [VInt 1]]; VDict [(KInt 1, VList [VInt 2])]; VList [VDict []]] = true.
Proof. vm_compute. reflexivity. Qed.
