(* C04 -- only well-formed schemas are accepted, at every entry point and depth.  PARTIAL:
   the documented constraint grammar is Model/Accept.v (after Model/Expand.v); it is diffed on every run against
   the real acceptance (cold cache) of grammar schemas and single-point corruptions; the entry points' order
   "expand, validate, commit" is read from the source (fact group F17, fail-closed).  Proved: rejection keeps the
   state, the entry points decide alike, each corruption kind is rejected at the rules set that holds it, a rejected
   rules set rejects every rules set holding it at a recursion position of the grammar (items members, keysrules,
   valuesrules, *of definitions, allow_unknown rules sets, list- and dict-schemas), hence -- by induction on the
   nesting -- a corruption at ANY depth of the inline structure rejects the schema.  Not proved: positions reached
   through registry references (the model follows them with a cycle guard; the real code's guard conflates seen with
   valid: the recorded finding accepted:dangling-reference), and that the real meta-schema IS this grammar (that is
   the differential run). *)
From Coq Require Import List ZArith String Bool.
From Cerb Require Import Values PyOps Expand Accept AcceptProofs.
Import ListNotations.
Open Scope string_scope.
Open Scope list_scope.

Theorem C04_reject_keeps_state : forall K rr sr st e,
  snd (assign K rr sr st e) <> Accepted -> fst (assign K rr sr st e) = st.
Proof. exact rejected_assignment_keeps_state. Qed.
Print Assumptions C04_reject_keeps_state.

Theorem C04_entry_points_agree : forall K rr sr st st' s,
  snd (assign K rr sr st (Construct s)) = snd (assign K rr sr st' (Construct s)).
Proof. exact entry_points_agree. Qed.

Theorem C04_unknown_rule_rejected : forall K rr sr f in_of seen d rule c,
  In (KStr rule, c) d -> sin rule (k_validation_rules K) = false -> sin rule (k_normalization_rules K) = false ->
  wf_rules K rr sr (S f) in_of seen (VDict d) = false.
Proof. exact unknown_rule_rejected. Qed.
Print Assumptions C04_unknown_rule_rejected.

Theorem C04_unknown_type_rejected : forall K rr sr f in_of seen d t,
  In (KStr "type", VStr t) d -> sin "type" (k_validation_rules K) = true -> sin t (k_types K) = false ->
  wf_rules K rr sr (S f) in_of seen (VDict d) = false.
Proof. exact unknown_type_rejected. Qed.

Theorem C04_normalization_rule_in_of_rejected : forall K rr sr f seen d rule c,
  In (KStr rule, c) d -> sin rule (k_validation_rules K) = false ->
  wf_rules K rr sr (S f) true seen (VDict d) = false.
Proof. exact normalization_rule_in_of_rejected. Qed.

Theorem C04_dangling_reference_rejected : forall K rr sr schema field n,
  In (field, VStr n) schema -> reg_lookup rr n = None -> accepts K rr sr schema = false.
Proof. exact dangling_field_reference_rejected. Qed.

Theorem C04_ill_formed_field_rejects_schema : forall K rr sr schema field d,
  In (field, VDict d) schema -> (forall fuel, wf_rules K rr sr fuel false [] (VDict d) = false) ->
  accepts K rr sr schema = false.
Proof. exact ill_formed_field_rejects. Qed.

(* worked instances at depth: a corruption three levels down rejects; the well-formed twin is accepted *)
Definition base_class : vclass :=
  {| k_types := ["integer"; "string"; "list"; "dict"; "boolean"; "float"; "number"]; k_coercers := ["to_int"]; k_setters := [];
     k_checkers := []; k_validation_rules := base_validation_rules; k_normalization_rules := base_normalization_rules |}.

Example C04_example :
  let deep r := [(KStr "a", VDict [(KStr "type", VStr "list");
                                    (KStr "schema", VDict [(KStr "type", VStr "dict");
                                                           (KStr "valuesrules", VDict [(KStr "anyof", VList [VDict [r]])])])])] in
  accepts base_class [] [] (deep (KStr "type", VStr "integer")) = true /\
  accepts base_class [] [] (deep (KStr "type", VStr "nosuchtype")) = false /\
  accepts base_class [] [] (deep (KStr "coerce", VStr "to_int")) = false /\
  accepts base_class [] [] (deep (KStr "nosuchrule", VInt 1)) = false /\
  accepts base_class [] [] (deep (KStr "required", VStr "yes")) = false.
Proof. vm_compute. repeat split; reflexivity. Qed.

(* rejection at every depth: the closure of "holds a rejected rules set at a recursion position" is rejected *)
Theorem C04_corrupted_is_rejected : forall K rr sr io seen v,
  corrupted K rr sr io seen v -> forall fuel, wf_rules K rr sr fuel io seen v = false.
Proof. exact corrupted_is_rejected. Qed.
Print Assumptions C04_corrupted_is_rejected.

Theorem C04_corruption_at_any_depth_rejects : forall K rr sr schema field d,
  In (field, VDict d) schema -> corrupted K rr sr false [] (VDict d) -> accepts K rr sr schema = false.
Proof. exact corruption_at_any_depth_rejects. Qed.
Print Assumptions C04_corruption_at_any_depth_rejects.

(* the base kinds *)
Theorem C04_base_kinds : forall K rr sr,
  (forall io seen d rule c, In (KStr rule, c) d -> sin rule (k_validation_rules K) = false -> sin rule (k_normalization_rules K) = false ->
                            bad K rr sr io seen (VDict d)) /\
  (forall io seen d t, In (KStr "type", VStr t) d -> sin t (k_types K) = false -> bad K rr sr io seen (VDict d)) /\
  (forall seen d rule c, In (KStr rule, c) d -> sin rule (k_validation_rules K) = false -> bad K rr sr true seen (VDict d)).
Proof. intros K rr sr. split; [|split]; [apply unknown_rule_bad|apply unknown_type_bad|apply normalization_rule_in_of_bad]. Qed.

(* non-vacuity: the unknown rule three levels down (list-schema -> valuesrules -> anyof definition) is a corruption
   in the sense of the theorem *)
Example C04_depth_example :
  let leaf := [(KStr "nosuchrule", VInt 1)] in
  let vr := [(KStr "anyof", VList [VDict leaf])] in
  let ls := [(KStr "type", VStr "dict"); (KStr "valuesrules", VDict vr)] in
  let a := [(KStr "type", VStr "list"); (KStr "schema", VDict ls)] in
  corrupted base_class [] [] false [] (VDict a).
Proof.
  cbv zeta. eapply c_list_schema; [right; left; reflexivity| |intro f; reflexivity].
  eapply c_bulk; [right; reflexivity|right; left; reflexivity|].
  eapply c_of; [right; left; reflexivity|left; reflexivity|left; reflexivity|].
  apply c_here. eapply unknown_rule_bad; [left; reflexivity|reflexivity|reflexivity].
Qed.
