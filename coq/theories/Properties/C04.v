(* C04 -- only well-formed schemas are accepted, at every entry point and depth.  PARTIAL:
   the documented constraint grammar is Model/Accept.v (after Model/Expand.v); it is diffed on every run against
   the real acceptance (cold cache) of grammar schemas and single-point corruptions; the entry points' order
   "expand, validate, commit" is read from the source (fact group F17, fail-closed).  Proved: rejection keeps the
   state, the entry points decide alike, each corruption kind is rejected at the rules set that holds it and a
   rejected field rejects the schema.  Not proved: that the grammar rejects a corruption at EVERY depth (induction
   over positions) -- checked by the corruption oracle at random positions of any depth. *)
From Coq Require Import List ZArith String Bool.
From Cerb Require Import Values PyOps Expand Accept AcceptProofs.
Import ListNotations.
Open Scope string_scope.
Open Scope list_scope.

Theorem C04_reject_keeps_state : forall K rr sr st e,
  snd (assign K rr sr st e) <> Accepted -> fst (assign K rr sr st e) = st.
Proof. exact rejected_assignment_keeps_state. Qed.
Print Assumptions C04_reject_keeps_state.

Theorem C04_entry_points_agree : forall K rr sr st st' s,
  snd (assign K rr sr st (Construct s)) = snd (assign K rr sr st' (Construct s)).
Proof. exact entry_points_agree. Qed.

Theorem C04_unknown_rule_rejected : forall K rr sr f in_of seen d rule c,
  In (KStr rule, c) d -> sin rule (k_validation_rules K) = false -> sin rule (k_normalization_rules K) = false ->
  wf_rules K rr sr (S f) in_of seen (VDict d) = false.
Proof. exact unknown_rule_rejected. Qed.
Print Assumptions C04_unknown_rule_rejected.

Theorem C04_unknown_type_rejected : forall K rr sr f in_of seen d t,
  In (KStr "type", VStr t) d -> sin "type" (k_validation_rules K) = true -> sin t (k_types K) = false ->
  wf_rules K rr sr (S f) in_of seen (VDict d) = false.
Proof. exact unknown_type_rejected. Qed.

Theorem C04_normalization_rule_in_of_rejected : forall K rr sr f seen d rule c,
  In (KStr rule, c) d -> sin rule (k_validation_rules K) = false ->
  wf_rules K rr sr (S f) true seen (VDict d) = false.
Proof. exact normalization_rule_in_of_rejected. Qed.

Theorem C04_dangling_reference_rejected : forall K rr sr schema field n,
  In (field, VStr n) schema -> reg_lookup rr n = None -> accepts K rr sr schema = false.
Proof. exact dangling_field_reference_rejected. Qed.

Theorem C04_ill_formed_field_rejects_schema : forall K rr sr schema field d,
  In (field, VDict d) schema -> (forall fuel, wf_rules K rr sr fuel false [] (VDict d) = false) ->
  accepts K rr sr schema = false.
Proof. exact ill_formed_field_rejects. Qed.

(* worked instances at depth: a corruption three levels down rejects; the well-formed twin is accepted *)
Definition base_class : vclass :=
  {| k_types := ["integer"; "string"; "list"; "dict"; "boolean"; "float"; "number"]; k_coercers := ["to_int"]; k_setters := [];
     k_checkers := []; k_validation_rules := base_validation_rules; k_normalization_rules := base_normalization_rules |}.

Example C04_example :
  let deep r := [(KStr "a", VDict [(KStr "type", VStr "list");
                                    (KStr "schema", VDict [(KStr "type", VStr "dict");
                                                           (KStr "valuesrules", VDict [(KStr "anyof", VList [VDict [r]])])])])] in
  accepts base_class [] [] (deep (KStr "type", VStr "integer")) = true /\
  accepts base_class [] [] (deep (KStr "type", VStr "nosuchtype")) = false /\
  accepts base_class [] [] (deep (KStr "coerce", VStr "to_int")) = false /\
  accepts base_class [] [] (deep (KStr "nosuchrule", VInt 1)) = false /\
  accepts base_class [] [] (deep (KStr "required", VStr "yes")) = false.
Proof. vm_compute. repeat split; reflexivity. Qed.
