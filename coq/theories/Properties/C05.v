(* C05 -- the caller's document and the validator's schema are never modified.  Model: Model/Ownership.v over
   the write sites extracted from the normalization functions of the current source.  The oracle of the harness
   (deep / repr snapshots of document, schema, allow_unknown rule sets and registries around every API call)
   checks the same on the real objects, including aliasing the site abstraction does not see. *)
From Coq Require Import List String Bool.
From Cerb Require Import Values Facts Ownership OwnershipProofs Current.
Import ListNotations.

(* the write sites of the current source: all at depth 0, or below a member re-bound to a copy first;
   the document is copied on entry and the schema before its references are resolved *)
Theorem C05_write_sites_ok : ok_writes current = true.
Proof. vm_compute. reflexivity. Qed.
Print Assumptions C05_write_sites_ok.

Theorem C05_no_foreign_write :
  forall run, (forall so, In so run -> In (fst so) (f_write_sites current)) -> foreign_writes run = [].
Proof. exact (no_foreign_write current C05_write_sites_ok). Qed.
Print Assumptions C05_no_foreign_write.

(* the statement is not vacuous: a nested write without a copy would be a write into the caller's mapping *)
Theorem C05_refuted_without_copy :
  foreign_writes [(("normalize_mapping_per_keysrules", "mapping", 1%nat, false), Caller)] <> [].
Proof. exact unguarded_nested_write_is_foreign. Qed.

Example C05_example : List.length (f_write_sites current) = 17%nat /\
  existsb (fun s => Nat.eqb (s_depth s) 1) (f_write_sites current) = true.
Proof. vm_compute. split; reflexivity. Qed.
