(* C05 -- the caller's document and the validator's schema are never modified.  Model: Model/Ownership.v over
   the write sites extracted from the normalization functions of the current source.  The oracle of the harness
   (deep / repr snapshots of document, schema, allow_unknown rule sets and registries around every API call)
   checks the same on the real objects, including aliasing the site abstraction does not see. *)
From Coq Require Import List ZArith String Bool.
From Cerb Require Import Values PyOps Errors Facts Validate Normalize Ownership OwnershipProofs Current.
Import ListNotations.

(* the write sites of the current source: all at depth 0, or below a member re-bound to a copy first;
   the document is copied on entry and the schema before its references are resolved *)
Theorem C05_write_sites_ok : ok_writes current = true.
Proof. vm_compute. reflexivity. Qed.
Print Assumptions C05_write_sites_ok.

Theorem C05_no_foreign_write :
  forall run, (forall so, In so run -> In (fst so) (f_write_sites current)) -> foreign_writes run = [].
Proof. exact (no_foreign_write current C05_write_sites_ok). Qed.
Print Assumptions C05_no_foreign_write.

(* the statement is not vacuous: a nested write without a copy would be a write into the caller's mapping *)
Theorem C05_refuted_without_copy :
  foreign_writes [(("normalize_mapping_per_keysrules", "mapping", 1%nat, false), Caller)] <> [].
Proof. exact unguarded_nested_write_is_foreign. Qed.

(* "with normalize=False the processed document equals the input": on the API model, for every schema, document,
   configuration and fuel, validate(document, normalize=False) leaves validator.document equal to the document given,
   and validated(document, normalize=False) returns that document or None -- never anything else *)
Theorem C05_unnormalized_document_is_input :
  forall fuel cfg schema doc update o,
    api_validate current fuel cfg schema doc update false = Ok o -> out_doc o = doc.
Proof.
  intros fuel cfg schema doc update o H. unfold api_validate in H.
  destruct (validate_ctx current fuel _) as [errs|ex site|] eqn:E; cbn [bind] in H; try discriminate.
  inversion H; subst o; reflexivity.
Qed.
Print Assumptions C05_unnormalized_document_is_input.

Theorem C05_unnormalized_validated_returns_input :
  forall fuel cfg schema doc update always d,
    api_validated current fuel cfg schema doc update false always = Ok (Some d) -> d = doc.
Proof.
  intros fuel cfg schema doc update always d H. unfold api_validated in H.
  destruct (api_validate current fuel cfg schema doc update false) as [o|ex site|] eqn:E; cbn [bind] in H; try discriminate.
  apply C05_unnormalized_document_is_input in E.
  destruct (out_errs o); [|destruct always]; inversion H; subst; reflexivity.
Qed.
Print Assumptions C05_unnormalized_validated_returns_input.

(* not vacuous, and not true of normalize=True: a default changes the processed document only when normalizing *)
Example C05_example_unnormalized :
  let cfg := {| c_allow_unknown := VBool false; c_require_all := false; c_ignore_none := false; c_purge_unknown := false;
                c_purge_readonly := false; c_is_child := false; c_is_normalized := false; c_root_doc := VNone;
                c_rules_reg := []; c_schema_reg := [] |} in
  let schema := [(KStr "a", VDict [(KStr "default", VInt 1%Z)])] in
  match api_validate current 6 cfg schema [] false false, api_validate current 6 cfg schema [] false true with
  | Ok o, Ok o' => out_doc o = [] /\ out_doc o' = [(KStr "a", VInt 1%Z)]
  | _, _ => False
  end.
Proof. vm_compute. split; reflexivity. Qed.

Example C05_example : List.length (f_write_sites current) = 17%nat /\
  existsb (fun s => Nat.eqb (s_depth s) 1) (f_write_sites current) = true.
Proof. vm_compute. split; reflexivity. Qed.
