(* C06 -- validate, validated, normalized and errors agree with one another.  PARTIAL: the return conventions are
   read from the source by the translator (fail-closed shape checks, fact group F16) and proved on the model;
   the composition law validate(d) = normalized(d) + validate(normalized(d), normalize=False) is checked by the
   six-validator oracle of the harness on the real code (the model statement needs a frame lemma over the whole
   validation model -- the readonly / coercion-chain / dependencies look-ups read the error list -- not proved). *)
From Coq Require Import List ZArith String Bool.
From Cerb Require Import Values PyOps Errors Tree Facts SpecFacts FactsOk Pool Validate Worklist Normalize Handler Current.
Import ListNotations.

Theorem C06_verdict_iff_no_errors :
  forall fuel cfg schema doc update normalize o,
    api_validate current fuel cfg schema doc update normalize = Ok o ->
    (out_verdict o = true <-> out_errs o = []).
Proof.
  intros fuel cfg schema doc update normalize o H. unfold api_validate in H.
  destruct normalize.
  - destruct (normalize_ctx current fuel _) as [[d ne]| |]; cbn [bind] in H; try discriminate.
    destruct (validate_after current fuel _ ne) as [errs| |]; cbn [bind] in H; try discriminate.
    injection H as <-. cbn [out_verdict out_errs]. destruct errs; split; intro; congruence.
  - destruct (validate_ctx current fuel _) as [errs| |]; cbn [bind] in H; try discriminate.
    injection H as <-. cbn [out_verdict out_errs]. destruct errs; split; intro; congruence.
Qed.
Print Assumptions C06_verdict_iff_no_errors.

(* validated(d) is None exactly when validate(d) is False; with always_return_document it is the processed document *)
Theorem C06_validated_none_iff :
  forall fuel cfg schema doc update normalize o r,
    api_validate current fuel cfg schema doc update normalize = Ok o ->
    api_validated current fuel cfg schema doc update normalize false = Ok r ->
    (r = None <-> out_verdict o = false) /\ (forall d, r = Some d -> d = out_doc o).
Proof.
  intros fuel cfg schema doc update normalize o r Hv H. unfold api_validated in H. rewrite Hv in H. cbn [bind] in H.
  pose proof (C06_verdict_iff_no_errors _ _ _ _ _ _ _ Hv) as [V1 V2].
  destruct (out_errs o) eqn:E; injection H as <-.
  - split; [split; [discriminate|]|intros d Hd; congruence].
    intro Hf. rewrite (V2 eq_refl) in Hf. discriminate.
  - split; [split; [|reflexivity]|discriminate].
    intros _. destruct (out_verdict o); [specialize (V1 eq_refl); discriminate|reflexivity].
Qed.

Theorem C06_validated_always_returns_document :
  forall fuel cfg schema doc update normalize o,
    api_validate current fuel cfg schema doc update normalize = Ok o ->
    api_validated current fuel cfg schema doc update normalize true = Ok (Some (out_doc o)).
Proof.
  intros fuel cfg schema doc update normalize o Hv. unfold api_validated. rewrite Hv. cbn [bind].
  destruct (out_errs o); reflexivity.
Qed.

(* normalized(d) is None exactly when normalization recorded an error *)
Theorem C06_normalized_none_iff :
  forall fuel cfg schema doc o r,
    api_normalized current fuel cfg schema doc = Ok o ->
    api_normalized_ret current fuel cfg schema doc false = Ok r ->
    (r = None <-> out_errs o <> []).
Proof.
  intros fuel cfg schema doc o r Hn H. unfold api_normalized_ret in H. rewrite Hn in H. cbn [bind] in H.
  destruct (out_errs o); injection H as <-.
  - split; [discriminate|]. intro Hc. contradiction Hc. reflexivity.
  - split; [discriminate|reflexivity].
Qed.

(* the errors property is empty iff there are no errors (the rendering of the empty list is the empty tree) *)
Theorem C06_errors_property_empty : fst (render current []) = rt_empty.
Proof. reflexivity. Qed.

(* validate() and normalized() process the document by the same normalization: same processed document and the
   normalization errors of validate(d) are those of normalized(d)  (update = False: same context, definitional) *)
Theorem C06_same_normalization :
  forall fuel cfg schema doc d' nerrs,
    normalize_ctx current fuel (root_ctx (set_is_normalized cfg false) schema doc false) = Ok (d', nerrs) ->
    (exists on, api_normalized current fuel cfg schema doc = Ok on /\ out_doc on = d' /\ out_errs on = nerrs) /\
    (forall ov, api_validate current fuel cfg schema doc false true = Ok ov -> out_doc ov = d').
Proof.
  intros fuel cfg schema doc d' nerrs H. split.
  - unfold api_normalized. rewrite H. cbn [bind]. eexists. split; [reflexivity|split; reflexivity].
  - intros ov Hv. unfold api_validate in Hv. rewrite H in Hv. cbn [bind] in Hv.
    destruct (validate_after current fuel _ nerrs); cbn [bind] in Hv; try discriminate. injection Hv as <-. reflexivity.
Qed.
Print Assumptions C06_same_normalization.

(* towards the composition law (PARTIAL): the validation part of validate() that follows a normalization which
   recorded no error IS the plain validation model, one level of fuel up, run on the normalized document by a
   validator that differs from a fresh one only in the _is_normalized flag -- which the model reads in the readonly
   handler alone.  So for clean normalizations validate(d) = validate(normalized(d), normalize=False) up to that
   flag; what is not proved is that the flag is irrelevant at every depth for schemas without readonly fields, and
   the frame lemma for normalizations that did record errors *)
Lemma validate_after_nil : forall fuel x, validate_after current fuel x [] = validate_ctx current (S fuel) x.
Proof. intros fuel x. reflexivity. Qed.

Theorem C06_composition_clean_partial :
  forall fuel cfg schema doc update d',
    normalize_ctx current fuel (root_ctx (set_is_normalized cfg false) schema doc update) = Ok (d', []) ->
    api_validate current fuel cfg schema doc update true =
      (do errs <- validate_ctx current (S fuel) (root_ctx (set_is_normalized cfg true) schema d' update);
       Ok {| out_verdict := match errs with [] => true | _ => false end; out_doc := d'; out_errs := errs |}).
Proof.
  intros fuel cfg schema doc update d' H. unfold api_validate. rewrite H. cbn [bind].
  rewrite validate_after_nil. reflexivity.
Qed.
Print Assumptions C06_composition_clean_partial.

(* the readonly handler is where the flag is read: with a constraint that is not truthy it does not look at it *)
Theorem C06_readonly_off_ignores_flag : forall x st c field v b,
  truthy c = false ->
  h_readonly current {| x_cfg := set_is_normalized (x_cfg x) b; x_schema := x_schema x; x_doc := x_doc x;
                        x_dp := x_dp x; x_sp := x_sp x; x_update := x_update x |} st c field v = plain st.
Proof. intros x st c field v b H. unfold h_readonly. rewrite H. reflexivity. Qed.

(* the hypothesis is met: a coercion that succeeds is a clean normalization, and validation then still finds errors *)
Example C06_example_clean :
  let cfg := {| c_allow_unknown := VBool false; c_require_all := false; c_ignore_none := false; c_purge_unknown := false;
                c_purge_readonly := false; c_is_child := false; c_is_normalized := false; c_root_doc := VNone;
                c_rules_reg := []; c_schema_reg := [] |} in
  let schema := [(KStr "a", VDict [(KStr "coerce", VStr "to_int"); (KStr "min", VInt 3)])] in
  normalize_ctx current 10 (root_ctx (set_is_normalized cfg false) schema [(KStr "a", VStr "1")] false) = Ok ([(KStr "a", VInt 1)], []) /\
  match validate_ctx current 11 (root_ctx (set_is_normalized cfg true) schema [(KStr "a", VInt 1)] false) with
  | Ok (_ :: _) => True | _ => False end.
Proof. vm_compute. split; [reflexivity|exact I]. Qed.

Example C06_example :
  let cfg := {| c_allow_unknown := VBool false; c_require_all := false; c_ignore_none := false; c_purge_unknown := false;
                c_purge_readonly := false; c_is_child := false; c_is_normalized := false; c_root_doc := VNone;
                c_rules_reg := []; c_schema_reg := [] |} in
  let schema := [(KStr "a", VDict [(KStr "coerce", VStr "to_int"); (KStr "min", VInt 3)])] in
  api_validated current 10 cfg schema [(KStr "a", VStr "1")] false true false = Ok None /\
  api_normalized_ret current 10 cfg schema [(KStr "a", VStr "1")] false = Ok (Some [(KStr "a", VInt 1)]).
Proof. vm_compute. split; reflexivity. Qed.
