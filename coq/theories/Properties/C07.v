(* C07 -- a validator's result does not depend on what it processed before.
   Model: Model/Instance.v (state machine over API calls).  The reset lists are those EXTRACTED from
   validate() and __init_processing of the current source; the read sets are the model's own. *)
From Coq Require Import List String Bool.
From Cerb Require Import Values Facts SpecFacts FactsOk Instance InstanceProofs Current.
Import ListNotations.

(* every per-call attribute that processing reads is assigned by the entry point before processing starts *)
Theorem C07_resets_cover_reads : resets_cover_reads current = true.
Proof. vm_compute. reflexivity. Qed.
Print Assumptions C07_resets_cover_reads.

Theorem C07_reset_lists_documented : ok_resets current = true /\ ok_prologue current = true.
Proof. vm_compute. split; reflexivity. Qed.

(* hence: the outcome of a probe call after ANY history equals its outcome on a fresh instance,
   for any processing function that reads per-call attributes only through its declared read set *)
Theorem C07_history_independent :
  forall (V Cfg Call Out : Type) (fresh_value : string -> Call -> V) (resets_of reads_of : Call -> list string)
         (process : Cfg -> Call -> list (option V) -> attrs V * Out) cfg (h : list Call) (probe : Call) (a0 : attrs V),
    covers (resets_of probe) (reads_of probe) = true ->
    snd (step V Cfg Call Out fresh_value resets_of reads_of process cfg
              (run V Cfg Call Out fresh_value resets_of reads_of process cfg a0 h) probe) =
    snd (step V Cfg Call Out fresh_value resets_of reads_of process cfg a0 probe).
Proof. exact history_independent. Qed.
Print Assumptions C07_history_independent.

(* instantiated with the extracted reset lists: validate / validated reset prologue + init, normalized resets init *)
Inductive api := AValidate | ANormalized.
Definition resets_of_api (a : api) : list string :=
  match a with AValidate => prologue_resets current ++ init_resets current | ANormalized => init_resets current end.
Definition reads_of_api (a : api) : list string :=
  match a with AValidate => reads_validate | ANormalized => reads_normalized end.

Theorem C07_for_the_extracted_resets : forall a, covers (resets_of_api a) (reads_of_api a) = true.
Proof. intros []; vm_compute; reflexivity. Qed.

Example C07_example : init_resets current = ["_errors"; "recent_error"; "document_error_tree"; "schema_error_tree"; "document"; "_is_normalized"]%string.
Proof. vm_compute. reflexivity. Qed.
