(* C08 -- the validated-schema cache is never observable except in speed.
   Model: Model/Cache.v.  Theorem: if equal cache keys imply equal validity, every outcome of every
   submission history (incl. clear_caches) equals the outcome with the cache cleared just before.
   What the key must distinguish is read from the source: scalar types and the class (both hold on the
   current tree after the fixes fc2279c / f78a6d8) and the validation context (does NOT hold: bulk rule sets
   and *of definitions share the tag 'turing' -- known finding; see C08_context_tags_conflated and the
   refutation instance CacheProofs.context_twin_observable). *)
From Coq Require Import List String Bool.
From Cerb Require Import Values Facts SpecFacts FactsOk Cache CacheProofs Current.
Import ListNotations.

Theorem C08_key_is_type_and_class_aware : ok_cache_keys current = true.
Proof. vm_compute. reflexivity. Qed.
Print Assumptions C08_key_is_type_and_class_aware.

Theorem C08_cache_transparent :
  forall (Label Key : Type) (key_eqb : Key -> Key -> bool),
    (forall a b, key_eqb a b = true <-> a = b) ->
    forall (local_ok : Label -> bool) (key_of : sch Label -> Key),
      (forall s1 s2, key_of s1 = key_of s2 -> valid Label local_ok s1 = valid Label local_ok s2) ->
      forall h, run Label Key key_eqb local_ok key_of [] h = run_cold Label Key key_eqb local_ok key_of h.
Proof.
  intros Label Key key_eqb Heq local_ok key_of Hsound h.
  apply cache_transparent; [exact Heq|exact Hsound|]. intros k [].
Qed.
Print Assumptions C08_cache_transparent.

Theorem C08_outcomes_are_plain_validity :
  forall (Label Key : Type) (key_eqb : Key -> Key -> bool),
    (forall a b, key_eqb a b = true <-> a = b) ->
    forall (local_ok : Label -> bool) (key_of : sch Label -> Key),
      (forall s1 s2, key_of s1 = key_of s2 -> valid Label local_ok s1 = valid Label local_ok s2) ->
      forall h, run_cold Label Key key_eqb local_ok key_of h =
                flat_map (fun o => match o with Submit _ s => [valid Label local_ok s] | Clear _ => [] end) h.
Proof. intros. apply cold_is_valid; assumption. Qed.

(* the full statement is FALSE of the current source: the two contexts are keyed alike ... *)
Theorem C08_context_tags_conflated : cache_contexts_distinct current = false.
Proof. vm_compute. reflexivity. Qed.
(* ... and a key that drops the context is observable (two-step history) *)
Theorem C08_refuted_context_twin :
  run lbl nat Nat.eqb lbl_ok conflating_key [] [Submit _ (SNode _ (Bulk, 1) []); Submit _ (SNode _ (Logical, 1) [])]
  <> run_cold lbl nat Nat.eqb lbl_ok conflating_key [Submit _ (SNode _ (Bulk, 1) []); Submit _ (SNode _ (Logical, 1) [])].
Proof. exact context_twin_observable. Qed.
Print Assumptions C08_refuted_context_twin.

(* non-vacuity of the theorem: a separating key satisfies its hypothesis *)
Example C08_example : forall s1 s2 : sch lbl, separating_key s1 = separating_key s2 ->
  (match s1, s2 with SNode _ l1 [], SNode _ l2 [] => valid lbl lbl_ok s1 = valid lbl lbl_ok s2 | _, _ => True end).
Proof. intros [l1 [|]] [l2 [|]]; simpl; intros; try exact I. subst. reflexivity. Qed.
