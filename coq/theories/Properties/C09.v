(* C09 -- *of-rules decide by the number of definitions that validate. *)
From Coq Require Import List ZArith String Bool.
From Cerb Require Import Values PyOps Errors Facts SpecFacts FactsOk Tree Pool Validate OfProofs Current.
Import ListNotations.
Open Scope Z_scope.

Theorem C09_of_facts_are_documented : ok_of current = true /\ ok_queue current = true /\ ok_sites current = true.
Proof. vm_compute. repeat split; reflexivity. Qed.
Print Assumptions C09_of_facts_are_documented.

(* the handler files its error exactly when the operator's comparison holds for the NUMBER OF DEFINITIONS THAT
   VALIDATE THE FIELD INDIVIDUALLY (each as the field's rule set with inherited type / allow_unknown, against the
   same document, options and update flag: OfProofs.def_ctx); the error carries that count, the number of
   definitions, and the failing definitions' errors *)
Theorem C09_decides_by_count :
  forall (child : ctx -> res (list error)) od x st defs field v n errs,
    logical_loop current child x (of_name od) field 0 defs 0 [] = Ok (n, errs) ->
    n = count_valid current child x (of_name od) field 0 defs /\
    errs = failing_errors current child x (of_name od) field 0 defs /\
    h_logical current child od x st (VList defs) field v =
      (if od_fails od n (Z.of_nat (List.length defs))
       then do st' <- file_error current x st field (of_err od) [VInt n; VInt (Z.of_nat (List.length defs))] errs; plain st'
       else plain st).
Proof. exact (of_rule_by_count current). Qed.
Print Assumptions C09_decides_by_count.

(* ... and the comparisons are the documented ones: zero / fewer than all / more than zero / different from one *)
Theorem C09_thresholds :
  forall op, In op ["anyof"; "allof"; "noneof"; "oneof"]%string ->
  exists od, find (fun od => String.eqb (of_name od) op) (f_ofdefs current) = Some od /\
             of_name od = op /\
             forall n k, 0 <= n -> od_fails od n k = fails_documented op n k.
Proof. apply thresholds_documented. vm_compute. reflexivity. Qed.
Print Assumptions C09_thresholds.

Theorem C09_count_is_a_count :
  forall child x op field defs,
    0 <= count_valid current child x op field 0 defs <= Z.of_nat (List.length defs).
Proof. intros. split; [apply count_valid_nonneg|apply count_valid_le]. Qed.

(* None values and type failures skip the *of-rules: they are in the nullable drop-list, and a type failure drops everything *)
Theorem C09_skipped_on_none :
  forall op, In op ["anyof"; "allof"; "noneof"; "oneof"]%string -> In op (f_nullable_drops current).
Proof. intros op H. simpl in H. vm_compute. intuition (subst; tauto). Qed.

Theorem C09_none_drops_them :
  forall x st c field out,
    h_nullable current x st c field VNone = Ok out -> o_drop out = DList (f_nullable_drops current).
Proof.
  intros x st c field out H. unfold h_nullable in H. cbn [is_none] in H.
  destruct (truthy c); [injection H as <-; reflexivity|].
  destruct (file_error current x st field "NOT_NULLABLE" [] []); cbn [bind] in H; try discriminate.
  injection H as <-. reflexivity.
Qed.

(* non-vacuity: oneof with two definitions that both validate *)
Example C09_example :
  let cfg := {| c_allow_unknown := VBool false; c_require_all := false; c_ignore_none := false; c_purge_unknown := false;
                c_purge_readonly := false; c_is_child := false; c_is_normalized := false; c_root_doc := VNone;
                c_rules_reg := []; c_schema_reg := [] |} in
  let rules := VDict [(KStr "oneof", VList [VDict [(KStr "type", VStr "integer")]; VDict [(KStr "min", VInt 0)]])] in
  match validate_ctx current 5 {| x_cfg := cfg; x_schema := [(KStr "a", rules)]; x_doc := [(KStr "a", VInt 3)];
                                  x_dp := []; x_sp := []; x_update := false |} with
  | Ok [e] => e_code e = 146 /\ e_info e = [VInt 2; VInt 2]
  | _ => False
  end.
Proof. vm_compute. split; reflexivity. Qed.

(* a `readonly` rule inside a definition is checked whether or not the document was normalized before (1be154a): the
   definition's validator does not inherit the "already normalized" flag -- normalization never descends into definitions --
   so the rule files its error and the definition counts as failing *)
Theorem C09_readonly_in_a_definition_is_checked :
  forall x op field i def' st v,
    c_is_normalized (x_cfg (def_ctx current x op field i def')) = false /\
    h_readonly current (def_ctx current x op field i def') st (VBool true) field v =
    (do st' <- file_error current (def_ctx current x op field i def') st field "READONLY_FIELD" [] [];
     Ok {| o_st := st'; o_drop := DNone; o_stop := false |}).
Proof.
  intros x op field i def' st v. split.
  - destruct (x_cfg x); reflexivity.
  - unfold h_readonly. cbn [truthy].
    assert (Hn : c_is_normalized (x_cfg (def_ctx current x op field i def')) = false) by (destruct (x_cfg x); reflexivity).
    rewrite Hn. cbn [andb]. reflexivity.
Qed.
Print Assumptions C09_readonly_in_a_definition_is_checked.

(* The recorded finding, as a witness on the model (which follows the implementation here): under allow_unknown=False the
   definition [{'type':'list','schema': {'type':'dict','schema': {'x': {'type':'integer'}}}}] accepts [{'x': 1, 'y': 2}] inside
   an anyof -- the definition's validator runs with allow_unknown=True and the list's members inherit it -- while the same
   rules as the field's own rules report the unknown field 'y'.  The property's "validates individually" (same options) is
   therefore NOT what the implementation counts for containers inside definitions. *)
Example C09_refuted_unknown_fields_inside_definition_containers :
  let cfg := {| c_allow_unknown := VBool false; c_require_all := false; c_ignore_none := false; c_purge_unknown := false;
                c_purge_readonly := false; c_is_child := false; c_is_normalized := false; c_root_doc := VNone;
                c_rules_reg := []; c_schema_reg := [] |} in
  let def := VDict [(KStr "type", VStr "list");
                    (KStr "schema", VDict [(KStr "type", VStr "dict"); (KStr "schema", VDict [(KStr "x", VDict [(KStr "type", VStr "integer")])])])] in
  let doc := [(KStr "a", VList [VDict [(KStr "x", VInt 1); (KStr "y", VInt 2)]])] in
  let run s := validate_ctx current 8 {| x_cfg := cfg; x_schema := s; x_doc := doc; x_dp := []; x_sp := []; x_update := false |} in
  run [(KStr "a", VDict [(KStr "anyof", VList [def])])] = Ok [] /\
  match run [(KStr "a", def)] with Ok (_ :: _) => True | _ => False end.
Proof. vm_compute. split; [reflexivity|exact I]. Qed.
