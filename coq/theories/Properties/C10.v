(* C10 -- nested validation is compositional and inherits the configuration.  On the model (PARTIAL: the
   statement "equal to validating the sub-document ON ITS OWN with prefixed paths" needs path-irrelevance of the
   whole model, which the dependencies handler's tree look-up breaks in corner cases; that part is decided by the
   standalone-sub-document oracle of the harness on the real code):
   (1) at each of the five container sites the errors beneath the field are EXACTLY the errors of the child
       validator run in an explicitly given context: same class of options, allow_unknown / require_all overridden
       by the field's rules where given, update / ignore_none_values / registries inherited;
   (2) the root document of every descendant validator is the outermost document;
   (3) bubbling edits schema paths only; (4) every error beneath a field carries the field's document path. *)
From Coq Require Import List ZArith String Bool.
From Cerb Require Import Values PyOps Errors Tree Facts SpecFacts FactsOk Pool Validate Worklist Normalize ChildProofs PathProofs Current.
Import ListNotations.
Open Scope list_scope.

Theorem C10_site_facts : ok_sites current = true.
Proof. vm_compute. reflexivity. Qed.
Print Assumptions C10_site_facts.

Theorem C10_update_forwarded :
  forall site, In site ["validate_schema_mapping"; "validate_schema_sequence"; "validate_items"; "validate_valuesrules";
                        "validate_logical"; "validate_unknown_fields"]%string ->
  forwards_update current site = true.
Proof. apply update_forwarded. exact C10_site_facts. Qed.

Theorem C10_child_inherits_configuration : forall c d,
  let c' := as_child c d in
  c_allow_unknown c' = c_allow_unknown c /\ c_require_all c' = c_require_all c /\ c_ignore_none c' = c_ignore_none c /\
  c_purge_unknown c' = c_purge_unknown c /\ c_purge_readonly c' = c_purge_readonly c /\
  c_is_normalized c' = c_is_normalized c /\ c_rules_reg c' = c_rules_reg c /\ c_schema_reg c' = c_schema_reg c /\
  c_is_child c' = true.
Proof. exact as_child_options. Qed.

Theorem C10_root_relative : forall root_doc c, descends root_doc c -> c_is_child c = true /\ c_root_doc c = root_doc.
Proof. exact root_document_is_outermost. Qed.
Print Assumptions C10_root_relative.

Theorem C10_dict_schema_is_child_validation :
  forall (child : ctx -> res (list error)) x st field d sch rs,
    assoc_get field (x_schema x) = Some (VDict rs) ->
    let cfg' := set_require_all
                  (set_allow_unknown (x_cfg x) (match assoc_get (KStr "allow_unknown") rs with
                                                | Some a => a | None => c_allow_unknown (x_cfg x) end))
                  (match assoc_get (KStr "require_all") rs with Some r => truthy r | None => c_require_all (x_cfg x) end) in
    let cx := site_ctx current x cfg' sch d field "schema" "validate_schema_mapping" in
    forall ces, child cx = Ok ces ->
    h_schema current child x st (VDict sch) field (VDict d) =
      match ces with
      | [] => plain st
      | _ => do st' <- file_error current x st field "MAPPING_SCHEMA" [] ces; plain st'
      end.
Proof. exact (mapping_schema_child current). Qed.
Print Assumptions C10_dict_schema_is_child_validation.

Theorem C10_valuesrules_is_child_validation :
  forall (child : ctx -> res (list error)) x st field d c,
    let cx := site_ctx current x (x_cfg x) (map (fun kv => (fst kv, c)) d) d field "valuesrules" "validate_valuesrules" in
    forall ces, child cx = Ok ces ->
    h_valuesrules current child x st c field (VDict d) =
      match ces with
      | [] => plain st
      | _ => do st' <- file_error current x st field "VALUESRULES" [] (drop_sp_all current x "validate_valuesrules" ces); plain st'
      end.
Proof. exact (valuesrules_child current). Qed.

Theorem C10_keysrules_is_child_validation :
  forall (child : ctx -> res (list error)) x st field d c,
    let cx := site_ctx current x (x_cfg x) (map (fun kv => (fst kv, c)) d) (map (fun kv => (fst kv, key_to_value (fst kv))) d)
                       field "keysrules" "validate_keysrules" in
    forall ces, child cx = Ok ces ->
    h_keysrules current child x st c field (VDict d) =
      match ces with
      | [] => plain st
      | _ => do st' <- file_error current x st field "KEYSRULES" [] (drop_sp_all current x "validate_keysrules" ces); plain st'
      end.
Proof. exact (keysrules_child current). Qed.

Theorem C10_list_schema_is_child_validation :
  forall (child : ctx -> res (list error)) x st field l c,
    c <> VNone ->
    let cx := site_ctx current x (x_cfg x) (map (fun kv => (fst kv, c)) (enumerate l)) (enumerate l)
                       field "schema" "validate_schema_sequence" in
    forall ces, child cx = Ok ces ->
    h_schema current child x st c field (VList l) =
      match ces with
      | [] => plain st
      | _ => do st' <- file_error current x st field "SEQUENCE_SCHEMA" [] (drop_sp_all current x "validate_schema_sequence" ces); plain st'
      end.
Proof. exact (sequence_schema_child current). Qed.

Theorem C10_items_is_child_validation :
  forall (child : ctx -> res (list error)) x st field v its vals,
    py_len v = Some (List.length its) -> py_iter v = Some vals ->
    let cx := site_ctx current x (x_cfg x) (enumerate its) (enumerate vals) field "items" "validate_items" in
    forall ces, child cx = Ok ces ->
    h_items current child x st (VList its) field v =
      match ces with
      | [] => plain st
      | _ => do st' <- file_error current x st field "BAD_ITEMS" [] ces; plain st'
      end.
Proof. exact (items_child current). Qed.

Theorem C10_bubbling_keeps_document_paths : forall x site es,
  map e_dp (drop_sp_all current x site es) = map e_dp es /\ map e_code (drop_sp_all current x site es) = map e_code es.
Proof. exact (drop_sp_all_dps current). Qed.

(* every error recorded by a (child) validator strictly extends that validator's document path: errors beneath a
   field are prefixed with the field's path, at every depth *)
Theorem C10_paths_prefixed : forall fuel x errs,
  validate_ctx current fuel x = Ok errs -> good current (x_dp x) errs.
Proof. exact (validate_paths_extend current). Qed.
Print Assumptions C10_paths_prefixed.

Example C10_example :
  let cfg := {| c_allow_unknown := VBool false; c_require_all := false; c_ignore_none := false; c_purge_unknown := false;
                c_purge_readonly := false; c_is_child := false; c_is_normalized := false; c_root_doc := VNone;
                c_rules_reg := []; c_schema_reg := [] |} in
  let inner := VDict [(KStr "x", VDict [(KStr "required", VBool true); (KStr "dependencies", VStr "^r")])] in
  let schema := [(KStr "t", VDict [(KStr "type", VStr "list"); (KStr "schema", VDict [(KStr "type", VStr "dict"); (KStr "schema", inner)])]);
                 (KStr "r", VDict [])] in
  match validate_ctx current 8 {| x_cfg := cfg; x_schema := schema; x_doc := [(KStr "t", VList [VDict [(KStr "x", VInt 1)]]); (KStr "r", VInt 0)];
                                  x_dp := []; x_sp := []; x_update := false |},
        validate_ctx current 8 {| x_cfg := cfg; x_schema := schema; x_doc := [(KStr "t", VList [VDict [(KStr "x", VInt 1)]])];
                                  x_dp := []; x_sp := []; x_update := false |} with
  | Ok [], Ok [e] => e_code e = 130%Z     (* with the root field r present the nested ^r dependency is met; without it: one SEQUENCE_SCHEMA group error *)
  | _, _ => False
  end.
Proof. vm_compute. reflexivity. Qed.


(* A recorded finding, as a witness on the model (which follows the implementation): WITH normalization on, a read-only
   violation stops the field's remaining rules at the root -- the validation pass finds the error that normalization filed --
   but not in a sub-document, whose child validator starts from an empty error list: nested, the type error (code 0x24) is
   reported beside the read-only error; the sub-document on its own reports the read-only error alone. *)
Example C10_refuted_readonly_in_a_sub_document_with_normalization :
  let cfg := {| c_allow_unknown := VBool false; c_require_all := false; c_ignore_none := false; c_purge_unknown := false;
                c_purge_readonly := false; c_is_child := false; c_is_normalized := false; c_root_doc := VNone;
                c_rules_reg := []; c_schema_reg := [] |} in
  let sub := [(KStr "b", VDict [(KStr "readonly", VBool true); (KStr "type", VStr "string")])] in
  let nested := [(KStr "a", VDict [(KStr "type", VStr "dict"); (KStr "schema", VDict sub)])] in
  let codes r := match r with Ok o => map e_code (flatten (f_masks current) (out_errs o)) | _ => [] end in
  let has c l := existsb (Z.eqb c) l in
  has 36%Z (codes (api_validate current 8 cfg nested [(KStr "a", VDict [(KStr "b", VInt 1)])] false true)) = true /\
  has 99%Z (codes (api_validate current 8 cfg nested [(KStr "a", VDict [(KStr "b", VInt 1)])] false true)) = true /\
  has 36%Z (codes (api_validate current 8 cfg sub [(KStr "b", VInt 1)] false true)) = false /\
  has 99%Z (codes (api_validate current 8 cfg sub [(KStr "b", VInt 1)] false true)) = true.
Proof. vm_compute. repeat split; reflexivity. Qed.
