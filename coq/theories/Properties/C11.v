(* C11 -- Error trees contain exactly the reported errors at their paths.
   Property theorems only; each is closed by [exact] of a lemma proved in
   Proofs/TreeProofs.v and instantiated at the facts extracted from /repo. *)
From Coq Require Import List ZArith String Bool Permutation.
From Cerb Require Import Values PyOps Errors Tree Facts Pool Validate TreeProofs PathProofs Current.
Import ListNotations.

Definition M := f_masks current.

(* fetch_errors_from(path) returns exactly the errors (incl. nested child errors,
   re-inserted from the root) whose path of that kind is [p] *)
Theorem C11_fetch_errors_exact : forall kd errs p,
  Permutation (fetch_errors (build M kd errs) p) (filter (atp kd p) (tflat M kd errs)).
Proof. exact (build_fetch M). Qed.
Print Assumptions C11_fetch_errors_exact.

(* nothing else is in the tree *)
Theorem C11_nothing_else : forall kd errs,
  Permutation (all_errors (build M kd errs)) (tflat M kd errs).
Proof. exact (build_all_errors M). Qed.
Print Assumptions C11_nothing_else.

(* fetch_node_from(path) is not None iff some contained error's path extends [p] *)
Theorem C11_fetch_node_iff_prefix : forall kd errs p,
  is_some (fetch_node (build M kd errs) p) =
  match p with [] => true | _ :: _ => existsb (under kd p) (tflat M kd errs) end.
Proof. exact (build_node M). Qed.
Print Assumptions C11_fetch_node_iff_prefix.

(* both trees are empty iff there are no errors *)
Theorem C11_empty_iff_no_errors : forall kd errs,
  tree_is_empty (build M kd errs) = true <-> errs = [].
Proof. exact (build_empty_iff M). Qed.
Print Assumptions C11_empty_iff_no_errors.

(* when every reported (nested) error has a non-empty path -- which the validator
   guarantees, it always appends the field -- the tree content is the plain
   flattening of the error list *)
Theorem C11_content_is_flatten : forall kd errs,
  Forall (nonempty_paths kd) (flatten M errs) -> tflat M kd errs = flatten M errs.
Proof. exact (tflat_flatten M). Qed.
Print Assumptions C11_content_is_flatten.

(* ... and the validator's recorded errors DO have non-empty document paths, at any nesting depth (invariant of the
   whole validation model, PathProofs.validate_paths_extend): the document tree of a validation contains exactly
   the reported errors, nested child errors included, each retrievable at precisely its document path *)
Theorem C11_document_tree_of_a_validation : forall fuel x errs p,
  validate_ctx current fuel x = Ok errs ->
  Permutation (fetch_errors (build M KDoc errs) p) (filter (atp KDoc p) (flatten M errs)).
Proof.
  intros fuel x errs p H. rewrite build_fetch.
  rewrite (tflat_flatten M KDoc errs); [reflexivity|].
  exact (recorded_paths_nonempty current fuel x errs H).
Qed.
Print Assumptions C11_document_tree_of_a_validation.

(* `definition in node` and node[definition] agree with the node's error list *)
Theorem C11_contains_agrees : forall n c,
  node_contains_code n c = true <-> exists e, In e (node_errs n) /\ e_code e = c.
Proof. exact node_contains_code_iff. Qed.
Theorem C11_getitem_agrees : forall n c e,
  node_get_code n c = Some e -> In e (node_errs n) /\ e_code e = c.
Proof. exact node_get_code_some. Qed.
Theorem C11_getitem_none : forall n c,
  node_get_code n c = None <-> node_contains_code n c = false.
Proof. exact node_get_code_none_iff. Qed.
Print Assumptions C11_getitem_none.

(* non-vacuity: a concrete forest with a nested group error *)
Example C11_example :
  let child := Err [KStr "a"; KInt 0] (SP [KStr "a"; KStr "schema"; KStr "type"]) 36 (Some "type"%string) VNone VNone [] [] in
  let grp := Err [KStr "a"] (SP [KStr "a"; KStr "schema"]) 130 (Some "schema"%string) VNone VNone [] [child] in
  List.length (fetch_errors (build M KDoc [grp]) [KStr "a"; KInt 0]) = 1%nat /\
  List.length (all_errors (build M KSch [grp])) = 2%nat.
Proof. vm_compute. split; reflexivity. Qed.
