(* C12 -- each error points to the offending value and the violated constraint.  PARTIAL: proved on the model are
   (1) every error's document path strictly extends the document path of the validator that filed it (any depth);
   (2) an error's code and rule come from ONE error definition, its value is the field's value in the document being
       validated and its constraint is the rule's constraint in the field's (resolved) rule set;
   (3) the error definitions used with child errors are exactly the group ones (children <-> group);
   that following the (crumb-adjusted) schema path through the schema reaches the constraint is decided by the
   path-resolution oracle on the real code and by diffing full error keys (paths, constraint, value) against the model. *)
From Coq Require Import List ZArith String Bool.
From Cerb Require Import Values PyOps Errors Tree Facts SpecFacts FactsOk Pool Validate PathProofs LocProofs DefProofs Current.
From Cerb Require SpProofs.
Import ListNotations.
Open Scope string_scope.
Open Scope list_scope.

Theorem C12_error_facts : ok_errors current = true /\ ok_sites current = true.
Proof. vm_compute. split; reflexivity. Qed.
Print Assumptions C12_error_facts.

Theorem C12_document_paths_extend : forall fuel x errs,
  validate_ctx current fuel x = Ok errs -> good current (x_dp x) errs.
Proof. exact (validate_paths_extend current). Qed.
Print Assumptions C12_document_paths_extend.

(* what _error records: code and rule of one definition; the value found under the field in the document being
   validated (None when absent: the missing required field); the constraint stored under the rule in the field's
   rule set (defaults for the implicit nullable / require_all cases) *)
Theorem C12_error_record : forall x field d info ch e,
  mk_error current x field d info ch = Ok e ->
  (e_code e, e_rule e) = errdef current d /\
  e_value e = (match assoc_get field (x_doc x) with Some v => v | None => VNone end) /\
  e_dp e = x_dp x ++ [field] /\ e_children e = ch /\
  (forall r, e_rule e = Some r -> r <> "nullable" -> r <> "required" ->
     exists rs, resolve_rules_set (x_cfg x) (match assoc_get field (x_schema x) with Some v => v | None => c_allow_unknown (x_cfg x) end) = Some rs
                /\ vget r rs = Some (e_constraint e)).
Proof.
  intros x field d info ch e. unfold mk_error. destruct (errdef current d) as [code rule].
  destruct rule as [r|].
  - assert (E : (match assoc_get field (x_schema x) with Some rs1 => Some rs1 | None => Some (c_allow_unknown (x_cfg x)) end) =
                Some (match assoc_get field (x_schema x) with Some v => v | None => c_allow_unknown (x_cfg x) end)).
    { destruct (assoc_get field (x_schema x)); reflexivity. }
    rewrite E. destruct (resolve_rules_set (x_cfg x) _) as [rs|] eqn:Er; [|discriminate].
    destruct (String.eqb r "nullable") eqn:E1.
    + intro H. injection H as <-. repeat split. intros r' Hr' Hn _. injection Hr' as <-. apply String.eqb_eq in E1. contradiction.
    + destruct (String.eqb r "required") eqn:E2.
      * intro H. injection H as <-. repeat split. intros r' Hr' _ Hq. injection Hr' as <-. apply String.eqb_eq in E2. contradiction.
      * destruct (vget r rs) as [k|] eqn:Ek; [|discriminate].
        intro H. injection H as <-. repeat split. intros r' Hr' _ _. injection Hr' as <-. exists rs. split; [reflexivity|exact Ek].
  - intro H. injection H as <-. repeat split. intros r' Hr'. discriminate.
Qed.
Print Assumptions C12_error_record.

(* child errors are filed only with group definitions, and leaf definitions never carry children *)
Theorem C12_children_iff_group :
  forallb (fun d => is_group (f_masks current) (Err [] (SP []) (errcode current d) None VNone VNone [] []))
          ["MAPPING_SCHEMA"; "SEQUENCE_SCHEMA"; "KEYSRULES"; "VALUESRULES"; "BAD_ITEMS"; "ANYOF"; "ALLOF"; "NONEOF"; "ONEOF"] = true /\
  forallb (fun d => negb (is_group (f_masks current) (Err [] (SP []) (errcode current d) None VNone VNone [] [])))
          ["REQUIRED_FIELD"; "UNKNOWN_FIELD"; "DEPENDENCIES_FIELD"; "DEPENDENCIES_FIELD_VALUE"; "EXCLUDES_FIELD"; "EMPTY_NOT_ALLOWED";
           "NOT_NULLABLE"; "BAD_TYPE"; "BAD_TYPE_FOR_SCHEMA"; "ITEMS_LENGTH"; "MIN_LENGTH"; "MAX_LENGTH"; "REGEX_MISMATCH"; "MIN_VALUE";
           "MAX_VALUE"; "UNALLOWED_VALUE"; "UNALLOWED_VALUES"; "FORBIDDEN_VALUE"; "FORBIDDEN_VALUES"; "MISSING_MEMBERS"; "CUSTOM";
           "READONLY_FIELD"] = true.
Proof. vm_compute. split; reflexivity. Qed.

(* the document path leads to the value: for EVERY validator of a run -- the root and each child validator at any depth
   of schema and document -- every error in its list sits at the validator's document path extended by one field, and
   the value it stores is the value the (sub-)document being validated holds under that field, or None (a missing
   required field, whose path then leads to the mapping that lacks it).  Induction on fuel over the whole model. *)
Theorem C12_errors_located : forall fuel x errs,
  validate_ctx current fuel x = Ok errs ->
  Forall (fun e => exists field, e_dp e = x_dp x ++ [field] /\
                     ((exists v, In (field, v) (x_doc x) /\ e_value e = v) \/ e_value e = VNone)) errs.
Proof. exact (validate_errors_located current). Qed.
Print Assumptions C12_errors_located.

(* code and rule belong to the same error definition -- for every error a validator records at ANY depth, nested child
   errors (after bubbling) included.  Induction on fuel over the whole model. *)
Theorem C12_code_and_rule_of_one_definition_at_every_depth : forall fuel x errs,
  validate_ctx current fuel x = Ok errs ->
  Forall (fun e => exists d, (e_code e, e_rule e) = errdef current d) (flatten (f_masks current) errs).
Proof. exact (validate_errors_defined current). Qed.
Print Assumptions C12_code_and_rule_of_one_definition_at_every_depth.

(* the schema path leads to where the constraint is spelled out: for EVERY validator of a run, at any depth, every error
   of its list has a schema path that starts with the validator's schema path, continues with allow_unknown crumbs only
   (unknown fields held against an allow_unknown rules set), and -- when it is not the bare validator path (unknown
   field, custom errors without a rule) or '__require_all__' -- ends with [field; rule], field being the last element of
   its document path and rule its own rule.  With C12_error_record (the constraint is the rule's entry in the field's
   resolved rule set) that is schema-path resolution for a validator's own errors; what stays with the oracle is the
   resolution of CHILD errors' paths after bubbling has dropped crumbs. *)
Theorem C12_schema_paths_located : forall fuel x errs,
  validate_ctx current fuel x = Ok errs ->
  Forall (fun e => exists field mid, e_dp e = x_dp x ++ [field] /\
                     Forall (fun k => k = KStr "allow_unknown" \/ k = KStr "__allow_unknown__") mid /\
                     (e_sp e = SPStr "__require_all__" \/ e_sp e = SP (x_sp x ++ mid) \/
                      exists r, e_rule e = Some r /\ e_sp e = SP (x_sp x ++ mid ++ [field; KStr r]))) errs.
Proof. exact (SpProofs.validate_schema_paths_located current). Qed.
Print Assumptions C12_schema_paths_located.

Example C12_example :
  let cfg := {| c_allow_unknown := VBool false; c_require_all := false; c_ignore_none := false; c_purge_unknown := false;
                c_purge_readonly := false; c_is_child := false; c_is_normalized := false; c_root_doc := VNone;
                c_rules_reg := []; c_schema_reg := [] |} in
  let schema := [(KStr "a", VDict [(KStr "type", VStr "dict"); (KStr "keysrules", VDict [(KStr "oneof", VList [VDict [(KStr "type", VStr "integer")];
                                                                                                               VDict [(KStr "minlength", VInt 3)]])])])] in
  match validate_ctx current 8 {| x_cfg := cfg; x_schema := schema; x_doc := [(KStr "a", VDict [(KStr "ab", VInt 1)])];
                                  x_dp := []; x_sp := []; x_update := false |} with
  | Ok [e] => match e_children e with
              | [o] => e_sp o = SP [KStr "a"; KStr "keysrules"; KStr "oneof"] /\
                       map e_sp (e_children o) = [SP [KStr "a"; KStr "keysrules"; KStr "oneof"; KInt 0; KStr "type"];
                                                  SP [KStr "a"; KStr "keysrules"; KStr "oneof"; KInt 1; KStr "minlength"]]
              | _ => False
              end
  | _ => False
  end.
Proof. vm_compute. split; reflexivity. Qed.
