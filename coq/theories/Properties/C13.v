(* C13 -- the errors property is a pure and complete rendering of the errors.  Model: Model/Handler.v
   (tokens for messages).  PARTIAL: purity and the one-message-per-insertion / top-level-key laws are proved;
   the full path law for nested *of errors is checked by diffing the real handler logic against the model. *)
From Coq Require Import List ZArith String Bool.
From Cerb Require Import Values PyOps Errors Facts SpecFacts FactsOk Pool Handler HandlerProofs Current.
Import ListNotations.

(* the code renders deep copies: BasicErrorHandler.add starts with deepcopy(error), and the error table /
   classification masks / message keys are the documented ones (re-read from errors.py on this run) *)
Theorem C13_handler_facts : f_handler_add_copies current = true /\ ok_errors current = true /\ ok_messages current = true.
Proof. vm_compute. repeat split; reflexivity. Qed.
Print Assumptions C13_handler_facts.

(* reading the property returns the recorded errors unchanged, and reading twice gives equal results *)
Theorem C13_pure : forall errs, snd (render current errs) = errs /\ fst (render current errs) = fst (render current (snd (render current errs))).
Proof. intro errs. split; reflexivity. Qed.
Print Assumptions C13_pure.

Theorem C13_empty_when_no_errors : fst (render current []) = rt_empty.
Proof. reflexivity. Qed.

(* every non-group error (with a message) contributes exactly one message, in the sub-tree under the first
   element of its document path; no other top-level key appears *)
Theorem C13_one_message_per_error : forall e t,
  is_logic (f_masks current) e = false -> is_group (f_masks current) e = false -> has_message current (e_code e) = true ->
  e_dp e <> [] ->
  rt_count (add_error current t e) = S (rt_count t) /\
  (forall k p, e_dp e = k :: p ->
     rt_keys (add_error current t e) = if existsb (key_eqb k) (rt_keys t) then rt_keys t else rt_keys t ++ [k]).
Proof. exact (leaf_error_one_message current). Qed.
Print Assumptions C13_one_message_per_error.

(* one insertion = one more message, for any path and tree *)
Theorem C13_insertion_law : forall p m t, p <> [] -> rt_count (rt_insert p m t) = S (rt_count t).
Proof. exact rt_insert_count. Qed.

(* non-vacuity: an *of error inside a sequence: the definition node appears in the rewritten path *)
Example C13_example :
  let leaf := Err [KStr "a"; KInt 0] (SP [KStr "a"; KStr "schema"; KStr "anyof"; KInt 1; KStr "type"]) 36 (Some "type"%string) VNone VNone [] [] in
  let lg := Err [KStr "a"; KInt 0] (SP [KStr "a"; KStr "schema"; KStr "anyof"]) 147 (Some "anyof"%string) VNone VNone [VInt 0; VInt 2] [leaf] in
  let grp := Err [KStr "a"] (SP [KStr "a"; KStr "schema"]) 130 (Some "schema"%string) VNone VNone [] [lg] in
  rt_count (fst (render current [grp])) = 2%nat /\ rt_keys (fst (render current [grp])) = [KStr "a"].
Proof. vm_compute. split; reflexivity. Qed.
