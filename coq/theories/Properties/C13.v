(* C13 -- the errors property is a pure and complete rendering of the errors.  Model: Model/Handler.v
   (tokens for messages).  Proved: purity; one message per insertion and the top-level-key law; and, for error
   forests of ANY nesting, the number of messages of the rendering: every non-group error contributes exactly one
   message, an *of error its own message plus what its definitions' errors contribute, a group error what its
   children contribute (C13_message_count).  PARTIAL: WHERE nested messages are placed (the dict that ends the
   parent's list, the `<rule> definition <i>` nodes) is checked by diffing the real handler against the model node
   by node, not stated as a theorem. *)
From Coq Require Import List ZArith String Bool.
From Cerb Require Import Values PyOps Errors Tree Facts SpecFacts FactsOk Pool Validate LocProofs Handler HandlerProofs Current.
Import ListNotations.

(* the code renders deep copies: BasicErrorHandler.add starts with deepcopy(error), and the error table /
   classification masks / message keys are the documented ones (re-read from errors.py on this run) *)
Theorem C13_handler_facts : f_handler_add_copies current = true /\ ok_errors current = true /\ ok_messages current = true.
Proof. vm_compute. repeat split; reflexivity. Qed.
Print Assumptions C13_handler_facts.

(* reading the property returns the recorded errors unchanged, and reading twice gives equal results *)
Theorem C13_pure : forall errs, snd (render current errs) = errs /\ fst (render current errs) = fst (render current (snd (render current errs))).
Proof. intro errs. split; reflexivity. Qed.
Print Assumptions C13_pure.

Theorem C13_empty_when_no_errors : fst (render current []) = rt_empty.
Proof. reflexivity. Qed.

(* every non-group error (with a message) contributes exactly one message, in the sub-tree under the first
   element of its document path; no other top-level key appears *)
Theorem C13_one_message_per_error : forall e t,
  is_logic (f_masks current) e = false -> is_group (f_masks current) e = false -> has_message current (e_code e) = true ->
  e_dp e <> [] ->
  rt_count (add_error current t e) = S (rt_count t) /\
  (forall k p, e_dp e = k :: p ->
     rt_keys (add_error current t e) = if existsb (key_eqb k) (rt_keys t) then rt_keys t else rt_keys t ++ [k]).
Proof. exact (leaf_error_one_message current). Qed.
Print Assumptions C13_one_message_per_error.

(* one insertion = one more message, for any path and tree *)
Theorem C13_insertion_law : forall p m t, p <> [] -> rt_count (rt_insert p m t) = S (rt_count t).
Proof. exact rt_insert_count. Qed.

(* non-vacuity: an *of error inside a sequence: the definition node appears in the rewritten path *)
Example C13_example :
  let leaf := Err [KStr "a"; KInt 0] (SP [KStr "a"; KStr "schema"; KStr "anyof"; KInt 1; KStr "type"]) 36 (Some "type"%string) VNone VNone [] [] in
  let lg := Err [KStr "a"; KInt 0] (SP [KStr "a"; KStr "schema"; KStr "anyof"]) 147 (Some "anyof"%string) VNone VNone [VInt 0; VInt 2] [leaf] in
  let grp := Err [KStr "a"] (SP [KStr "a"; KStr "schema"]) 130 (Some "schema"%string) VNone VNone [] [lg] in
  rt_count (fst (render current [grp])) = 2%nat /\ rt_keys (fst (render current [grp])) = [KStr "a"].
Proof. vm_compute. split; reflexivity. Qed.

(* the number of messages, for any nesting *)
Theorem C13_message_count : forall errs, Forall (fun e => e_dp e <> []) errs ->
  rt_count (fst (render current errs)) = fold_left (fun n e => (n + nmsgs current (S (err_depth e)) 0 e)%nat) errs O.
Proof. exact (render_count current). Qed.
Print Assumptions C13_message_count.

(* what one error contributes: [nmsgs] unfolds to the statement's counting rule *)
Theorem C13_count_rule : forall f kind e,
  nmsgs current (S f) kind e =
  if is_logic (f_masks current) e then S (fold_left (fun n c => (n + nmsgs current f 2 c)%nat) (child_errors (f_masks current) e) O)
  else if is_group (f_masks current) e then fold_left (fun n c => (n + nmsgs current f 1 c)%nat) (child_errors (f_masks current) e) O
  else match kind with O => if has_message current (e_code e) then 1%nat else O | _ => 1%nat end.
Proof. reflexivity. Qed.

Example C13_count_example :
  let leaf1 := Err [KStr "a"; KInt 0] (SP [KStr "a"; KStr "schema"; KStr "anyof"; KInt 0; KStr "type"]) 36 (Some "type"%string) VNone VNone [] [] in
  let leaf2 := Err [KStr "a"; KInt 0] (SP [KStr "a"; KStr "schema"; KStr "anyof"; KInt 1; KStr "min"]) 66 (Some "min"%string) VNone VNone [] [] in
  let lg := Err [KStr "a"; KInt 0] (SP [KStr "a"; KStr "schema"; KStr "anyof"]) 147 (Some "anyof"%string) VNone VNone [VInt 0; VInt 2] [leaf1; leaf2] in
  let grp := Err [KStr "a"] (SP [KStr "a"; KStr "schema"]) 130 (Some "schema"%string) VNone VNone [] [lg] in
  nmsgs current (S (err_depth grp)) 0 grp = 3%nat /\ rt_count (fst (render current [grp])) = 3%nat.
Proof. vm_compute. split; reflexivity. Qed.

(* "its top-level keys are exactly the first document-path elements of the recorded errors": for any error list and
   any nesting, a key is at the top of the errors property iff it is the first document-path element of a recorded
   error that contributes a message (by C13_count_rule: every *of error, every group error with a contributing
   child, every other error whose code has a message template) *)
Theorem C13_top_level_keys : forall errs k, Forall (fun e => e_dp e <> []) errs ->
  (In k (rt_keys (fst (render current errs))) <->
   exists e p, In e errs /\ e_dp e = k :: p /\ (0 < nmsgs current (S (err_depth e)) 0 e)%nat).
Proof. exact (render_keys current). Qed.
Print Assumptions C13_top_level_keys.

Example C13_keys_example :
  let leaf := Err [KStr "b"] (SP [KStr "b"; KStr "type"]) 36 (Some "type"%string) VNone VNone [] [] in
  let sub := Err [KStr "a"; KStr "x"] (SP [KStr "a"; KStr "schema"; KStr "x"; KStr "min"]) 66 (Some "min"%string) VNone VNone [] [] in
  let grp := Err [KStr "a"] (SP [KStr "a"; KStr "schema"]) 129 (Some "schema"%string) VNone VNone [] [sub] in
  let empty_grp := Err [KStr "c"] (SP [KStr "c"; KStr "schema"]) 129 (Some "schema"%string) VNone VNone [] [] in
  rt_keys (fst (render current [leaf; grp; empty_grp])) = [KStr "b"; KStr "a"] /\
  nmsgs current (S (err_depth empty_grp)) 0 empty_grp = 0%nat.
Proof. vm_compute. split; reflexivity. Qed.

(* WHERE the messages are placed.  [rt_msgs q t] is the list of messages found at document path q: all but the last
   element of q walk through the dicts that end the parent fields' lists, the last element selects the list.
   One insertion appends to the list at its path and touches the list at no other path; hence a non-group error is
   rendered as one message in the list at exactly its document path, and for any forest the list at ANY path is, in
   order, what the recorded errors place there ([msgs_at], the statement's rule: a leaf one message at its path, an
   *of error its own message at its path plus its definitions' errors, a group error its children's) *)
Theorem C13_insertion_placement : forall p q m t, p <> [] ->
  rt_msgs q (rt_insert p m t) = rt_msgs q t ++ (if path_dec q p then [m] else []).
Proof. intros p q m t H. apply rt_insert_msgs. exact H. Qed.

Theorem C13_leaf_message_at_its_path : forall e t,
  is_logic (f_masks current) e = false -> is_group (f_masks current) e = false -> has_message current (e_code e) = true ->
  e_dp e <> [] ->
  rt_msgs (e_dp e) (add_error current t e) = rt_msgs (e_dp e) t ++ [mk_msg (last_key (e_dp e)) e] /\
  (forall q, q <> e_dp e -> rt_msgs q (add_error current t e) = rt_msgs q t).
Proof. exact (leaf_error_placed current). Qed.
Print Assumptions C13_leaf_message_at_its_path.

Theorem C13_placement : forall errs q, Forall (fun e => e_dp e <> []) errs ->
  rt_msgs q (fst (render current errs)) =
  flat_map (fun e => msgs_at current (S (err_depth e)) 0 None (rewrite current (S (err_depth e)) 0 e) q) errs.
Proof. exact (render_msgs current). Qed.
Print Assumptions C13_placement.

Example C13_placement_example :
  let top := Err [KStr "a"] (SP [KStr "a"; KStr "type"]) 36 (Some "type"%string) VNone VNone [] [] in
  let sub := Err [KStr "a"; KStr "x"] (SP [KStr "a"; KStr "schema"; KStr "x"; KStr "min"]) 66 (Some "min"%string) VNone VNone [] [] in
  let grp := Err [KStr "a"] (SP [KStr "a"; KStr "schema"]) 129 (Some "schema"%string) VNone VNone [] [sub] in
  let t := fst (render current [top; grp]) in
  rt_msgs [KStr "a"] t = [{| g_code := 36; g_field := Some (KStr "a") |}] /\
  rt_msgs [KStr "a"; KStr "x"] t = [{| g_code := 66; g_field := Some (KStr "x") |}] /\
  rt_msgs [KStr "x"] t = [].
Proof. vm_compute. repeat split; reflexivity. Qed.

(* the SHAPE of the whole tree.  The errors property is the fold of single insertions over the flattened list of
   (document path, message) pairs ([all_insertions]: per error, by the statement's rule, after the path rewriting);
   and nothing else is in it: the dict below ANY path p -- the top level for p = [] -- has exactly the keys k for
   which some insertion goes to p ++ k :: q.  For an *of error that is one sub-tree per failing definition. *)
Theorem C13_errors_property_is_fold_of_insertions : forall errs,
  fst (render current errs) = fold_left ins1 (all_insertions current errs) rt_empty.
Proof. exact (render_is_fold current). Qed.
Print Assumptions C13_errors_property_is_fold_of_insertions.

Theorem C13_nothing_else_in_the_tree : forall errs p k,
  In k (rt_keys (rt_sub p (fst (render current errs)))) <-> exists q m, In (p ++ k :: q, m) (all_insertions current errs).
Proof. exact (render_sub_keys current). Qed.
Print Assumptions C13_nothing_else_in_the_tree.

Example C13_shape_example :
  let leaf1 := Err [KStr "a"] (SP [KStr "a"; KStr "anyof"; KInt 0; KStr "type"]) 36 (Some "type"%string) VNone VNone [] [] in
  let leaf2 := Err [KStr "a"] (SP [KStr "a"; KStr "anyof"; KInt 1; KStr "min"]) 66 (Some "min"%string) VNone VNone [] [] in
  let lg := Err [KStr "a"] (SP [KStr "a"; KStr "anyof"]) 147 (Some "anyof"%string) VNone VNone [VInt 0; VInt 2] [leaf1; leaf2] in
  rt_keys (rt_sub [KStr "a"] (fst (render current [lg]))) = [KStr "anyof definition 0"; KStr "anyof definition 1"] /\
  map fst (all_insertions current [lg]) = [[KStr "a"]; [KStr "a"; KStr "anyof definition 0"]; [KStr "a"; KStr "anyof definition 1"]].
Proof. vm_compute. split; reflexivity. Qed.

(* for the error list of a ROOT validator (document path []) the hypotheses above hold and the paths are single fields:
   the top-level keys of the errors property of any validation are exactly the fields of its errors that contribute *)
Theorem C13_keys_of_a_validation : forall fuel x errs k,
  x_dp x = [] -> validate_ctx current fuel x = Ok errs ->
  (In k (rt_keys (fst (render current errs))) <->
   exists e, In e errs /\ e_dp e = [k] /\ (0 < nmsgs current (S (err_depth e)) 0 e)%nat).
Proof.
  intros fuel x errs k Hroot H. apply (validate_errors_located current) in H. unfold located in H. rewrite Hroot in H.
  assert (Hne : Forall (fun e => e_dp e <> []) errs).
  { eapply Forall_impl; [|exact H]. intros e [f [Hd _]] Hc. rewrite Hc in Hd. discriminate. }
  rewrite (render_keys current errs k Hne). rewrite Forall_forall in H. split.
  - intros [e [p [Hi [Hp Hn]]]]. exists e. split; [exact Hi|split; [|exact Hn]].
    destruct (H e Hi) as [f [Hd _]]. cbn [app] in Hd. rewrite Hd in Hp. injection Hp as <- <-. exact Hd.
  - intros [e [Hi [Hp Hn]]]. exists e, []. split; [exact Hi|split; [exact Hp|exact Hn]].
Qed.
Print Assumptions C13_keys_of_a_validation.
