(* C14 -- registry references behave exactly like the inlined definition.  PARTIAL.  On the validation model:
   two contexts that differ only in how the fields' rules sets are given (inline, or by names resolving to the same
   rules sets) file the same errors with the same constraints, evaluate `excludes` alike, let *of definitions inherit
   the same type / allow_unknown, and compute the same required set -- the use sites that consumed the reference
   unresolved before the repairs 0a14e11 / 9b2b365 / 42f9dde.  The statement for whole schemas (references at every
   nesting depth, normalization, acceptance) and the termination on self-referential definitions are decided by the
   inline-vs-reference oracle on the real code; known findings are listed there. *)
From Coq Require Import List ZArith String Bool.
From Cerb Require Import Values PyOps Errors Tree Facts Pool Validate RefProofs Current.
Import ListNotations.

Theorem C14_errors_see_resolved_rules : forall x x', same_resolved x x' ->
  forall field d info ch, mk_error current x' field d info ch = mk_error current x field d info ch.
Proof. intros x x' E. exact (mk_error_same current x x' E). Qed.
Print Assumptions C14_errors_see_resolved_rules.

Theorem C14_excludes_sees_resolved_rules : forall x x', same_resolved x x' ->
  forall st c field v, h_excludes current x' st c field v = h_excludes current x st c field v.
Proof. intros x x' E. exact (excludes_same current x x' E). Qed.
Print Assumptions C14_excludes_sees_resolved_rules.

Theorem C14_of_rules_inherit_from_resolved_rules : forall x x', same_resolved x x' ->
  forall field def, inherit_rules current x' field def = inherit_rules current x field def.
Proof. intros x x' E. exact (inherit_rules_same current x x' E). Qed.

(* non-vacuity: a field given by reference and inline: same outcome, constraint found through the registry *)
Example C14_example :
  let cfg := {| c_allow_unknown := VBool false; c_require_all := false; c_ignore_none := false; c_purge_unknown := false;
                c_purge_readonly := false; c_is_child := false; c_is_normalized := false; c_root_doc := VNone;
                c_rules_reg := [("R"%string, VDict [(KStr "type", VStr "integer"); (KStr "excludes", VStr "b"); (KStr "required", VBool true);
                                                    (KStr "anyof", VList [VDict [(KStr "min", VInt 5)]])])];
                c_schema_reg := [] |} in
  let inline := VDict [(KStr "type", VStr "integer"); (KStr "excludes", VStr "b"); (KStr "required", VBool true);
                       (KStr "anyof", VList [VDict [(KStr "min", VInt 5)]])] in
  let run s := validate_ctx current 6 {| x_cfg := cfg; x_schema := [(KStr "a", s); (KStr "b", VDict [])];
                                         x_doc := [(KStr "a", VStr "x"); (KStr "b", VInt 1)]; x_dp := []; x_sp := []; x_update := false |} in
  run (VStr "R") = run inline /\ match run inline with Ok (_ :: _) => True | _ => False end.
Proof. vm_compute. split; [reflexivity|exact I]. Qed.
