(* C14 -- registry references behave exactly like the inlined definition.  PARTIAL (one schema level, exact).  On the model:
   C14_fields_by_name_process_alike: giving any of the fields' rules sets by name leaves validate / normalized unchanged;
   per use site, moreover:
   two contexts that differ only in how the fields' rules sets are given (inline, or by names resolving to the same
   rules sets) file the same errors with the same constraints, evaluate `excludes` alike, let *of definitions inherit
   the same type / allow_unknown, and compute the same required set -- the use sites that consumed the reference
   unresolved before the repairs 0a14e11 / 9b2b365 / 42f9dde.  The statement for whole schemas (references at every
   nesting depth, normalization, acceptance) and the termination on self-referential definitions are decided by the
   inline-vs-reference oracle on the real code; known findings are listed there. *)
From Coq Require Import List ZArith String Bool.
From Cerb Require Import Values PyOps Errors Tree Facts Pool Validate Normalize RefProofs RefLevel NormLevel Current.
Import ListNotations.

Theorem C14_errors_see_resolved_rules : forall x x', same_resolved x x' ->
  forall field d info ch, mk_error current x' field d info ch = mk_error current x field d info ch.
Proof. intros x x' E. exact (mk_error_same current x x' E). Qed.
Print Assumptions C14_errors_see_resolved_rules.

Theorem C14_excludes_sees_resolved_rules : forall x x', same_resolved x x' ->
  forall st c field v, h_excludes current x' st c field v = h_excludes current x st c field v.
Proof. intros x x' E. exact (excludes_same current x x' E). Qed.
Print Assumptions C14_excludes_sees_resolved_rules.

Theorem C14_of_rules_inherit_from_resolved_rules : forall x x', same_resolved x x' ->
  forall field def, inherit_rules current x' field def = inherit_rules current x field def.
Proof. intros x x' E. exact (inherit_rules_same current x x' E). Qed.

(* One whole schema level, every rule, every child validator, every fuel: giving any of the fields' rules sets by the
   name of a registry entry that holds it changes nothing in what validate(normalize=False) records -- errors with
   their paths, constraints and children, the exception if one escapes, fuel exhaustion.  (Deeper positions are the
   schemas of the child validators, to which the theorem applies again; references INSIDE constraints show in the
   `constraint` attribute of errors and are decided by the inline-vs-reference oracle.) *)
Theorem C14_fields_by_name_validate_alike : forall fuel cfg doc dp sp u s s',
  Forall2 (fun kv' kv => fst kv' = fst kv /\ by_name cfg (snd kv') (snd kv)) s' s ->
  validate_ctx current fuel {| x_cfg := cfg; x_schema := s'; x_doc := doc; x_dp := dp; x_sp := sp; x_update := u |} =
  validate_ctx current fuel {| x_cfg := cfg; x_schema := s; x_doc := doc; x_dp := dp; x_sp := sp; x_update := u |}.
Proof. intros. apply validate_ctx_same_rules. apply by_name_same_rules. assumption. Qed.
Print Assumptions C14_fields_by_name_validate_alike.

(* ... and the same for the whole API of a fresh validator: validate(document, update, normalize) -- normalization,
   then validation of the normalized document with the normalization errors already on record -- and
   normalized(document): verdict, processed document and errors coincide. *)
Theorem C14_fields_by_name_process_alike : forall fuel cfg doc u nz s s',
  Forall2 (fun kv' kv => fst kv' = fst kv /\ by_name cfg (snd kv') (snd kv)) s' s ->
  api_validate current fuel cfg s' doc u nz = api_validate current fuel cfg s doc u nz /\
  api_normalized current fuel cfg s' doc = api_normalized current fuel cfg s doc.
Proof. intros. apply api_same_rules. apply by_name_same_rules. assumption. Qed.
Print Assumptions C14_fields_by_name_process_alike.

(* non-vacuity of the hypothesis and of the conclusion: a schema with one field by name, a default, a coercer and a failing rule *)
Example C14_process_example :
  let cfg := {| c_allow_unknown := VBool false; c_require_all := false; c_ignore_none := false; c_purge_unknown := false;
                c_purge_readonly := false; c_is_child := false; c_is_normalized := false; c_root_doc := VNone;
                c_rules_reg := [("R"%string, VDict [(KStr "type", VStr "integer"); (KStr "coerce", VStr "to_int"); (KStr "min", VInt 5)])];
                c_schema_reg := [] |} in
  let inline := [(KStr "a", VDict [(KStr "type", VStr "integer"); (KStr "coerce", VStr "to_int"); (KStr "min", VInt 5)]);
                 (KStr "b", VDict [(KStr "default", VInt 1)])] in
  let named := [(KStr "a", VStr "R"); (KStr "b", VDict [(KStr "default", VInt 1)])] in
  Forall2 (fun kv' kv => fst kv' = fst kv /\ by_name cfg (snd kv') (snd kv)) named inline /\
  match api_validate current 6 cfg named [(KStr "a", VStr "3")] false true with
  | Ok o => out_verdict o = false /\ out_doc o = [(KStr "a", VInt 3); (KStr "b", VInt 1)]
  | _ => False
  end.
Proof.
  split.
  - constructor; [split; [reflexivity|apply bn_ref; reflexivity]|]. constructor; [split; [reflexivity|apply bn_same]|constructor].
  - vm_compute. split; reflexivity.
Qed.

(* non-vacuity: a field given by reference and inline: same outcome, constraint found through the registry *)
Example C14_example :
  let cfg := {| c_allow_unknown := VBool false; c_require_all := false; c_ignore_none := false; c_purge_unknown := false;
                c_purge_readonly := false; c_is_child := false; c_is_normalized := false; c_root_doc := VNone;
                c_rules_reg := [("R"%string, VDict [(KStr "type", VStr "integer"); (KStr "excludes", VStr "b"); (KStr "required", VBool true);
                                                    (KStr "anyof", VList [VDict [(KStr "min", VInt 5)]])])];
                c_schema_reg := [] |} in
  let inline := VDict [(KStr "type", VStr "integer"); (KStr "excludes", VStr "b"); (KStr "required", VBool true);
                       (KStr "anyof", VList [VDict [(KStr "min", VInt 5)]])] in
  let run s := validate_ctx current 6 {| x_cfg := cfg; x_schema := [(KStr "a", s); (KStr "b", VDict [])];
                                         x_doc := [(KStr "a", VStr "x"); (KStr "b", VInt 1)]; x_dp := []; x_sp := []; x_update := false |} in
  run (VStr "R") = run inline /\ match run inline with Ok (_ :: _) => True | _ => False end.
Proof. vm_compute. split; [reflexivity|exact I]. Qed.
