(* C15 -- schema shorthands mean exactly their canonical form.  Model: Model/Expand.v (tied to schema.py by
   diffing the model's expansion of every generated shorthand variant against the validator.schema the real
   validator exposes).  PARTIAL: proved are (1) canonical schemas -- any nesting depth, through every recursion
   position (dict-/list-schema, keysrules, valuesrules, allow_unknown rule sets, items, *of definitions) -- are
   fixed points of expand; (2) what one <of>_<rule> shorthand expands to (split at the FIRST underscore);
   the general statement "every shorthand rewriting of a canonical schema expands back to it" is checked by the
   variant oracle on the real code and by the model diff, not by a theorem. *)
From Coq Require Import List ZArith String Bool.
From Cerb Require Import Values PyOps Expand ExpandProofs.
Import ListNotations.

Theorem C15_canonical_is_fixed_point : forall f s, canons f s = true -> expand (S f) s = Ok s.
Proof. exact expand_canonical. Qed.
Print Assumptions C15_canonical_is_fixed_point.

Theorem C15_shorthand_expands : forall d name op rule cs,
  split_first_underscore name EmptyString = (op, rule) ->
  assoc_get (KStr name) d = Some (VList cs) ->
  expand_one_shortcut d (KStr name) =
    Some (assoc_del (KStr name) (assoc_set (KStr op) (VList (map (fun c => VDict [(KStr rule, c)]) cs)) d)).
Proof. exact shorthand_expands. Qed.
Print Assumptions C15_shorthand_expands.

Theorem C15_split_at_first_underscore :
  split_first_underscore "oneof_allow_unknown" EmptyString = ("oneof", "allow_unknown")%string.
Proof. reflexivity. Qed.

(* non-vacuity of (1): a canonical schema with nested positions *)
Example C15_example :
  canons 2 [(KStr "a", VDict [(KStr "type", VStr "list");
                              (KStr "schema", VDict [(KStr "anyof", VList [VDict [(KStr "type", VStr "integer")];
                                                                           VDict [(KStr "type", VStr "string")]])])]);
            (KStr "b", VDict [(KStr "type", VStr "dict"); (KStr "keysrules", VDict [(KStr "type", VStr "string")]);
                              (KStr "allow_unknown", VDict [(KStr "min", VInt 1)])])] = true.
Proof. vm_compute. reflexivity. Qed.

Example C15_instance :
  expand_top [(KStr "a", VDict [(KStr "type", VStr "list");
                                (KStr "schema", VDict [(KStr "anyof_type", VList [VStr "integer"; VStr "string"])])]);
              (KStr "b", VDict [(KStr "type", VStr "dict"); (KStr "keyschema", VDict [(KStr "type", VStr "string")]);
                                (KStr "allow unknown", VBool true)])]
  = Ok [(KStr "a", VDict [(KStr "type", VStr "list");
                          (KStr "schema", VDict [(KStr "anyof", VList [VDict [(KStr "type", VStr "integer")];
                                                                       VDict [(KStr "type", VStr "string")]])])]);
        (KStr "b", VDict [(KStr "type", VStr "dict"); (KStr "allow_unknown", VBool true);
                          (KStr "keysrules", VDict [(KStr "type", VStr "string")])])].
Proof. exact expand_instance. Qed.
