(* C16 -- extensions work at every depth of their class and nowhere else.  PARTIAL: the class of a validator is, in
   the model, the pair (facts, pool) that [validate_ctx] / [normalize_ctx] carry unchanged through every child
   validator; what ties that to the code is read from the source on every run: the child factory is
   the class of the instance called with the instance's whole configuration as keyword arguments (translator, fact group F6, fail-closed),
   handlers are looked up by name on the instance, and every class has its own cache of validated schemas.
   Availability at depth and isolation between classes are decided by the generated-subclass oracle of the harness. *)
From Coq Require Import List ZArith String Bool.
From Cerb Require Import Values PyOps Errors Tree Facts SpecFacts FactsOk Pool Validate ChildProofs Current.
Import ListNotations.

Theorem C16_class_facts : f_cache_per_class current = true /\ ok_sites current = true.
Proof. vm_compute. split; reflexivity. Qed.
Print Assumptions C16_class_facts.

(* a child validator inherits the whole configuration (only is_child / root document are set) *)
Theorem C16_child_configuration : forall c d,
  let c' := as_child c d in
  c_allow_unknown c' = c_allow_unknown c /\ c_require_all c' = c_require_all c /\ c_ignore_none c' = c_ignore_none c /\
  c_purge_unknown c' = c_purge_unknown c /\ c_purge_readonly c' = c_purge_readonly c /\
  c_is_normalized c' = c_is_normalized c /\ c_rules_reg c' = c_rules_reg c /\ c_schema_reg c' = c_schema_reg c /\
  c_is_child c' = true.
Proof. exact as_child_options. Qed.

(* the rule dispatch of a child is the parent's: the same facts at every depth (one step of the recursion) *)
Theorem C16_same_dispatch_at_depth : forall fuel x,
  validate_ctx current (S fuel) x =
  (do st1 <- validate_fields current (validate_ctx current fuel) x {| s_errs := []; s_unreq := [] |} (x_doc x);
   do st2 <- (if x_update x then Ok st1 else validate_required current x st1);
   Ok (s_errs st2)).
Proof. reflexivity. Qed.

(* a pool checker named in a rule set three levels down is found and run *)
Example C16_example :
  let cfg := {| c_allow_unknown := VBool false; c_require_all := false; c_ignore_none := false; c_purge_unknown := false;
                c_purge_readonly := false; c_is_child := false; c_is_normalized := false; c_root_doc := VNone;
                c_rules_reg := []; c_schema_reg := [] |} in
  let schema := [(KStr "a", VDict [(KStr "type", VStr "list");
                                   (KStr "schema", VDict [(KStr "type", VStr "dict");
                                                          (KStr "valuesrules", VDict [(KStr "check_with", VStr "even")])])])] in
  match validate_ctx current 8 {| x_cfg := cfg; x_schema := schema; x_doc := [(KStr "a", VList [VDict [(KStr "k", VInt 3)]])];
                                  x_dp := []; x_sp := []; x_update := false |} with
  | Ok [_] => True
  | _ => False
  end.
Proof. vm_compute. exact I. Qed.
