(* C17 -- default setters resolve in dependency order and always terminate.
   Proved here, for the model at the facts extracted from /repo:
   - TERMINATION for arbitrary setters (any dependency graph, any failures) within the step bound n(n+1)+1;
   - locality of other exceptions;
   - the LEAST FIXPOINT: for dependency-graph setters (KeyError exactly when an input is absent, otherwise a value or
     another exception) over ANY number of fields, any graph (self-loops, several cycles), any set of fields already
     present and ANY order of the pending list, the document ends with exactly the obtainable fields and exactly the
     pending fields that are not resolvable -- on or behind a cycle, a failing setter or a missing key, or failing
     themselves -- carry a SETTING_DEFAULT_FAILED error at their own path; two orders give the same result.
   [seen] holds the pending lists themselves, as the code does (fact token state:tuple; the former hash of the tuple collided
   for the field names -1 and -2 and was repaired in be0af7a).
   The values the set fields receive are checked by the graph oracle of the harness, not stated here. *)
From Coq Require Import List ZArith String Bool.
From Cerb Require Import Values PyOps Errors Facts SpecFacts FactsOk Pool Validate Worklist Normalize WorklistProofs DefaultsProofs LfpProofs SetterLfp Current.
Import ListNotations.

(* the loop in the source is the loop Worklist.v models: head popped, KeyError re-queues at the BACK, any other exception is
   filed for the field itself, the pending list is remembered as a tuple, a repeated list files all pending fields and stops *)
Theorem C17_worklist_shape_is_modelled : ok_worklist current = true.
Proof. vm_compute. reflexivity. Qed.

(* generic: whatever calling a setter does (as long as the call itself returns), the work-list
   stops within wl_fuel n = n(n+1)+1 iterations *)
Theorem C17_worklist_terminates :
  forall (St : Type) (call : St -> key -> res (disp St)) (circular : St -> list key -> res St),
    (forall st f, call st f <> OutOfFuel) -> (forall st l, circular st l <> OutOfFuel) ->
    forall st pending, wl_run St call circular st pending <> OutOfFuel.
Proof. exact wl_run_terminates. Qed.
Print Assumptions C17_worklist_terminates.

(* instantiated at the normalization model with the facts extracted from /repo *)
Theorem C17_default_setters_terminate :
  forall x table ns pending,
    wl_run nstate (setter_call current x table) (setter_circular current x) ns pending <> OutOfFuel.
Proof. exact (setter_worklist_terminates current). Qed.
Print Assumptions C17_default_setters_terminate.

Theorem C17_other_exception_local :
  forall x table ns f rest seen fuel e,
    call_setter (n_map ns) (match assoc_get f table with Some r => r | None => None end) = Ok (SetFailed e) ->
    exists ns', nfile current x ns f "SETTING_DEFAULT_FAILED"%string [exc_message e] = Ok ns' /\
      (wl_loop nstate (setter_call current x table) (setter_circular current x) (S fuel) ns (f :: rest) seen =
       if existsb (path_eqb rest) seen then setter_circular current x ns' rest
       else wl_loop nstate (setter_call current x table) (setter_circular current x) fuel ns' rest (rest :: seen))
    \/ exists ex s, nfile current x ns f "SETTING_DEFAULT_FAILED"%string [exc_message e] = Raise ex s.
Proof. exact (other_exception_is_local current). Qed.
Print Assumptions C17_other_exception_local.

(* non-vacuity: a cycle a <-> b plus c reading a present field *)
Example C17_example :
  let table := [(KStr "a", Some (VDict [(KStr "default_setter", VStr "rd_b")]));
                (KStr "b", Some (VDict [(KStr "default_setter", VStr "rd_a")]));
                (KStr "c", Some (VDict [(KStr "default_setter", VStr "rd_d")]))] in
  let cfg := {| c_allow_unknown := VBool false; c_require_all := false; c_ignore_none := false; c_purge_unknown := false;
                c_purge_readonly := false; c_is_child := false; c_is_normalized := false; c_root_doc := VNone;
                c_rules_reg := []; c_schema_reg := [] |} in
  let x := {| x_cfg := cfg; x_schema := map (fun kv => (fst kv, match snd kv with Some v => v | None => VNone end)) table;
              x_doc := []; x_dp := []; x_sp := []; x_update := false |} in
  match wl_run nstate (setter_call current x table) (setter_circular current x)
               {| n_map := [(KStr "d", VInt 1)]; n_errs := [] |} [KStr "a"; KStr "b"; KStr "c"] with
  | Ok ns => (List.length (n_errs ns) = 2%nat /\ assoc_get (KStr "c") (n_map ns) = Some (VList [VInt 1]))
  | _ => False
  end.
Proof. vm_compute. split; reflexivity. Qed.

(* the least fixpoint, on the work-list itself: generic in the state *)
Theorem C17_worklist_least_fixpoint :
  forall (St : Type) (call : St -> key -> res (disp St)) (circular : St -> list key -> res St)
         (dom errs : St -> list key) (deps : key -> list key) (ok : key -> bool) (st0 : St) (pending0 : list key),
    NoDup pending0 ->
    (forall st f, In f pending0 ->
       match call st f with
       | Ok (DDone s) => ready St dom deps st f = true /\ ok f = true /\
                         (forall k, In k (dom s) <-> k = f \/ In k (dom st)) /\ (forall k, In k (errs s) <-> In k (errs st))
       | Ok (DFailed s) => ready St dom deps st f = true /\ ok f = false /\
                           (forall k, In k (dom s) <-> In k (dom st)) /\ (forall k, In k (errs s) <-> k = f \/ In k (errs st))
       | Ok DRequeue => ready St dom deps st f = false
       | _ => False
       end) ->
    (forall st f, call st f <> OutOfFuel) -> (forall st l, circular st l <> OutOfFuel) ->
    (forall st P, (forall g, In g P -> In g pending0) -> exists s,
       circular st P = Ok s /\ (forall k, In k (dom s) <-> In k (dom st)) /\ (forall k, In k (errs s) <-> In k P \/ In k (errs st))) ->
    exists s, wl_run St call circular st0 pending0 = Ok s /\
      (forall k, In k (dom s) <-> obtain St dom deps ok st0 pending0 k) /\
      (forall k, In k (errs s) <-> In k (errs st0) \/ (In k pending0 /\ ~ resolvable St dom deps ok st0 pending0 k)).
Proof. exact wl_least_fixpoint. Qed.
Print Assumptions C17_worklist_least_fixpoint.

(* ... and on the normalization model at the extracted facts *)
Theorem C17_least_fixpoint :
  forall x table deps ok,
    NoDup (map fst table) ->
    (forall f, In f (map fst table) -> forall m,
      match call_setter m (match assoc_get f table with Some r => r | None => None end) with
      | Ok (SetOk _) => (forall d, In d (deps f) -> In d (map fst m)) /\ ok f = true
      | Ok SetRequeue => ~ (forall d, In d (deps f) -> In d (map fst m))
      | Ok (SetFailed _) => (forall d, In d (deps f) -> In d (map fst m)) /\ ok f = false
      | _ => False
      end) ->
    (forall f, In f (map fst table) ->
      exists code rs0 rs, errdef current "SETTING_DEFAULT_FAILED" = (code, Some "default_setter") /\
        assoc_get f (x_schema x) = Some rs0 /\ resolve_rules_set (x_cfg x) rs0 = Some rs /\ vmem "default_setter" rs = true)%string ->
    forall ns0, exists ns',
      wl_run nstate (setter_call current x table) (setter_circular current x) ns0 (map fst table) = Ok ns' /\
      (forall k, In k (dom ns') <-> obtain nstate dom deps ok ns0 (map fst table) k) /\
      (forall k, In k (failed_fields current x ns') <->
                 In k (failed_fields current x ns0) \/
                 (In k (map fst table) /\ ~ resolvable nstate dom deps ok ns0 (map fst table) k)).
Proof. exact (default_setters_least_fixpoint current). Qed.
Print Assumptions C17_least_fixpoint.

Theorem C17_order_irrelevant :
  forall x table table' deps ok ns0,
    NoDup (map fst table) -> NoDup (map fst table') ->
    (forall f, In f (map fst table) <-> In f (map fst table')) ->
    (forall f, assoc_get f table' = assoc_get f table) ->
    (forall f, In f (map fst table) -> forall m,
      match call_setter m (match assoc_get f table with Some r => r | None => None end) with
      | Ok (SetOk _) => (forall d, In d (deps f) -> In d (map fst m)) /\ ok f = true
      | Ok SetRequeue => ~ (forall d, In d (deps f) -> In d (map fst m))
      | Ok (SetFailed _) => (forall d, In d (deps f) -> In d (map fst m)) /\ ok f = false
      | _ => False
      end) ->
    (forall f, In f (map fst table) ->
      exists code rs0 rs, errdef current "SETTING_DEFAULT_FAILED" = (code, Some "default_setter") /\
        assoc_get f (x_schema x) = Some rs0 /\ resolve_rules_set (x_cfg x) rs0 = Some rs /\ vmem "default_setter" rs = true)%string ->
    exists ns1 ns2,
      wl_run nstate (setter_call current x table) (setter_circular current x) ns0 (map fst table) = Ok ns1 /\
      wl_run nstate (setter_call current x table') (setter_circular current x) ns0 (map fst table') = Ok ns2 /\
      (forall k, In k (dom ns1) <-> In k (dom ns2)) /\
      (forall k, In k (failed_fields current x ns1) <-> In k (failed_fields current x ns2)).
Proof. exact (order_irrelevant current). Qed.
Print Assumptions C17_order_irrelevant.

(* non-vacuity of the hypotheses: a <- b, b <- (nothing), c <-> d (cycle), e <- b but raises ValueError,
   with the pool's reading setters; the graph hypothesis holds for EVERY document *)
Definition ex_table : list (key * option value) :=
  [(KStr "c", Some (VDict [(KStr "default_setter", VStr "rd_d")]));
   (KStr "a", Some (VDict [(KStr "default_setter", VStr "rd_b")]));
   (KStr "e", Some (VDict [(KStr "default_setter", VStr "rdx_b")]));
   (KStr "d", Some (VDict [(KStr "default_setter", VStr "rd_c")]));
   (KStr "b", Some (VDict [(KStr "default_setter", VStr "rd_")]))]%string.
Definition ex_deps (f : key) : list key :=
  if key_eqb f (KStr "a") then [KStr "b"] else if key_eqb f (KStr "c") then [KStr "d"]
  else if key_eqb f (KStr "d") then [KStr "c"] else if key_eqb f (KStr "e") then [KStr "b"] else [].
Definition ex_ok (f : key) : bool := negb (key_eqb f (KStr "e")).

Example C17_graph_hypothesis_holds :
  forall f, In f (map fst ex_table) -> forall m,
    match call_setter m (match assoc_get f ex_table with Some r => r | None => None end) with
    | Ok (SetOk _) => (forall d, In d (ex_deps f) -> In d (map fst m)) /\ ex_ok f = true
    | Ok SetRequeue => ~ (forall d, In d (ex_deps f) -> In d (map fst m))
    | Ok (SetFailed _) => (forall d, In d (ex_deps f) -> In d (map fst m)) /\ ex_ok f = false
    | _ => False
    end.
Proof.
  intros f Hf m. cbn in Hf. destruct Hf as [<-|[<-|[<-|[<-|[<-|[]]]]]].
  - pose proof (reading_setter_graph "rd_d" "d" m eq_refl) as H.
    change (match assoc_get (KStr "c") ex_table with Some r => r | None => None end) with (Some (VDict [(KStr "default_setter", VStr "rd_d")]))%string.
    destruct (call_setter m _) as [[v| |e]| |]; try contradiction; [split; [exact H|reflexivity]|exact H].
  - pose proof (reading_setter_graph "rd_b" "b" m eq_refl) as H.
    change (match assoc_get (KStr "a") ex_table with Some r => r | None => None end) with (Some (VDict [(KStr "default_setter", VStr "rd_b")]))%string.
    destruct (call_setter m _) as [[v| |e]| |]; try contradiction; [split; [exact H|reflexivity]|exact H].
  - pose proof (raising_setter_graph "rdx_b" "b" m eq_refl) as H.
    change (match assoc_get (KStr "e") ex_table with Some r => r | None => None end) with (Some (VDict [(KStr "default_setter", VStr "rdx_b")]))%string.
    destruct (call_setter m _) as [[v| |e]| |]; try contradiction; [exact H|split; [exact H|reflexivity]].
  - pose proof (reading_setter_graph "rd_c" "c" m eq_refl) as H.
    change (match assoc_get (KStr "d") ex_table with Some r => r | None => None end) with (Some (VDict [(KStr "default_setter", VStr "rd_c")]))%string.
    destruct (call_setter m _) as [[v| |e]| |]; try contradiction; [split; [exact H|reflexivity]|exact H].
  - pose proof (reading_setter_graph "rd_" "" m eq_refl) as H.
    change (match assoc_get (KStr "b") ex_table with Some r => r | None => None end) with (Some (VDict [(KStr "default_setter", VStr "rd_")]))%string.
    destruct (call_setter m _) as [[v| |e]| |]; try contradiction; [split; [exact H|reflexivity]|exact H].
Qed.

(* ... and on that table the run ends as the theorem says: a, b set; c, d (cycle) and e (raises) in error *)
Example C17_lfp_example :
  let cfg := {| c_allow_unknown := VBool false; c_require_all := false; c_ignore_none := false; c_purge_unknown := false;
                c_purge_readonly := false; c_is_child := false; c_is_normalized := false; c_root_doc := VNone;
                c_rules_reg := []; c_schema_reg := [] |} in
  let x := {| x_cfg := cfg; x_schema := map (fun kv => (fst kv, match snd kv with Some v => v | None => VNone end)) ex_table;
              x_doc := []; x_dp := []; x_sp := []; x_update := false |} in
  match wl_run nstate (setter_call current x ex_table) (setter_circular current x) {| n_map := []; n_errs := [] |} (map fst ex_table) with
  | Ok ns => (map fst (n_map ns) = [KStr "b"; KStr "a"] /\ failed_fields current x ns = [KStr "c"; KStr "d"; KStr "e"])%string
  | _ => False
  end.
Proof. vm_compute. split; reflexivity. Qed.
