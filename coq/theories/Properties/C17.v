(* C17 -- default setters resolve in dependency order and always terminate.
   Proved here: TERMINATION for arbitrary setters (any dependency graph, any failures) within
   the step bound n(n+1)+1, and locality of other exceptions.  The least-fixpoint
   characterisation of the result is checked against the real code by the
   exhaustive / random graph oracle of the harness (see DESIGN section 6 C17: partial). *)
From Coq Require Import List ZArith String Bool.
From Cerb Require Import Values PyOps Errors Facts Pool Validate Worklist Normalize WorklistProofs DefaultsProofs Current.
Import ListNotations.

(* generic: whatever calling a setter does (as long as the call itself returns), the work-list
   stops within wl_fuel n = n(n+1)+1 iterations *)
Theorem C17_worklist_terminates :
  forall (St : Type) (call : St -> key -> res (disp St)) (circular : St -> list key -> res St),
    (forall st f, call st f <> OutOfFuel) -> (forall st l, circular st l <> OutOfFuel) ->
    forall st pending, wl_run St call circular st pending <> OutOfFuel.
Proof. exact wl_run_terminates. Qed.
Print Assumptions C17_worklist_terminates.

(* instantiated at the normalization model with the facts extracted from /repo *)
Theorem C17_default_setters_terminate :
  forall x table ns pending,
    wl_run nstate (setter_call current x table) (setter_circular current x) ns pending <> OutOfFuel.
Proof. exact (setter_worklist_terminates current). Qed.
Print Assumptions C17_default_setters_terminate.

Theorem C17_other_exception_local :
  forall x table ns f rest seen fuel e,
    call_setter (n_map ns) (match assoc_get f table with Some r => r | None => None end) = Ok (SetFailed e) ->
    exists ns', nfile current x ns f "SETTING_DEFAULT_FAILED"%string [exc_message e] = Ok ns' /\
      (wl_loop nstate (setter_call current x table) (setter_circular current x) (S fuel) ns (f :: rest) seen =
       if existsb (path_eqb rest) seen then setter_circular current x ns' rest
       else wl_loop nstate (setter_call current x table) (setter_circular current x) fuel ns' rest (rest :: seen))
    \/ exists ex s, nfile current x ns f "SETTING_DEFAULT_FAILED"%string [exc_message e] = Raise ex s.
Proof. exact (other_exception_is_local current). Qed.
Print Assumptions C17_other_exception_local.

(* non-vacuity: a cycle a <-> b plus c reading a present field *)
Example C17_example :
  let table := [(KStr "a", Some (VDict [(KStr "default_setter", VStr "rd_b")]));
                (KStr "b", Some (VDict [(KStr "default_setter", VStr "rd_a")]));
                (KStr "c", Some (VDict [(KStr "default_setter", VStr "rd_d")]))] in
  let cfg := {| c_allow_unknown := VBool false; c_require_all := false; c_ignore_none := false; c_purge_unknown := false;
                c_purge_readonly := false; c_is_child := false; c_is_normalized := false; c_root_doc := VNone;
                c_rules_reg := []; c_schema_reg := [] |} in
  let x := {| x_cfg := cfg; x_schema := map (fun kv => (fst kv, match snd kv with Some v => v | None => VNone end)) table;
              x_doc := []; x_dp := []; x_sp := []; x_update := false |} in
  match wl_run nstate (setter_call current x table) (setter_circular current x)
               {| n_map := [(KStr "d", VInt 1)]; n_errs := [] |} [KStr "a"; KStr "b"; KStr "c"] with
  | Ok ns => (List.length (n_errs ns) = 2%nat /\ assoc_get (KStr "c") (n_map ns) = Some (VList [VInt 1]))
  | _ => False
  end.
Proof. vm_compute. split; reflexivity. Qed.
