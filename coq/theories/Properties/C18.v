(* C18 -- validators used from different threads do not interfere.  PARTIAL, as stated in DESIGN section 6 C18:
   what a theorem can carry is the LOGIC of the shared state at source-line granularity.
   (1) the generic non-interference theorem over the interleaving semantics of Model/Threads.v;
   (2) the premises it needs, each discharged from the current source:
       - in-place expansion of a shared CANONICAL schema stores values equal to those it replaces
         (C15_canonical_is_fixed_point: expand returns the canonical schema itself);
       - cache insertions are monotone and hits sound, so a thread's verdicts do not depend on the cache
         (C08, with its known-finding carve-out);
       - the lazily created SchemaValidator is published complete (fact f_lazy_publish_last, fix 99e093f);
   (3) the full statement is FALSE of the faithful model for shared schemas in shorthand form (in-place
       two-step rewriting) and was false for early publication: refutation schedules below.
   The schedule-level correspondence with real threads is the deterministic scheduler of the harness. *)
From Coq Require Import List Arith Bool.
From Cerb Require Import Values Facts Expand ExpandProofs Threads ThreadsProofs Current.
Import ListNotations.

Theorem C18_non_interference :
  forall (St Lo A : Type) (abs : St -> A) sched s ts i t,
    all_benign St Lo A abs ts -> nth_thread St Lo i ts = Some t ->
    forall s0, abs s0 = abs s ->
    nth_thread St Lo i (snd (run St Lo sched s ts)) = Some (snd (alone St Lo (count i sched) s0 t)).
Proof. exact non_interference. Qed.
Print Assumptions C18_non_interference.

Theorem C18_lazy_class_published_complete : f_lazy_publish_last current = true.
Proof. vm_compute. reflexivity. Qed.

Theorem C18_expansion_of_canonical_writes_equal_values : forall f s, canons f s = true -> expand (S f) s = Ok s.
Proof. exact expand_canonical. Qed.

(** A concrete footprint: one shared rule set and the lazily created global.
    The rule set either still holds a shorthand key (short = true) or its canonical expansion with [defs]
    definitions (canonical: short = false, defs = 1).  _expand_logical_shortcuts is three lines:
       rules.update({op: []}) ; rules[op].append(...) ; del rules[of_rule]
    glob: 0 absent, 1 published but incomplete, 2 complete.  Local result 7 = the outcome alone. *)
Record store := { short : bool; defs : nat; glob : nat }.
Definition upd_reset : op store nat := fun s l => ({| short := short s; defs := if short s then 0 else defs s; glob := glob s |}, l).
Definition upd_append : op store nat := fun s l => ({| short := short s; defs := if short s then S (defs s) else defs s; glob := glob s |}, l).
Definition upd_del : op store nat := fun s l => ({| short := false; defs := defs s; glob := glob s |}, l).
Definition readS : op store nat := fun s l => (s, if Nat.eqb (defs s) 1 && negb (short s) then l else 99).
(* `if 'SchemaValidator' not in globals():` -- only the thread that found it absent runs the creation block (it remembers: +1000) *)
Definition publish_early : op store nat := fun s l =>
  if Nat.eqb (glob s) 0 then ({| short := short s; defs := defs s; glob := 1 |}, l + 1000) else (s, l).
Definition complete : op store nat := fun s l =>
  if Nat.leb 1000 l then ({| short := short s; defs := defs s; glob := 2 |}, l - 1000) else (s, l).
Definition publish_late : op store nat := fun s l =>
  if Nat.eqb (glob s) 0 then ({| short := short s; defs := defs s; glob := 2 |}, l) else (s, l).
Definition useG : op store nat := fun s l => (s, if Nat.eqb (glob s) 1 then 98 else l).

Definition old_thread : thread store nat := (7, [upd_reset; upd_append; upd_del; publish_early; complete; useG; readS]).
Definition new_thread : thread store nat := (7, [upd_reset; upd_append; upd_del; publish_late; useG; readS]).

Definition shorthand_store := {| short := true; defs := 0; glob := 2 |}.
Definition canonical_store := {| short := false; defs := 1; glob := 0 |}.

(* shorthand literal: thread 1 resets the definitions thread 0 has just appended; a definition is lost *)
Theorem C18_refuted_shared_shorthand :
  exists sched, nth_thread store nat 1 (snd (run store nat sched shorthand_store [new_thread; new_thread]))
                <> Some (snd (alone store nat (count 1 sched) shorthand_store new_thread)).
Proof. exists [0; 0; 1; 0; 1; 1; 1; 1; 1]. vm_compute. discriminate. Qed.

(* early publication (before 99e093f): thread 1 uses the incomplete class *)
Theorem C18_refuted_early_publication :
  exists sched, nth_thread store nat 1 (snd (run store nat sched canonical_store [old_thread; old_thread]))
                <> Some (snd (alone store nat (count 1 sched) canonical_store old_thread)).
Proof. exists [0; 0; 0; 0; 1; 1; 1; 1; 1; 1]. vm_compute. discriminate. Qed.
Print Assumptions C18_refuted_early_publication.

(* canonical rule set + late publication: every schedule of length <= 12 over two threads leaves both as alone *)
Theorem C18_canonical_exhaustive_small :
  forallb (fun sched =>
             match nth_thread store nat 0 (snd (run store nat sched canonical_store [new_thread; new_thread])),
                   nth_thread store nat 1 (snd (run store nat sched canonical_store [new_thread; new_thread])) with
             | Some t0, Some t1 => Nat.eqb (fst t0) 7 && Nat.eqb (fst t1) 7
             | _, _ => false
             end)
          ((fix all (n : nat) : list (list nat) :=
              match n with
              | O => [[]]
              | S n' => flat_map (fun sc => [0 :: sc; 1 :: sc]) (all n') ++ all n'
              end) 12) = true.
Proof. vm_compute. reflexivity. Qed.
