(* driver.ml -- reads one case per line (whitespace-separated tokens, strings
   hex-encoded), runs the extracted Coq model, prints one JSON outcome per line.
   Hand-written glue: part of the trusted base of the correspondence check only. *)
open Model

(* ---------- conversions ---------- *)
let rec pos_of_int (n : int) : positive =
  if n = 1 then XH
  else if n land 1 = 0 then XO (pos_of_int (n lsr 1))
  else XI (pos_of_int (n lsr 1))

let z_of_int (n : int) : z =
  if n = 0 then Z0 else if n > 0 then Zpos (pos_of_int n) else Zneg (pos_of_int (-n))

let rec int_of_pos (p : positive) : int =
  match p with XH -> 1 | XO q -> 2 * int_of_pos q | XI q -> 2 * int_of_pos q + 1

let int_of_z (x : z) : int =
  match x with Z0 -> 0 | Zpos p -> int_of_pos p | Zneg p -> - (int_of_pos p)

let rec nat_of_int (n : int) : nat = if n <= 0 then O else S (nat_of_int (n - 1))
let rec int_of_nat (n : nat) : int = match n with O -> 0 | S m -> 1 + int_of_nat m

let explode (s : string) : char list = List.init (String.length s) (String.get s)
let implode (l : char list) : string = String.of_seq (List.to_seq l)

let unhex (h : string) : string =
  let n = String.length h / 2 in
  String.init n (fun i -> Char.chr (int_of_string ("0x" ^ String.sub h (2 * i) 2)))

(* ---------- token stream ---------- *)
let toks : string array ref = ref [||]
let pos = ref 0
let next () = let t = !toks.(!pos) in incr pos; t
let next_int () = int_of_string (next ())
let next_str () = let t = next () in if t = "-" then [] else explode (unhex t)
let next_bool () = (next ()) = "1"

let rec rep n f = if n <= 0 then [] else let x = f () in x :: rep (n - 1) f

let parse_key () : key =
  match next () with
  | "s" -> KStr (next_str ())
  | "i" -> KInt (z_of_int (next_int ()))
  | t -> failwith ("bad key tag " ^ t)

let rec parse_value () : value =
  match next () with
  | "N" -> VNone
  | "T" -> VBool true
  | "F" -> VBool false
  | "I" -> VInt (z_of_int (next_int ()))
  | "Q" -> VFloat (z_of_int (next_int ()))
  | "S" -> VStr (next_str ())
  | "U" -> VFun (next_str ())
  | "L" -> let n = next_int () in VList (rep n parse_value)
  | "D" -> let n = next_int () in
      VDict (rep n (fun () -> let k = parse_key () in let v = parse_value () in (k, v)))
  | t -> failwith ("bad value tag " ^ t)

let parse_path () : key list = let n = next_int () in rep n parse_key

let rec parse_error () : error =
  let dp = parse_path () in
  let sp = (match next () with
            | "P" -> SP (parse_path ())
            | "R" -> SPStr (next_str ())
            | t -> failwith ("bad spath tag " ^ t)) in
  let code = z_of_int (next_int ()) in
  let rule = (match next () with "-" -> None | "r" -> Some (next_str ()) | t -> failwith ("bad rule tag " ^ t)) in
  let c = parse_value () in
  let v = parse_value () in
  let ni = next_int () in
  let info = rep ni parse_value in
  let nc = next_int () in
  let ch = rep nc parse_error in
  { e_dp = dp; e_sp = sp; e_code = code; e_rule = rule; e_constraint = c; e_value = v;
    e_info = info; e_children = ch }

let parse_registry () : (char list * value) list =
  let n = next_int () in
  rep n (fun () -> let k = next_str () in let v = parse_value () in (k, v))

let parse_config () : config =
  let au = parse_value () in
  let ra = next_bool () in
  let ig = next_bool () in
  let pu = next_bool () in
  let pr = next_bool () in
  let rr = parse_registry () in
  let sr = parse_registry () in
  { c_allow_unknown = au; c_require_all = ra; c_ignore_none = ig; c_purge_unknown = pu;
    c_purge_readonly = pr; c_is_child = false; c_is_normalized = false; c_root_doc = VNone;
    c_rules_reg = rr; c_schema_reg = sr }

(* which fact record: c = extracted from the current source, d = documented *)
let parse_facts () : facts =
  match next () with
  | "c" -> current
  | "d" -> documented
  | t -> failwith ("bad facts selector " ^ t)

(* ---------- JSON output ---------- *)
let buf = Buffer.create 65536
let add = Buffer.add_string buf

let json_string (s : string) =
  add "\"";
  String.iter (fun c ->
    match c with
    | '"' -> add "\\\""
    | '\\' -> add "\\\\"
    | c when Char.code c < 32 || Char.code c > 126 -> add (Printf.sprintf "\\u%04x" (Char.code c))
    | c -> Buffer.add_char buf c) s;
  add "\""

let sep_iter f l = List.iteri (fun i x -> if i > 0 then add ","; f x) l

let out_key (k : key) =
  match k with KStr s -> json_string (implode s) | KInt n -> add (string_of_int (int_of_z n))

let rec out_value (v : value) =
  match v with
  | VNone -> add "null"
  | VBool b -> add (if b then "true" else "false")
  | VInt n -> add (string_of_int (int_of_z n))
  | VFloat q -> add "{\"f\":"; add (string_of_int (int_of_z q)); add "}"
  | VStr s -> json_string (implode s)
  | VFun s -> add "{\"u\":"; json_string (implode s); add "}"
  | VList l -> add "["; sep_iter out_value l; add "]"
  | VDict d -> add "{\"d\":["; sep_iter (fun (k, v) -> add "["; out_key k; add ","; out_value v; add "]") d; add "]}"

let out_path (p : key list) = add "["; sep_iter out_key p; add "]"

let rec out_error (e : error) =
  add "{\"dp\":"; out_path e.e_dp;
  add ",\"sp\":";
  (match e.e_sp with SP p -> out_path p | SPStr s -> add "{\"s\":"; json_string (implode s); add "}");
  add ",\"code\":"; add (string_of_int (int_of_z e.e_code));
  add ",\"rule\":"; (match e.e_rule with None -> add "null" | Some r -> json_string (implode r));
  add ",\"c\":"; out_value e.e_constraint;
  add ",\"v\":"; out_value e.e_value;
  add ",\"info\":["; sep_iter out_value e.e_info; add "]";
  add ",\"ch\":["; sep_iter out_error e.e_children; add "]}"

let out_errors (l : error list) = add "["; sep_iter out_error l; add "]"

let exn_name (e : pyexn) =
  match e with
  | TypeError -> "TypeError" | AttributeError -> "AttributeError" | KeyError -> "KeyError"
  | IndexError -> "IndexError" | ValueError -> "ValueError" | RuntimeError -> "RuntimeError"
  | RecursionError -> "RecursionError" | DocumentError -> "DocumentError"
  | SchemaError -> "SchemaError" | UserError -> "UserError"
  | SchemaRuleTypeError -> "_SchemaRuleTypeError"

let out_res (f : 'a -> unit) (r : 'a res) =
  match r with
  | Ok a -> add "{\"r\":\"ok\","; f a; add "}"
  | Raise (e, site) -> add "{\"r\":\"raise\",\"exn\":"; json_string (exn_name e);
      add ",\"site\":"; json_string (implode site); add "}"
  | OutOfFuel -> add "{\"r\":\"fuel\"}"

let rec out_tree (t : tree) =
  match t with
  | Node (errs, kids) ->
      add "{\"errs\":"; out_errors errs; add ",\"kids\":[";
      sep_iter (fun (k, c) -> add "["; out_key k; add ","; out_tree c; add "]") kids;
      add "]}"

let dict_of (v : value) = match v with VDict d -> d | _ -> failwith "expected dict"

let fuel = nat_of_int 64

(* ---------- commands ---------- *)
let run_line (line : string) =
  toks := Array.of_list (List.filter (fun s -> s <> "") (String.split_on_char ' ' line));
  pos := 0;
  Buffer.clear buf;
  (try
    (match next () with
     | "V" ->   (* validate(document, update=u, normalize=False) on a fresh validator *)
         let facts = parse_facts () in
         let cfg = parse_config () in
         let schema = dict_of (parse_value ()) in
         let doc = dict_of (parse_value ()) in
         let update = next_bool () in
         let x = { x_cfg = cfg; x_schema = schema; x_doc = doc; x_dp = []; x_sp = []; x_update = update } in
         out_res (fun errs -> add "\"errors\":"; out_errors errs) (validate_ctx facts fuel x)
     | "A" ->   (* validate(document, update=u, normalize=n) on a fresh validator: verdict, document, errors *)
         let facts = parse_facts () in
         let cfg = parse_config () in
         let schema = dict_of (parse_value ()) in
         let doc = dict_of (parse_value ()) in
         let update = next_bool () in
         let normalize = next_bool () in
         out_res (fun o -> add "\"verdict\":"; add (if o.out_verdict then "true" else "false");
                           add ",\"document\":"; out_value (VDict o.out_doc);
                           add ",\"errors\":"; out_errors o.out_errs)
           (api_validate facts fuel cfg schema doc update normalize)
     | "N" ->   (* normalized(document, always_return_document=True) *)
         let facts = parse_facts () in
         let cfg = parse_config () in
         let schema = dict_of (parse_value ()) in
         let doc = dict_of (parse_value ()) in
         out_res (fun o -> add "\"verdict\":"; add (if o.out_verdict then "true" else "false");
                           add ",\"document\":"; out_value (VDict o.out_doc);
                           add ",\"errors\":"; out_errors o.out_errs)
           (api_normalized facts fuel cfg schema doc)
     | "U" ->   (* pool function: kind name arg *)
         let kind = next () in
         let name = next_str () in
         let arg = parse_value () in
         let ou r = (match r with
                     | None -> add "\"unknown\""
                     | Some (UOk v) -> add "{\"ok\":"; out_value v; add "}"
                     | Some (URaise e) -> add "{\"raise\":"; json_string (exn_name e); add "}") in
         (match kind with
          | "coerce" -> ou (pool_coerce name arg)
          | "setter" -> ou (pool_setter name (dict_of arg))
          | "check" -> (match pool_check name arg with
                        | None -> add "\"unknown\""
                        | Some l -> add "["; sep_iter (fun m -> json_string (implode m)) l; add "]")
          | _ -> add "null")
     | "H" ->   (* BasicErrorHandler: render an error list *)
         let facts = parse_facts () in
         let n = next_int () in
         let errs = rep n parse_error in
         let (t, _) = render facts errs in
         let rec out_rt (t : rtree) =
           (match t with RT es ->
              add "["; sep_iter (fun (k, (ms, sub)) ->
                add "{\"k\":"; out_key k; add ",\"msgs\":[";
                sep_iter (fun m -> add "["; add (string_of_int (int_of_z m.g_code)); add ",";
                                   (match m.g_field with None -> add "null" | Some f -> out_key f); add "]") ms;
                add "],\"sub\":"; out_rt sub; add "}") es; add "]") in
         out_rt t
     | "X" ->   (* DefinitionSchema.expand *)
         let schema = dict_of (parse_value ()) in
         out_res (fun d -> add "\"schema\":"; out_value (VDict d)) (expand_top schema)
     | "W" ->   (* acceptance: expand, then the documented grammar *)
         let strs () = let n = next_int () in rep n next_str in
         let types = strs () in let coercers = strs () in let setters = strs () in let checkers = strs () in
         let extra_v = strs () in let extra_n = strs () in
         let k = { k_types = types; k_coercers = coercers; k_setters = setters; k_checkers = checkers;
                   k_validation_rules = base_validation_rules @ extra_v; k_normalization_rules = base_normalization_rules @ extra_n } in
         let rr = parse_registry () in
         let sr = parse_registry () in
         let schema = dict_of (parse_value ()) in
         (match expand_top schema with
          | Ok s -> add (if accepts k rr sr s then "{\"r\":\"accepted\"}" else "{\"r\":\"rejected\"}")
          | Raise (e, _) -> add "{\"r\":\"raise\",\"exn\":"; json_string (exn_name e); add "}"
          | OutOfFuel -> add "{\"r\":\"fuel\"}")
     | "T" ->   (* build both trees from an error forest *)
         let n = next_int () in
         let errs = rep n parse_error in
         let m = current.f_masks in
         add "{\"doc\":"; out_tree (build m KDoc errs);
         add ",\"sch\":"; out_tree (build m KSch errs); add "}"
     | "R" ->   (* regex *)
         let p = next_str () in
         let s = next_str () in
         (match regex_fullmatch p s with
          | None -> add "null" | Some b -> add (if b then "true" else "false"))
     | "P" ->   (* primitive table: op a b *)
         let op = next () in
         let a = parse_value () in
         let b = parse_value () in
         let ob o = (match o with None -> add "\"TypeError\"" | Some b -> add (if b then "true" else "false")) in
         (match op with
          | "eq" -> add (if py_eq a b then "true" else "false")
          | "lt" -> ob (py_lt a b)
          | "in" -> ob (py_in a b)
          | "truthy" -> add (if truthy a then "true" else "false")
          | "hashable" -> add (if hashable a then "true" else "false")
          | "len" -> (match py_len a with None -> add "\"TypeError\"" | Some n -> add (string_of_int (int_of_nat n)))
          | "set" -> (match py_set a with None -> add "\"TypeError\"" | Some l -> out_value (VList l))
          | "isinstance" -> (match b with VStr c -> add (if is_instance a c then "true" else "false") | _ -> add "null")
          | _ -> add "null")
     | t -> add ("{\"r\":\"badcmd\",\"cmd\":\"" ^ t ^ "\"}"))
  with
  | Failure m -> Buffer.clear buf; add "{\"r\":\"driver-error\",\"msg\":"; json_string m; add "}"
  | Invalid_argument m -> Buffer.clear buf; add "{\"r\":\"driver-error\",\"msg\":"; json_string m; add "}"
  | Stack_overflow -> Buffer.clear buf; add "{\"r\":\"driver-error\",\"msg\":\"stack overflow\"}");
  print_string (Buffer.contents buf);
  print_newline ()

let () =
  try
    while true do
      let line = input_line stdin in
      if String.length line > 0 then run_line line
    done
  with End_of_file -> ()
