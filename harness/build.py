"""Build orchestration: translate /repo's current sources, (re)build the Coq
development and the extracted OCaml driver in /verif/_build, under a lock.
Everything is rebuilt from /repo's *working tree* on every call; `make` makes
the rebuild incremental (Current.v is rewritten only when its content changes).
"""
import fcntl
import json
import os
import shutil
import subprocess
import sys
import time

VERIF = os.path.dirname(os.path.dirname(os.path.abspath(__file__)))
REPO = os.environ.get("VERIF_REPO", "/repo")
BUILD = os.path.join(VERIF, "_build")
COQ_SRC = os.path.join(VERIF, "coq")
COQ_BUILD = os.path.join(BUILD, "coq")
DRIVER = os.path.join(BUILD, "driver")
PY = "/venv/bin/python"


def sh(cmd, cwd=None, timeout=900, env=None):
    p = subprocess.run(cmd, cwd=cwd, shell=isinstance(cmd, str), stdout=subprocess.PIPE,
                       stderr=subprocess.STDOUT, timeout=timeout, env=env)
    return p.returncode, p.stdout.decode(errors="replace")


def _newer(src, dst):
    return (not os.path.exists(dst)) or os.path.getmtime(src) > os.path.getmtime(dst)


def ensure_build(verbose=False):
    """Returns a dict: translate status, per-.v compile status, driver path."""
    os.makedirs(BUILD, exist_ok=True)
    t0 = time.time()
    with open(os.path.join(BUILD, ".lock"), "w") as lk:
        fcntl.flock(lk, fcntl.LOCK_EX)
        os.makedirs(COQ_BUILD, exist_ok=True)
        # 1. sync hand-written sources (never the generated Current.v)
        rc, out = sh(["rsync", "-a", "--delete", "--exclude", "*.vo", "--exclude", "*.vok", "--exclude", "*.vos",
                      "--exclude", "*.glob", "--exclude", ".*.aux", "--exclude", "Makefile*", "--exclude", ".Makefile*",
                      "--exclude", "theories/Extracted/Current.v", "--exclude", "theories/Extracted/facts.json",
                      "--exclude", "theories/Extracted/translate_status.json",
                      "--exclude", "model.ml", "--exclude", "model.mli", "--exclude", ".lia.cache",
                      COQ_SRC + "/", COQ_BUILD + "/"])
        if rc != 0:
            raise RuntimeError("rsync failed: " + out)
        ext = os.path.join(COQ_BUILD, "theories", "Extracted")
        os.makedirs(ext, exist_ok=True)
        # 2. translate the current working tree (fail-closed)
        rc, out = sh([PY, os.path.join(VERIF, "translator", "translate.py"), REPO, ext],
                     env=dict(os.environ, PYTHONPATH=REPO, PYTHONHASHSEED="0", PYTHONDONTWRITEBYTECODE="1"))
        try:
            tstatus = json.loads(out.strip().splitlines()[-1])
        except Exception:
            tstatus = {"ok": False, "errors": [{"group": "translator", "where": "translate.py", "msg": out[-500:]}]}
        cur = os.path.join(ext, "Current.v")
        if not tstatus["ok"] or not os.path.exists(cur):
            # keep tooling buildable for the SEARCH only: fall back to the committed golden facts
            golden = os.path.join(COQ_SRC, "theories", "Extracted", "Current.v")
            if not os.path.exists(cur) or open(cur).read() != open(golden).read():
                shutil.copyfile(golden, cur)
            tstatus["used_golden_facts"] = True
        # 3. coq
        mk = os.path.join(COQ_BUILD, "Makefile")
        if _newer(os.path.join(COQ_BUILD, "_CoqProject"), mk):
            rc, out = sh("coq_makefile -f _CoqProject -o Makefile", cwd=COQ_BUILD)
            if rc != 0:
                raise RuntimeError("coq_makefile failed: " + out)
        rc, mout = sh("timeout 1500 make -k -j16 2>&1", cwd=COQ_BUILD, timeout=1600)
        vfiles = [l.strip() for l in open(os.path.join(COQ_BUILD, "_CoqProject")) if l.strip().endswith(".v")]
        compiled = {}
        for v in vfiles:
            vo = os.path.join(COQ_BUILD, v[:-2] + ".vo")
            src = os.path.join(COQ_BUILD, v)
            compiled[v] = os.path.exists(vo) and os.path.getmtime(vo) >= os.path.getmtime(src)
        # 4. driver
        model_ml = os.path.join(COQ_BUILD, "model.ml")
        drv_src = os.path.join(VERIF, "driver", "driver.ml")
        drv_ok = False
        drv_msg = ""
        if os.path.exists(model_ml):
            if _newer(model_ml, DRIVER) or _newer(drv_src, DRIVER):
                odir = os.path.join(BUILD, "ocaml")
                os.makedirs(odir, exist_ok=True)
                for f in ("model.ml", "model.mli"):
                    shutil.copyfile(os.path.join(COQ_BUILD, f), os.path.join(odir, f))
                shutil.copyfile(drv_src, os.path.join(odir, "driver.ml"))
                rc2, out2 = sh("ocamlfind ocamlopt -O3 -w -a model.mli model.ml driver.ml -o driver.exe 2>&1 || "
                               "ocamlfind ocamlopt -w -a model.mli model.ml driver.ml -o driver.exe 2>&1", cwd=odir)
                if rc2 == 0:
                    shutil.copyfile(os.path.join(odir, "driver.exe"), DRIVER + ".tmp")
                    os.chmod(DRIVER + ".tmp", 0o755)
                    os.replace(DRIVER + ".tmp", DRIVER)
                    drv_ok = True
                else:
                    drv_msg = out2[-2000:]
            else:
                drv_ok = True
        status = {"translate": tstatus, "compiled": compiled, "make_rc": rc,
                  "make_tail": mout[-3000:] if rc != 0 else "", "driver_ok": drv_ok, "driver_msg": drv_msg,
                  "driver": DRIVER, "build_s": round(time.time() - t0, 2)}
        with open(os.path.join(BUILD, "status.json"), "w") as f:
            json.dump(status, f, indent=1)
        fcntl.flock(lk, fcntl.LOCK_UN)
    if verbose:
        print(json.dumps({k: v for k, v in status.items() if k != "make_tail"}, indent=1))
        if status["make_tail"]:
            print(status["make_tail"])
    return status


def print_assumptions(vfile):
    """Parse the output of the Print Assumptions commands of a compiled Properties file."""
    log = os.path.join(COQ_BUILD, vfile[:-2] + ".assumptions")
    rc, out = sh("coqc -Q theories Cerb %s 2>&1" % vfile, cwd=COQ_BUILD, timeout=600)
    with open(log, "w") as f:
        f.write(out)
    return rc, out


if __name__ == "__main__":
    st = ensure_build(verbose=True)
    bad = [v for v, ok in st["compiled"].items() if not ok]
    sys.exit(0 if (not bad and st["driver_ok"] and st["translate"]["ok"]) else 1)
