#!/venv/bin/python
"""Entry point of every registered check:  check.py <ID> [quick|thorough] [--replay <file>]

Flow (DESIGN.md section 9): rebuild from /repo's working tree (translator -> Coq -> OCaml
driver); collect the proof obligations of the property (compiled theorem files,
axioms reported by Print Assumptions, translator fact groups); run the
correspondence (model vs real code) and the property's oracle on the real code;
when an obligation or the correspondence is broken, search for a failing input;
report violations (replay files), known findings, evidence."""
import importlib
import json
import os
import re
import sys
import time
import traceback
import warnings

warnings.simplefilter("ignore")
HERE = os.path.dirname(os.path.abspath(__file__))
sys.path.insert(0, HERE)
os.environ.setdefault("PYTHONHASHSEED", "0")

import build  # noqa: E402
import common  # noqa: E402


AXIOM_GATE = re.compile(r"\b(Admitted|admit|Axiom|Parameter|Conjecture|Unset Guard|bypass_check|Admit Obligations)\b")


def grep_gate():
    """no Admitted/admit/Axiom/... anywhere in the hand-written development"""
    bad = []
    root = os.path.join(common.VERIF, "coq")
    for d, _, fs in os.walk(root):
        for f in fs:
            if f.endswith(".v"):
                p = os.path.join(d, f)
                txt = open(p).read()
                txt = re.sub(r"\(\*.*?\*\)", "", txt, flags=re.S)
                for m in AXIOM_GATE.finditer(txt):
                    bad.append("%s: %s" % (os.path.relpath(p, root), m.group(0)))
    return bad


def assumptions_of(vfile):
    """re-run coqc on a Properties file, parse its Print Assumptions output"""
    rc, out = build.print_assumptions(vfile)
    closed = len(re.findall(r"Closed under the global context", out))
    axioms = re.findall(r"^Axioms:\n((?:.+\n?)+?)(?:\n|\Z)", out, flags=re.M)
    names = []
    for block in axioms:
        for l in block.splitlines():
            m = re.match(r"^([A-Za-z_][\w.']*)\s*:", l)
            if m:
                names.append(m.group(1))
    return {"rc": rc, "closed": closed, "axioms": sorted(set(names)), "tail": out[-1500:] if rc != 0 else ""}


def theorem_names(vfile):
    p = os.path.join(common.VERIF, "coq", vfile)
    return re.findall(r"^\s*(?:Theorem|Lemma|Example|Corollary)\s+([A-Za-z_][\w']*)", open(p).read(), flags=re.M)


def main(argv):
    if len(argv) < 2:
        print("usage: check.py <ID> [quick|thorough] [--replay file]")
        return 2
    prop = argv[1]
    tier = os.environ.get("VERIF_TIER") or "quick"
    replay = None
    i = 2
    while i < len(argv):
        if argv[i] in ("quick", "thorough"):
            tier = argv[i]
        elif argv[i] == "--replay":
            replay = argv[i + 1]
            i += 1
        i += 1
    seed = int(os.environ.get("VERIF_SEED", "20260930"))
    t = common.Timer()
    mod = importlib.import_module("props." + prop.lower())

    if replay:
        return mod.replay(json.load(open(replay)))

    status = build.ensure_build()
    obligations = []      # (name, ok, detail)
    # translator fact groups this property depends on
    tr = status["translate"]
    for g in getattr(mod, "FACT_GROUPS", []):
        broken = [e for e in tr.get("errors", []) if e["group"] == g or e["group"] in ("syntax", "import", "structure", "translator")]
        obligations.append(("translator:" + g, not broken, broken[0]["where"] + ": " + broken[0]["msg"] if broken else ""))
    # compiled theorem files
    gate = grep_gate()
    obligations.append(("gate:no-admitted-no-axiom", not gate, "; ".join(gate[:5])))
    axioms = []
    for vf in mod.COQ_FILES:
        ok = status["compiled"].get(vf, False)
        obligations.append(("coqc:" + vf, ok, "" if ok else "does not compile against the current facts/model"))
        if ok and "/Properties/" in vf:
            a = assumptions_of(vf)
            axioms += a["axioms"]
            for th in theorem_names(vf):
                obligations.append(("theorem:" + th, a["rc"] == 0, ""))
            allowed = set(getattr(mod, "ALLOWED_AXIOMS", []))
            extra = [x for x in a["axioms"] if x not in allowed]
            obligations.append(("assumptions:" + vf, a["rc"] == 0 and not extra,
                                "unexpected axioms: %s" % extra if extra else a["tail"]))
    if not status["driver_ok"]:
        obligations.append(("extraction+driver", False, status["driver_msg"][-300:]))
    # transcription pins: the functions this property is anchored in still have the bodies the models were written against
    try:
        sys.path.insert(0, os.path.join(common.VERIF, "translator"))
        import pins
        want = json.load(open(os.path.join(common.VERIF, "translator", "pins_by_property.json"))).get(prop, [])
        pinned = json.load(open(os.path.join(common.VERIF, "translator", "pins.json")))
        now = pins.digests(common.REPO)
        changed = [k for k in want if pinned.get(k) != now.get(k)]
        obligations.append(("transcription:%d anchored functions" % len(want), not changed,
                            "body changed since the model was written: " + ", ".join(changed[:6])))
    except Exception as e:
        obligations.append(("transcription:pins", False, "cannot compute: %r" % (e,)))
    broken_obl = [o for o in obligations if not o[1]]

    ctx = {"tier": tier, "seed": seed, "status": status, "broken": broken_obl,
           "driver_ok": status["driver_ok"]}
    try:
        res = mod.run(ctx)
    except Exception:
        traceback.print_exc()
        res = {"violations": [{"signature": "harness-crash", "what": traceback.format_exc()[-800:], "replay": {"crash": traceback.format_exc()}}],
               "cases": 0, "nontrivial": 0, "samples": [], "distribution": {}, "rule": "harness crashed"}

    known_sigs0 = {k["signature"] for k in common.load_known_findings() if k["property"] == prop and k["status"] == "known"}
    if broken_obl and tier == "quick" and not [v for v in res.get("violations", []) if v["signature"] not in known_sigs0]:
        # an obligation is broken but the quick run found no failing input: SEARCH (same generators, 4x volume, other seed)
        ctx2 = dict(ctx, seed=seed + 7919, scale=4, searching=True)
        try:
            res2 = mod.run(ctx2)
            res2["cases"] = res2.get("cases", 0) + res.get("cases", 0)
            res2["nontrivial"] = res2.get("nontrivial", 0) + res.get("nontrivial", 0)
            res2["samples"] = res.get("samples", []) + res2.get("samples", [])
            res = res2
        except Exception:
            traceback.print_exc()

    known = [k for k in common.load_known_findings() if k["property"] == prop and k["status"] == "known"]
    known_sigs = {k["signature"]: k for k in known}
    reported, suppressed = [], {}
    for v in res.get("violations", []):
        if v["signature"] in known_sigs:
            suppressed.setdefault(v["signature"], []).append(v)
        else:
            reported.append(v)
    for sig, k in known_sigs.items():
        print("KNOWN-FINDING: property=%s %s [%s]%s" % (prop, k["what"], sig,
              "" if sig in suppressed else " (not re-observed in this run's sample)"))

    lines = []
    # violations with a concrete failing input, one line per distinct signature
    seen = set()
    for v in reported:
        if v["signature"] in seen:
            continue
        seen.add(v["signature"])
        path = common.write_replay(prop, dict(v.get("replay", {}), property=prop, signature=v["signature"],
                                              what=v["what"], seed=seed, tier=tier,
                                              broken_obligations=[o[0] + ": " + o[2] for o in broken_obl]))
        lines.append("VIOLATION property=%s replay=%s" % (prop, path))
    if broken_obl and not reported:
        path = common.write_replay(prop, {"property": prop, "no_failing_input_found": True,
                                          "broken_obligations": [{"name": o[0], "detail": o[2]} for o in broken_obl],
                                          "searched": res.get("cases", 0), "seed": seed, "tier": tier,
                                          "make_tail": status.get("make_tail", "")[-1500:]})
        lines.append("VIOLATION property=%s replay=%s no-failing-input-found" % (prop, path))
    for l in lines:
        print(l)

    ev = {
        "property_id": prop, "tier": tier, "seed": seed, "level": mod.LEVEL,
        "coverage": {
            "obligations": len(obligations), "discharged": len([o for o in obligations if o[1]]),
            "checker_cmd": "coq_makefile -f _CoqProject -o Makefile && make (coqc 8.16.1, full .vo build) in /verif/_build/coq; Print Assumptions re-run per Properties file",
            "trusted_base": mod.TRUSTED_BASE,
            "obligation_list": [{"name": o[0], "ok": o[1], "detail": o[2]} for o in obligations],
            "axioms_reported": sorted(set(axioms)),
            "programs": res.get("cases", 0),
            "evaluations": res.get("cases", 0),
            "distinct_nontrivial": res.get("nontrivial", 0),
            "disagreements_checked": res.get("disagreements_checked", 0),
            "traces_validated_against_impl": res.get("model_cases", 0),
            "rule": res.get("rule", ""),
            "samples": res.get("samples", [])[:5],
            "distribution": res.get("distribution", {}),
            "known_findings_printed": sorted(known_sigs),
            "known_findings_reobserved": sorted(suppressed),
            "exhaustive": bool(res.get("exhaustive", False)),
        },
        "assumptions": mod.ASSUMPTIONS,
        "wall_s": t.s(),
        "violations": len(lines),
    }
    common.write_evidence(prop, ev)
    print("%s %s: obligations %d/%d, cases %d (non-trivial %d), violations %d, %.1fs" % (
        prop, tier, ev["coverage"]["discharged"], ev["coverage"]["obligations"], ev["coverage"]["programs"],
        ev["coverage"]["distinct_nontrivial"], len(lines), ev["wall_s"]))
    return 1 if lines else 0


if __name__ == "__main__":
    sys.exit(main(sys.argv))
