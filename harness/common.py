"""Shared plumbing: value encoding for the OCaml driver, running the driver,
canonical forms of outcomes of the real code and of the model, evidence and
replay files, known findings."""
import binascii
import hashlib
import json
import os
import subprocess
import sys
import time

VERIF = os.path.dirname(os.path.dirname(os.path.abspath(__file__)))
REPO = os.environ.get("VERIF_REPO", "/repo")
if REPO not in sys.path:
    sys.path.insert(0, REPO)

import cerberus  # noqa: E402  (the working tree under test)
from cerberus import errors as cerrors  # noqa: E402

assert os.path.realpath(cerberus.__file__).startswith(os.path.realpath(REPO)), cerberus.__file__


# ----------------------------------------------------------------- encoding

def hx(s):
    if s == "":
        return "-"
    return binascii.hexlify(s.encode("latin-1")).decode()


def enc_key(k, out):
    if isinstance(k, str):
        out.append("s"); out.append(hx(k))
    elif isinstance(k, int) and not isinstance(k, bool):
        out.append("i"); out.append(str(k))
    else:
        raise ValueError("unsupported key %r" % (k,))


def enc_value(v, out):
    if v is None:
        out.append("N")
    elif v is True:
        out.append("T")
    elif v is False:
        out.append("F")
    elif isinstance(v, int):
        out.append("I"); out.append(str(v))
    elif isinstance(v, float):
        q = v * 4
        if q != int(q):
            raise ValueError("float outside the modelled domain: %r" % v)
        out.append("Q"); out.append(str(int(q)))
    elif isinstance(v, str):
        out.append("S"); out.append(hx(v))
    elif isinstance(v, (list, tuple)):
        out.append("L"); out.append(str(len(v)))
        for x in v:
            enc_value(x, out)
    elif isinstance(v, dict):
        out.append("D"); out.append(str(len(v)))
        for k, x in v.items():
            enc_key(k, out)
            enc_value(x, out)
    elif callable(v) and hasattr(v, "_pool_name"):
        out.append("U"); out.append(hx(v._pool_name))
    else:
        raise ValueError("unsupported value %r" % (v,))


def enc_path(p, out):
    out.append(str(len(p)))
    for k in p:
        enc_key(k, out)


def enc_registry(reg, out):
    out.append(str(len(reg)))
    for k, v in reg.items():
        out.append(hx(k))
        enc_value(v, out)


def enc_config(cfg, out):
    enc_value(cfg.get("allow_unknown", False), out)
    for k in ("require_all", "ignore_none_values", "purge_unknown", "purge_readonly"):
        out.append("1" if cfg.get(k, False) else "0")
    enc_registry(cfg.get("rules_set_registry", {}), out)
    enc_registry(cfg.get("schema_registry", {}), out)


def enc_error_json(e, out):
    """encode an error given in the JSON form (dict) used everywhere in the harness"""
    enc_path(e["dp"], out)
    if isinstance(e["sp"], dict):
        out.append("R"); out.append(hx(e["sp"]["s"]))
    else:
        out.append("P"); enc_path(e["sp"], out)
    out.append(str(e["code"]))
    if e["rule"] is None:
        out.append("-")
    else:
        out.append("r"); out.append(hx(e["rule"]))
    enc_value(unjson(e["c"]), out)
    enc_value(unjson(e["v"]), out)
    out.append(str(len(e["info"])))
    for i in e["info"]:
        enc_value(unjson(i), out)
    out.append(str(len(e["ch"])))
    for c in e["ch"]:
        enc_error_json(c, out)


# ------------------------------------------- JSON form of values (as the driver prints them)

class Fun(object):
    def __init__(self, name):
        self._pool_name = name

    def __call__(self, *a):
        raise RuntimeError("placeholder")


def jval(v):
    """Python value -> the driver's JSON convention"""
    if v is None or isinstance(v, (bool, str)):
        return v
    if isinstance(v, int):
        return v
    if isinstance(v, float):
        q = v * 4
        if q != int(q):
            return {"f?": repr(v)}
        return {"f": int(q)}
    if isinstance(v, (list, tuple)):
        return [jval(x) for x in v]
    if isinstance(v, (set, frozenset)):
        return {"set": sorted((jval(x) for x in v), key=lambda j: json.dumps(j, sort_keys=True))}
    if isinstance(v, dict):
        return {"d": [[k, jval(x)] for k, x in v.items()]}
    import collections.abc as _abc
    if isinstance(v, _abc.Mapping):                  # e.g. collections.UserDict: replayed as a dict (the tag says what it was)
        return {"d": [[k, jval(x)] for k, x in v.items()]}
    if callable(v) and hasattr(v, "_pool_name"):
        return {"u": v._pool_name}
    if hasattr(v, "all") and hasattr(v, "_storage"):        # a Registry
        return {"registry": jval(dict(v.all()))}
    return {"?": type(v).__name__}


def unjson(j):
    if isinstance(j, dict):
        if "f" in j:
            return j["f"] / 4.0
        if "d" in j:
            return {k: unjson(v) for k, v in j["d"]}
        if "u" in j:
            import pool
            n = j["u"]
            if n in pool.COERCERS:
                return pool.COERCERS[n]
            if n in pool.CHECKS:
                return pool.CHECKS[n]
            if n in pool.SETTER_NAMES:
                return pool.setter(n)
            return Fun(n)
        if "set" in j:
            return [unjson(x) for x in j["set"]]
        if "registry" in j:
            from cerberus.schema import RulesSetRegistry
            r = RulesSetRegistry()
            r._storage.update(unjson(j["registry"]))
            return r
        raise ValueError(j)
    if isinstance(j, list):
        return [unjson(x) for x in j]
    return j


def canon_val(j):
    """order-insensitive canonical string of a JSON-form value (dict order, set order ignored)"""
    if isinstance(j, dict):
        if "d" in j:
            return "{" + ",".join(sorted(json.dumps(k) + ":" + canon_val(v) for k, v in j["d"])) + "}"
        if "set" in j:
            return "set(" + ",".join(sorted(canon_val(x) for x in j["set"])) + ")"
        return json.dumps(j, sort_keys=True)
    if isinstance(j, list):
        return "[" + ",".join(canon_val(x) for x in j) + "]"
    return json.dumps(j)


# ------------------------------------------------------------ errors of the real code

def real_error(e):
    sp = e.schema_path
    ch = e.child_errors
    info = list(e.info)
    if e.is_group_error:
        info = info[1:]
    return {
        "dp": list(e.document_path),
        "sp": {"s": sp} if isinstance(sp, str) else list(sp),
        "code": e.code,
        "rule": e.rule,
        "c": jval(e.constraint),
        "v": jval(e.value),
        "info": [jval(i) for i in info],
        "ch": [real_error(c) for c in (ch or [])],
    }


SET_INFO_CODES = {0x45, 0x47, 0x48}       # info carries a tuple/list/set built from a set or generator
NOINFO_CODES = {0x61, 0x62, 0x64, 0x06, 0x00}   # exception text / formatted strings: not compared


def canon_error(e, with_info=True, with_cv=True, with_sp=True):
    """hashable canonical form; children sorted"""
    info = ()
    if with_info and e["code"] not in NOINFO_CODES:
        if e["code"] in SET_INFO_CODES:
            def num(x):
                return int(x) if isinstance(x, bool) else x
            info = tuple(sorted(canon_val(num(x)) for i in e["info"] for x in (i if isinstance(i, list) else i.get("set", [i]) if isinstance(i, dict) else [i])))
        else:
            info = tuple(canon_val(i) for i in e["info"])
    sp = None
    if with_sp:
        sp = json.dumps(e["sp"])
    return (json.dumps(e["dp"]), sp, e["code"], e["rule"],
            canon_val(e["c"]) if with_cv else None, canon_val(e["v"]) if with_cv else None, info,
            tuple(sorted(canon_error(c, with_info, with_cv, with_sp) for c in e["ch"])))


def canon_errors(errs, **kw):
    return tuple(sorted(canon_error(e, **kw) for e in errs))


# --------------------------------------------------------------- the driver

def run_driver(lines, driver=None, timeout=600):
    driver = driver or os.path.join(VERIF, "_build", "driver")
    data = ("\n".join(lines) + "\n").encode()
    p = subprocess.run(["bash", "-c", "ulimit -s unlimited 2>/dev/null; exec " + driver], input=data,
                       stdout=subprocess.PIPE, stderr=subprocess.PIPE, timeout=timeout)
    outs = p.stdout.decode().splitlines()
    if len(outs) != len(lines):
        raise RuntimeError("driver produced %d lines for %d inputs; stderr=%s" % (len(outs), len(lines), p.stderr.decode()[-500:]))
    return [json.loads(o) for o in outs]


def run_driver_parallel(lines, nproc=8, **kw):
    if len(lines) < 400 or nproc <= 1:
        return run_driver(lines, **kw)
    from concurrent.futures import ThreadPoolExecutor
    n = len(lines)
    chunk = (n + nproc - 1) // nproc
    parts = [lines[i:i + chunk] for i in range(0, n, chunk)]
    with ThreadPoolExecutor(len(parts)) as ex:
        res = list(ex.map(lambda part: run_driver(part, **kw), parts))
    return [r for part in res for r in part]


# ------------------------------------------------------- evidence / replay / findings

def write_replay(prop, payload):
    d = os.path.join(VERIF, "replays")
    os.makedirs(d, exist_ok=True)
    s = json.dumps(payload, indent=1, sort_keys=True, default=repr)
    h = hashlib.sha1(s.encode()).hexdigest()[:10]
    path = os.path.join(d, "%s-%s.json" % (prop, h))
    with open(path, "w") as f:
        f.write(s)
    return path


def load_known_findings():
    p = os.path.join(VERIF, "known_findings.json")
    if not os.path.exists(p):
        return []
    return json.load(open(p))["findings"]


def write_evidence(prop, ev):
    d = os.path.join(VERIF, "evidence")
    os.makedirs(d, exist_ok=True)
    with open(os.path.join(d, prop + ".json"), "w") as f:
        json.dump(ev, f, indent=1, sort_keys=True, default=repr)


class Timer(object):
    def __init__(self):
        self.t0 = time.time()

    def s(self):
        return round(time.time() - self.t0, 2)
