"""Schema-directed generators (one PRNG drives every choice).
Schemas: built-in validation (and optionally normalization) rules, nesting <= max_depth.
Documents: schema-directed near-valid + arbitrary JSON-like values."""
import random

FIELDS = ['a', 'b', 'c', 'd', 'e', 1, 2]
SUBFIELDS = ['x', 'y', 'z', 'a', 3]
STRS = ['', 'a', 'ab', 'abc', 'b', 'xyz', 'ab1', '12', 'A_b', 'hello', 'x']
INTS = [-3, -1, 0, 1, 2, 3, 5, 10, 100]
FLOATS = [-1.5, 0.0, 0.25, 0.5, 1.0, 2.5, 3.75, 10.0]
REGEXES = [
    ('[a-z]+', ['a', 'abc', 'xyz'], ['', 'A', 'ab1', '12']),
    ('a.c', ['abc', 'axc'], ['ac', 'abcd', 'ab']),
    (r'\d\d', ['12', '00'], ['1', '123', 'ab']),
    ('ab|cd', ['ab', 'cd'], ['abcd', 'a', '']),
    ('(ab)*c', ['c', 'abc', 'ababc'], ['ab', 'abab', 'cc']),
    ('^x[0-9]?$', ['x', 'x1'], ['x12', 'ax', '']),
    ('a|b$', ['a', 'b', 'abc', 'ax'], ['', 'ba', 'c']),
    ('[^ab]*', ['', 'xyz', '12'], ['a', 'xb']),
    (r'\w+\.\w+', ['a.b', 'ab1.c'], ['a', '.', 'a.']),
    ('hello$', ['hello'], ['hello!', 'hell', '']),
    ('(a|b)+c?', ['a', 'ab', 'abc', 'bac'], ['', 'c', 'abcc']),
]
TYPES = ['integer', 'float', 'number', 'boolean', 'string', 'list', 'dict', 'container']
OFS = ['anyof', 'allof', 'noneof', 'oneof']


RULE_KEYS = ['type', 'schema', 'min', 'required', 'default', 'items', 'allowed', 'nullable']
RULE_NAMES = {'allof', 'allow_unknown', 'allowed', 'anyof', 'check_with', 'coerce', 'contains', 'default', 'default_setter',
              'dependencies', 'empty', 'excludes', 'forbidden', 'items', 'keysrules', 'max', 'maxlength', 'meta', 'min',
              'minlength', 'noneof', 'nullable', 'oneof', 'purge_unknown', 'readonly', 'regex', 'rename', 'rename_handler',
              'require_all', 'required', 'schema', 'type', 'valuesrules'}


def is_mapping_schema(s):
    """a field -> rules mapping (as opposed to a rules set)"""
    return isinstance(s, dict) and all(isinstance(v, dict) for v in s.values()) and not (set(s) & RULE_NAMES)


class Gen(object):
    def __init__(self, seed, max_depth=3, normalization=False, pool=None, p_mismatch=0.12,
                 registries=False, of_rules=True, deps=True, nested_bias=False, purge_bias=False):
        self.r = random.Random(seed)
        self.max_depth = max_depth
        self.norm = normalization
        self.pool = pool
        self.p_mismatch = p_mismatch
        self.of_rules = of_rules
        self.deps = deps
        self.nested_bias = nested_bias
        self.purge_bias = purge_bias

    # ------------------------------------------------------------ values
    def scalar(self):
        r = self.r
        k = r.randrange(7)
        if k == 0:
            return None
        if k == 1:
            return r.choice([True, False])
        if k == 2:
            return r.choice(INTS)
        if k == 3:
            return r.choice(FLOATS)
        return r.choice(STRS)

    def arbitrary(self, depth=2):
        r = self.r
        if depth <= 0 or r.random() < 0.55:
            return self.scalar()
        if r.random() < 0.5:
            return [self.arbitrary(depth - 1) for _ in range(r.randrange(0, 4))]
        # (a document key may be spelled like a rule: 6 % of the keys of arbitrary mappings)
        return {(r.choice(SUBFIELDS + FIELDS) if r.random() > 0.06 else r.choice(RULE_KEYS)): self.arbitrary(depth - 1)
                for _ in range(r.randrange(0, 4))}

    def hashable_value(self):
        v = self.scalar()
        return v

    # ------------------------------------------------------------ schemas
    def field_names(self, n, pool):
        names = list(pool)
        self.r.shuffle(names)
        return names[:n]

    def schema(self, depth=None, pool=FIELDS, nmax=4):
        depth = self.max_depth if depth is None else depth
        names = self.field_names(self.r.randrange(0 if self.r.random() < 0.15 else 1, nmax + 1), pool)
        return {n: self.rules(depth, names, pool) for n in names}

    def simple_rules(self, depth):
        """a small rule set: used for items / keysrules / valuesrules / *of definitions"""
        return self.rules(depth, [], SUBFIELDS, small=True)

    def rules(self, depth, siblings, pool, small=False, in_of=False, kind=None, key_rules=False):
        r = self.r
        rules = {}
        kinds = ['integer', 'number', 'float', 'string', 'boolean', 'list_items', 'list_schema',
                 'dict_schema', 'dict_kv', 'any', 'string', 'integer', 'multi']
        if self.nested_bias:
            kinds += ['list_items', 'list_schema', 'dict_schema', 'dict_kv', 'dict_schema', 'dict_kv'] * 2
        kind = kind or r.choice(kinds)
        if depth <= 0 and kind in ('list_items', 'list_schema', 'dict_schema', 'dict_kv'):
            kind = r.choice(['integer', 'string', 'any'])
        ckind = kind
        if r.random() < self.p_mismatch:
            ckind = r.choice(['integer', 'string', 'list_items', 'dict_kv', 'any', 'number'])
            if kind in ('list_schema', 'dict_schema') or ckind in ('list_schema', 'dict_schema'):
                ckind = kind   # `schema` stays paired with its type (documented requirement)
        # type
        tmap = {'integer': 'integer', 'number': 'number', 'float': 'float', 'string': 'string',
                'boolean': 'boolean', 'list_items': 'list', 'list_schema': 'list', 'dict_schema': 'dict',
                'dict_kv': 'dict'}
        if kind in tmap and (r.random() < 0.8 or kind in ('list_schema', 'dict_schema')):
            rules['type'] = tmap[kind]
        elif kind == 'multi':
            rules['type'] = r.sample(['integer', 'string', 'float', 'boolean', 'list', 'dict', 'number', 'container'], r.randrange(1, 4))
        # constraints
        p = 0.35 if not small else 0.3
        if ckind in ('integer', 'number', 'float', 'any', 'multi'):
            nums = INTS + (FLOATS if ckind != 'integer' else [])
            if r.random() < p:
                rules['min'] = r.choice(nums)
            if r.random() < p:
                rules['max'] = r.choice(nums)
            if r.random() < p * 0.7:
                rules['allowed'] = r.sample(nums + [True, 'a'], r.randrange(1, 4))
            if r.random() < p * 0.5:
                rules['forbidden'] = r.sample(nums + [False, 'ab'], r.randrange(1, 3))
        if ckind in ('string', 'any', 'multi'):
            if r.random() < p:
                rules['minlength'] = r.randrange(0, 4)
            if r.random() < p:
                rules['maxlength'] = r.randrange(0, 5)
            if r.random() < p:
                rules['regex'] = r.choice(REGEXES)[0]
            if r.random() < p * 0.6:
                rules['allowed'] = r.sample(STRS, r.randrange(1, 4))
            if r.random() < p * 0.4:
                rules['forbidden'] = r.sample(STRS, r.randrange(1, 3))
            if r.random() < p * 0.6:
                rules['empty'] = r.choice([True, False])
            if r.random() < p * 0.3:
                rules['contains'] = r.choice(['a', 'ab', ['a', 'b'], 'x'])
            if r.random() < p * 0.3:
                rules['min'] = r.choice(STRS)
            if r.random() < p * 0.3:
                rules['max'] = r.choice(STRS)
        if ckind in ('list_items', 'list_schema'):
            if r.random() < p:
                rules['minlength'] = r.randrange(0, 3)
            if r.random() < p:
                rules['maxlength'] = r.randrange(0, 4)
            if r.random() < p * 0.6:
                rules['empty'] = r.choice([True, False])
            if r.random() < p * 0.5:
                rules['contains'] = r.choice([1, 'a', [1, 2], ['a'], 2.0, [[1]], [{'x': 1}, 1], [[1], [1]]])     # unhashable expected members too
            if r.random() < p * 0.5:
                rules['allowed'] = r.sample(INTS + STRS, r.randrange(1, 5))
                if r.random() < 0.15:
                    rules['allowed'] = {k: 1 for k in rules['allowed']}        # a mapping is a container too: read as its keys
            if r.random() < p * 0.4:
                rules['forbidden'] = r.sample(INTS + STRS, r.randrange(1, 3))
            if r.random() < p * 0.2:
                rules['max'] = [r.choice(INTS)]
        if ckind == 'list_items':
            if r.random() < 0.8:
                rules['items'] = [self.simple_rules(depth - 1) for _ in range(r.randrange(0, 4))]
        if kind == 'list_schema':
            rules['schema'] = self.simple_rules(depth - 1)
        if kind == 'dict_schema':
            rules['schema'] = self.schema(depth - 1, SUBFIELDS, 3)
            if r.random() < 0.3:
                rules['allow_unknown'] = r.choice([True, False, self.simple_rules(0)])
            if r.random() < 0.25:
                rules['require_all'] = r.choice([True, False])
        if ckind == 'dict_kv':
            if r.random() < 0.6:
                rules['keysrules'] = self.rules(depth - 1, [], SUBFIELDS, small=True,
                                                kind=r.choice(['string', 'integer', 'any']), key_rules=True)
            if r.random() < 0.6:
                rules['valuesrules'] = self.simple_rules(depth - 1)
            if r.random() < p * 0.5:
                rules['minlength'] = r.randrange(0, 3)
            if r.random() < p * 0.4:
                rules['empty'] = r.choice([True, False])
            if r.random() < p * 0.3:
                rules['allowed'] = r.sample(SUBFIELDS + FIELDS, r.randrange(1, 5))
            if r.random() < p * 0.3:
                rules['contains'] = r.choice(['x', ['x', 'y'], 3])
        # generic
        if r.random() < 0.25:
            rules['nullable'] = r.choice([True, True, False])
        if r.random() < 0.07 and not in_of:
            rules['readonly'] = r.choice([True, False])
        if not small and r.random() < 0.35:
            rules['required'] = r.choice([True, True, False])
        if small and r.random() < 0.1 and not in_of:
            rules['required'] = True
        if self.deps and not small and siblings and r.random() < 0.2:
            rules['dependencies'] = self.dependencies(siblings)
        if self.deps and small and r.random() < 0.06:
            rules['dependencies'] = self.dependencies(SUBFIELDS + FIELDS[:2])
        if self.deps and not small and siblings and r.random() < 0.12:
            others = [s for s in siblings]
            rules['excludes'] = r.choice(others) if r.random() < 0.6 else r.sample(others, min(len(others), 2))
        if self.of_rules and depth > 0 and r.random() < (0.22 if not in_of else 0.08):
            op = r.choice(OFS)
            rules[op] = [self.rules(depth - 1, siblings, pool, small=True, in_of=True)
                         for _ in range(r.randrange(0, 4))]
        if r.random() < 0.07:
            # check_with: a method name of the pool class, a callable, or a sequence of them
            import pool as _pool
            names = ['even', 'never', 'always', 'twice']
            one = lambda: (r.choice(names) if r.random() < 0.5 else _pool.CHECKS[r.choice(names)])
            rules['check_with'] = one() if r.random() < 0.5 else [one() for _ in range(r.randrange(1, 4))]
        if self.norm and not in_of:
            self.add_normalization(rules, depth, siblings, small, key_rules)
        return rules

    def dependencies(self, siblings):
        r = self.r
        names = [s for s in siblings if isinstance(s, str)] or ['a']
        def name():
            n = r.choice(names)
            k = r.random()
            if k < 0.15:
                return n + '.' + r.choice(['x', 'y'])
            if k < 0.27:
                return '^' + r.choice(['a', 'b', 'c'])
            if k < 0.32:
                return '^' + r.choice(['a', 'b']) + '.' + r.choice(['x', 'y'])
            if k < 0.35:
                return '^^' + n
            return n
        k = r.random()
        if k < 0.4:
            return name()
        if k < 0.65:
            return [name() for _ in range(r.randrange(0, 3))]
        return {name(): r.choice([1, 'a', [1, 2], ['a', 'b'], None, [None, 1], True, []])
                for _ in range(r.randrange(1, 3))}

    def callable_or_name(self, table, names):
        n = self.r.choice(names)
        return n if self.r.random() < 0.5 else table(n)

    def coercer(self, names=('to_int', 'to_str', 'inc', 'wrap', 'ident', 'none', 'fail', 'keyfail', 'first', 'prefix_x', 'failrt', 'failattr')):
        import pool
        r = self.r
        if r.random() < 0.3:
            return [self.callable_or_name(lambda n: pool.COERCERS[n], names) for _ in range(r.randrange(1, 4))]
        return self.callable_or_name(lambda n: pool.COERCERS[n], names)

    def add_normalization(self, rules, depth, siblings, small, key_rules=False):
        import pool
        r = self.r
        t = rules.get('type')
        if r.random() < 0.16:
            if r.random() < 0.75:
                rules['default'] = self.value_for({k: v for k, v in rules.items() if k in ('type', 'min', 'max', 'allowed', 'schema', 'items')}, 1, 0.8)
            else:
                letters = [s for s in siblings if isinstance(s, str) and len(s) == 1] or ['a']
                n = r.choice(['const5'] + ['%s_%s' % (k, ''.join(r.sample(letters, r.randrange(0, min(3, len(letters)) + 1))))
                                           for k in ('rd', 'rd', 'rd', 'rdx', 'rdk', 'rdr')])
                if n not in pool.SETTER_NAMES:
                    n = 'const5'
                rules['default_setter'] = n if r.random() < 0.5 else pool.setter(n)
        if r.random() < 0.2:
            rules['coerce'] = self.coercer(('to_int', 'to_str', 'prefix_x', 'ident', 'fail', 'keyfail')) if key_rules else self.coercer()
        if not key_rules and not small and r.random() < 0.07:
            rules['rename'] = r.choice(['n1', 'n2', 7, 0, ''] + [s for s in siblings][:2])       # falsy names are names too
        if not key_rules and not small and r.random() < 0.06:
            rules['rename_handler'] = self.coercer(('prefix_x', 'to_str', 'to_int', 'ident', 'fail', 'failrt', 'wrap'))    # wrap: an unhashable new name
        if rules.get('type') == 'dict' and 'schema' in rules and r.random() < (0.6 if self.purge_bias else 0.25):
            rules['purge_unknown'] = r.choice([True, False])
        if r.random() < 0.08:
            rules['readonly'] = True

    # ------------------------------------------------------------ configuration
    def config(self):
        r = self.r
        cfg = {}
        k = r.random()
        if k < 0.25:
            cfg['allow_unknown'] = True
        elif k < 0.45:
            cfg['allow_unknown'] = self.simple_rules(1)
        if r.random() < 0.25:
            cfg['require_all'] = True
        if r.random() < 0.25:
            cfg['ignore_none_values'] = True
        if self.norm:
            if r.random() < (0.6 if self.purge_bias else 0.3):
                cfg['purge_unknown'] = True
            if r.random() < 0.2:
                cfg['purge_readonly'] = True
        return cfg

    # ------------------------------------------------------------ documents
    def value_for(self, rules, depth=3, p_valid=0.75):
        r = self.r
        if not isinstance(rules, dict):
            return self.arbitrary(1)
        if r.random() > p_valid:
            return self.near_miss(rules, depth)
        if rules.get('nullable') and r.random() < 0.15:
            return None
        for op in OFS:
            if op in rules and rules[op] and r.random() < 0.5:
                d = r.choice(rules[op])
                merged = dict(rules)
                merged.pop(op)
                merged.update(d)
                return self.value_for(merged, depth, 1.0)
        t = rules.get('type')
        if isinstance(t, list):
            t = r.choice(t) if t else None
        if 'allowed' in rules and t not in ('list', 'dict', 'container') and r.random() < 0.8:
            al = rules['allowed']
            if isinstance(al, list) and al:
                return r.choice(al)
        if t is None:
            if 'schema' in rules:
                t = 'dict' if is_mapping_schema(rules['schema']) else 'list'
            elif 'items' in rules:
                t = 'list'
            elif 'keysrules' in rules or 'valuesrules' in rules:
                t = 'dict'
            elif 'regex' in rules or 'minlength' in rules or 'maxlength' in rules:
                t = 'string'
            elif 'min' in rules or 'max' in rules:
                t = 'integer' if not isinstance(rules.get('min', rules.get('max')), str) else 'string'
            else:
                t = r.choice(['integer', 'string', 'boolean', 'float'])
        if t in ('integer', 'number', 'float'):
            lo, hi = rules.get('min'), rules.get('max')
            cands = [x for x in (INTS + (FLOATS if t != 'integer' else []))
                     if (not isinstance(lo, (int, float)) or x >= lo) and (not isinstance(hi, (int, float)) or x <= hi)]
            if isinstance(lo, (int, float)):
                cands.append(lo)
            if isinstance(hi, (int, float)):
                cands.append(hi)
            return r.choice(cands or INTS)
        if t == 'boolean':
            return r.choice([True, False])
        if t == 'string':
            if 'regex' in rules:
                for pat, good, bad in REGEXES:
                    if pat == rules['regex']:
                        return r.choice(good)
            lo = rules.get('minlength', 0)
            hi = rules.get('maxlength', 6)
            cands = [s for s in STRS if isinstance(lo, int) and isinstance(hi, int) and lo <= len(s) <= hi]
            return r.choice(cands or STRS)
        if t in ('list', 'container'):
            if 'items' in rules and isinstance(rules['items'], list):
                return [self.value_for(it, depth - 1, 0.9) for it in rules['items']]
            n = r.randrange(rules.get('minlength', 0) if isinstance(rules.get('minlength'), int) else 0, 4)
            if 'schema' in rules:
                return [self.value_for(rules['schema'], depth - 1, 0.85) for _ in range(n)]
            if 'allowed' in rules and isinstance(rules['allowed'], list) and rules['allowed']:
                return [r.choice(rules['allowed']) for _ in range(n)]
            return [self.scalar() for _ in range(n)]
        if t == 'dict':
            if 'schema' in rules and is_mapping_schema(rules['schema']):
                return self.doc_for(rules['schema'], depth - 1, SUBFIELDS)
            n = r.randrange(0, 4)
            out = {}
            for _ in range(n):
                k = r.choice(SUBFIELDS + FIELDS)
                if 'keysrules' in rules and r.random() < 0.8:
                    kk = self.value_for(rules['keysrules'], 0, 0.9)
                    if isinstance(kk, (str, int)) and not isinstance(kk, bool):
                        k = kk
                out[k] = self.value_for(rules['valuesrules'], depth - 1, 0.85) if 'valuesrules' in rules else self.scalar()
            return out
        return self.scalar()

    def near_miss(self, rules, depth):
        r = self.r
        k = r.random()
        if k < 0.3:
            return self.arbitrary(2)
        if k < 0.4:
            return None
        if k < 0.5:
            return r.choice(['', [], {}])
        if 'min' in rules and isinstance(rules['min'], (int, float)) and k < 0.65:
            return rules['min'] - r.choice([1, 0.25, 0])
        if 'max' in rules and isinstance(rules['max'], (int, float)) and k < 0.8:
            return rules['max'] + r.choice([1, 0.25, 0])
        if 'regex' in rules:
            for pat, good, bad in REGEXES:
                if pat == rules['regex']:
                    return r.choice(bad)
        if 'maxlength' in rules and isinstance(rules['maxlength'], int):
            n = rules['maxlength'] + r.choice([0, 1])
            return r.choice(['x' * n, [1] * n])
        if 'minlength' in rules and isinstance(rules['minlength'], int):
            n = max(0, rules['minlength'] - r.choice([0, 1]))
            return r.choice(['x' * n, [1] * n])
        if 'items' in rules and isinstance(rules['items'], list):
            l = [self.value_for(it, depth - 1, 0.6) for it in rules['items']]
            if r.random() < 0.4:
                l = l[:-1] if l and r.random() < 0.5 else l + [1]
            return l
        if 'schema' in rules and isinstance(rules['schema'], dict):
            if rules.get('type') == 'dict' and is_mapping_schema(rules['schema']):
                return self.doc_for(rules['schema'], depth - 1, SUBFIELDS, p_valid=0.5)
            if not is_mapping_schema(rules['schema']):
                return [self.value_for(rules['schema'], depth - 1, 0.5) for _ in range(r.randrange(1, 4))]
        wrong = {'integer': ['a', 1.5, [1]], 'string': [1, None, ['a']], 'list': ['ab', {}, 1], 'dict': [[], 'a', 1],
                 'boolean': [1, 'a'], 'float': ['a', None], 'number': [True, 'a']}
        t = rules.get('type')
        if isinstance(t, str) and t in wrong:
            return r.choice(wrong[t])
        return self.arbitrary(2)

    def doc_for(self, schema, depth=3, pool=FIELDS, p_valid=0.75, p_present=0.8, p_unknown=0.3):
        r = self.r
        doc = {}
        names = list(schema.keys())
        r.shuffle(names)
        for n in names:
            if r.random() < p_present:
                doc[n] = self.value_for(schema[n], depth, p_valid)
        if r.random() < p_unknown:
            for _ in range(r.randrange(1, 3)):
                k = r.choice(pool + ['u', 'dependencies'][:1])
                if k not in doc:
                    doc[k] = self.arbitrary(1)
        if r.random() < 0.15:
            items = list(doc.items())
            r.shuffle(items)
            doc = dict(items)
        return doc

    def arbitrary_doc(self):
        r = self.r
        return {r.choice(FIELDS): self.arbitrary(3) for _ in range(r.randrange(0, 5))}
