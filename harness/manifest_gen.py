#!/usr/bin/env python3
"""Regenerates /verif/MANIFEST.json from the table below (kept valid at all times)."""
import json
import os

VERIF = os.path.dirname(os.path.dirname(os.path.abspath(__file__)))

import re


def level_of(pid):
    src = open(os.path.join(VERIF, "harness", "props", pid.lower() + ".py")).read()
    return re.search(r'^LEVEL = "([a-z_]+)"', src, flags=re.M).group(1)


TEXT = {
    "C01": ("Reference interpreter = the Coq validation model at the documented facts (Spec); every run diffs the real validate(normalize=False) against it and against "
            "the model at the facts re-extracted from the source (Impl) on verdict and recursive (path, code, children) error keys over schema-directed and arbitrary documents.",
            "DESIGN.md section 6 C01"),
    "C02": ("normalized()/validate() of the real code diffed against the Coq normalization model (pipeline order = step tokens extracted from __normalize_mapping; Spec = documented order) "
            "on processed document and error keys, with the callable pool; tuples checked for container-type preservation.", "DESIGN.md section 6 C02"),
    "C03": ("Every entry point (validate, validate(normalize=False), validated, normalized, errors) on accepted schemas x mapping documents incl. a rule x value-shape matrix and raising "
            "user callables: any exception escaping is a violation keyed by (type, innermost cerberus function); the model's exception behaviour is diffed against the code.", "DESIGN.md section 6 C03"),
    "C04": ("Grammar schemas must be accepted and single-point corruptions at any rule-set position must raise SchemaError through all entry points, leaving schema / allow_unknown in force; judged on a cold cache.",
            "DESIGN.md section 6 C04"),
    "C05": ("Deep/repr snapshots of the caller's document, validator.schema, allow_unknown rule sets and registries (module-level and validator-bound, with reference chains) around every API call; "
            "identity of validator.document; normalize=False leaves the document equal.", "DESIGN.md section 6 C05"),
    "C06": ("The API agreement relations and the composition law (readonly-free schemas) evaluated with six fresh real validators per generated case.", "DESIGN.md section 6 C06"),
    "C07": ("Random call histories (mixed flags, invalid / non-mapping documents, accepted and rejected per-call schemas) and all histories of length <= 2/3 over a pool of 8 calls: used instance vs fresh instance on "
            "result, error keys, both trees node by node, processed document, rendered errors.", "DESIGN.md section 6 C07"),
    "C08": ("Submission histories over four validator classes and all entry points, with type-twins, context-twins, corrupted tails of *of lists and subclass-only schemas: warm run vs run with caches cleared before every submission.",
            "DESIGN.md section 6 C08"),
    "C09": ("Recount oracle on the real code (each definition validated on its own by a fresh validator with inherited type/allow_unknown) against error.info and definitions_errors; *of errors diffed against the Spec/Impl models.",
            "DESIGN.md section 6 C09"),
    "C10": ("Standalone sub-document oracle on the real code for schema (dict/list), items, valuesrules, keysrules, with per-field overrides; directed family for root-relative dependencies; group errors diffed against the Spec/Impl models.",
            "DESIGN.md section 6 C10"),
    "C11": ("Coq theorems (Properties/C11.v, closed under the global context) prove for ARBITRARY error lists - any nesting, any paths - that the model of ErrorTree returns at every path exactly the errors with "
            "that path (incl. nested child errors), contains nothing else, has a node exactly for the prefixes of stored paths, and is empty iff there are no errors. The model is tied to errors.py on every run by a "
            "differential test (random error forests through the real tree classes vs the extracted model, node by node) and the property's oracle runs on the trees of real validations, also on re-used validators.",
            "DESIGN.md section 6 C11"),
    "C12": ("Path-resolution oracle on every validation error of the real code (document path -> value, schema path -> constraint, code/rule consistency, children exactly on group errors), evaluated after reading "
            "the errors property; full error keys diffed against the Spec/Impl models.", "DESIGN.md section 6 C12"),
    "C13": ("Purity / completeness oracle on the real errors property; the real BasicErrorHandler logic under a token message table diffed node by node against the Coq handler model fed with the real error lists.",
            "DESIGN.md section 6 C13"),
    "C14": ("Inline schema vs every single reference substitution and random subsets (module-level and validator-bound registries), allow_unknown by name, self-referential definitions under an alarm.",
            "DESIGN.md section 6 C14"),
    "C15": ("Canonical schema vs every single <of>_<rule> / deprecated-name / spaces rewrite at every rule-set position (also allow_unknown rule sets, registries, schemas with references): acceptance, exposed validator.schema, outcomes.",
            "DESIGN.md section 6 C15"),
    "C16": ("Fresh subclass and sibling per case; extensions planted at random depth record the class and extra configuration of the instance running them; isolation against base and sibling in every order.",
            "DESIGN.md section 6 C16"),
    "C17": ("Dependency graphs of default setters (exhaustive on 2 fields, sampled/exhaustive on 3, random on 4-6): result vs independently computed least fixpoint, error attribution, step bound; sample diffed against the Coq work-list model.",
            "DESIGN.md section 6 C17"),
    "C18": ("Deterministic line-granular scheduler over real threads: systematic single preemptions after every line writing shared state, double preemptions, random schedules, free-running soak; each thread vs the body executed alone. "
            "PARTIAL: preemption inside a source line and C-level effects cannot be exhibited.", "DESIGN.md section 6 C18"),
}
NOTE = ("Trusted: Coq 8.16.1 kernel for the theorems listed in the evidence; hand-written models bound to the code only by the correspondence runs; translator/translate.py (fail-closed) for the extracted facts; "
        "extraction (ExtrOcamlBasic, ExtrOcamlString) and driver/driver.ml; harness generators, canonicaliser and oracles; CPython 3.12. Known findings are listed in known_findings.json.")
TECH = {"proof": "Rocq proof about the executable model + model/code correspondence check + real-code oracle",
        "translation_validation": "Rocq executable model (Spec/Impl facts) diffed against the code + real-code oracle; theorems in progress",
        "exploration": "schema-directed differential oracle on the real code (Rocq model/theorems for this property in progress)"}

CLAIMED = {}
for _i in range(1, 19):
    _pid = "C%02d" % _i
    if os.path.exists(os.path.join(VERIF, "harness", "props", _pid.lower() + ".py")):
        _lv = level_of(_pid)
        CLAIMED[_pid] = {"category": _lv, "text": TEXT[_pid][0], "design_ref": TEXT[_pid][1], "note": NOTE, "technique": TECH[_lv]}

NOT_YET = "check not built yet (construction in progress; see DESIGN.md section 11)"


def main():
    checks = []
    for pid in sorted(CLAIMED):
        c = CLAIMED[pid]
        checks.append({
            "property_id": pid,
            "quick_cmd": "bin/check %s quick" % pid,
            "thorough_cmd": "bin/check %s thorough" % pid,
            "evidence_file": "/verif/evidence/%s.json" % pid,
            "replay_cmd_template": "bin/check %s --replay {path}" % pid,
            "engine": "coq-model+correspondence",
            "level_claimed": {"category": c["category"], "text": c["text"], "design_ref": c["design_ref"]},
            "level_note": c["note"],
            "technique": c["technique"],
        })
    na = [{"property_id": "C%02d" % i, "reason": NA_REASONS.get("C%02d" % i, NOT_YET)}
          for i in range(1, 19) if "C%02d" % i not in CLAIMED]
    m = {
        "version": 1,
        "setup_cmd": "bin/setup",
        "hooks": {
            "guard": "CERBERUS_VERIF",
            "enable": "no source hooks exist: all observation goes through attributes the library already has (and sys.settrace for schedules)",
            "baseline_off_cmd": "cd /repo && /venv/bin/python -m pytest -ra -q -p no:cacheprovider --timeout=900 --continue-on-collection-errors",
            "source_commits": SOURCE_COMMITS,
            "add_only": True,
        },
        "engines": [{
            "name": "coq-model+correspondence", "path": "/verif/coq, /verif/translator, /verif/harness, /verif/driver",
            "serves_properties": sorted(CLAIMED),
            "kind_free_text": "Coq 8.16 development (executable model parametrised by facts re-extracted from /repo by a fail-closed Python-ast "
                              "translator; generic theorems; Properties/*.v) + OCaml-extracted model diffed against the real code + property oracles on the real code",
        }],
        "checks": checks,
        "not_applicable": na,
        "notes": "bin/check <ID> quick|thorough; every run re-translates /repo's working tree, rebuilds the Coq development incrementally and "
                 "re-runs correspondence and oracles. known_findings.json lists recorded/fixed defects.",
    }
    with open(os.path.join(VERIF, "MANIFEST.json"), "w") as f:
        json.dump(m, f, indent=1)


NA_REASONS = {}
SOURCE_COMMITS = []

if __name__ == "__main__":
    main()
