#!/usr/bin/env python3
"""Regenerates /verif/MANIFEST.json from the table below (kept valid at all times)."""
import json
import os

VERIF = os.path.dirname(os.path.dirname(os.path.abspath(__file__)))

import re


def level_of(pid):
    src = open(os.path.join(VERIF, "harness", "props", pid.lower() + ".py")).read()
    return re.search(r'^LEVEL = "([a-z_]+)"', src, flags=re.M).group(1)


TEXT = {
    "C01": ("Reference interpreter = the Coq validation model at the documented facts (Spec); every run diffs the real validate(normalize=False) against it and against "
            "the model at the facts re-extracted from the source (Impl) on verdict and recursive (path, code, children) error keys over schema-directed and arbitrary documents.",
            "DESIGN.md section 6 C01"),
    "C02": ("normalized()/validate() of the real code diffed against the Coq normalization model (pipeline order = step tokens extracted from __normalize_mapping; Spec = documented order) "
            "on processed document and error keys, with the callable pool; tuples checked for container-type preservation.", "DESIGN.md section 6 C02"),
    "C03": ("Every entry point (validate, validate(normalize=False), validated, normalized, errors) on accepted schemas x mapping documents incl. a rule x value-shape matrix and raising "
            "user callables: any exception escaping is a violation keyed by (type, innermost cerberus function); the model's exception behaviour is diffed against the code.", "DESIGN.md section 6 C03"),
    "C04": ("Grammar schemas must be accepted and single-point corruptions at any rule-set position must raise SchemaError through all entry points, leaving schema / allow_unknown in force; judged on a cold cache.",
            "DESIGN.md section 6 C04"),
    "C05": ("Deep/repr snapshots of the caller's document, validator.schema, allow_unknown rule sets and registries (module-level and validator-bound, with reference chains) around every API call; "
            "identity of validator.document; normalize=False leaves the document equal.", "DESIGN.md section 6 C05"),
    "C06": ("The API agreement relations and the composition law (readonly-free schemas) evaluated with six fresh real validators per generated case.", "DESIGN.md section 6 C06"),
    "C07": ("Random call histories (mixed flags, invalid / non-mapping documents, accepted and rejected per-call schemas) and all histories of length <= 2/3 over a pool of 8 calls: used instance vs fresh instance on "
            "result, error keys, both trees node by node, processed document, rendered errors.", "DESIGN.md section 6 C07"),
    "C08": ("Submission histories over four validator classes and all entry points, with type-twins, context-twins, spelling-twins (also as UserDict / OrderedDict), typed members and hash-alike scalars of custom rules, one schema under registries that give its names different meanings, corrupted tails of *of lists and subclass-only schemas: warm run vs run with caches cleared before every submission.",
            "DESIGN.md section 6 C08"),
    "C09": ("Recount oracle on the real code (each definition validated on its own by a fresh validator with the SAME options and the inherited type/allow_unknown rules, errors beneath the field; a second recount under the implementation's allow_unknown=True attributes a discrepancy to the recorded finding) against error.info and definitions_errors; *of errors diffed against the Spec/Impl models.",
            "DESIGN.md section 6 C09"),
    "C10": ("Standalone sub-document oracle on the real code for schema (dict/list), items, valuesrules, keysrules, with per-field overrides; directed family for root-relative dependencies; group errors diffed against the Spec/Impl models.",
            "DESIGN.md section 6 C10"),
    "C11": ("Coq theorems (Properties/C11.v, closed under the global context) prove for ARBITRARY error lists - any nesting, any paths - that the model of ErrorTree returns at every path exactly the errors with "
            "that path (incl. nested child errors), contains nothing else, has a node exactly for the prefixes of stored paths, and is empty iff there are no errors. The model is tied to errors.py on every run by a "
            "differential test (random error forests through the real tree classes vs the extracted model, node by node) and the property's oracle runs on the trees of real validations, also on re-used validators.",
            "DESIGN.md section 6 C11"),
    "C12": ("Path-resolution oracle on every validation error of the real code (document path -> value, schema path -> constraint, code/rule consistency, children exactly on group errors), evaluated after reading "
            "the errors property; full error keys diffed against the Spec/Impl models.", "DESIGN.md section 6 C12"),
    "C13": ("Purity / completeness oracle on the real errors property; the real BasicErrorHandler logic under a token message table diffed node by node against the Coq handler model fed with the real error lists.",
            "DESIGN.md section 6 C13"),
    "C14": ("Inline schema vs every single reference substitution and random subsets (module-level and validator-bound registries), allow_unknown by name, self-referential definitions under an alarm.",
            "DESIGN.md section 6 C14"),
    "C15": ("Canonical schema vs every single <of>_<rule> / deprecated-name / spaces rewrite at every rule-set position (also allow_unknown rule sets, registries, schemas with references): acceptance, exposed validator.schema, outcomes.",
            "DESIGN.md section 6 C15"),
    "C16": ("Fresh subclass and sibling per case; extensions planted at random depth record the class and extra configuration of the instance running them; isolation against base and sibling in every order.",
            "DESIGN.md section 6 C16"),
    "C17": ("Dependency graphs of default setters (exhaustive on 2 fields, sampled/exhaustive on 3, random on 4-6): result vs independently computed least fixpoint, error attribution, step bound; sample diffed against the Coq work-list model.",
            "DESIGN.md section 6 C17"),
    "C18": ("Deterministic line-granular scheduler over real threads: systematic single preemptions after every line writing shared state, double preemptions, random schedules, free-running soak; each thread vs the body executed alone. "
            "PARTIAL: preemption inside a source line and C-level effects cannot be exhibited.", "DESIGN.md section 6 C18"),
}

PROVED = {
    "C01": "the extracted priority / drop-list / type / *of / site / error facts equal the documented ones (vm_compute on the record re-read from the source); the code-shaped rule queue (pop(0), remove) evaluates exactly the rules of the declarative skip-set reading, for every duplicate-free queue and arbitrary handlers; verdict iff no errors. PARTIAL: equality with the reference interpreter on all inputs is the differential run, the Spec being the same model at documented constants.",
    "C02": "the extracted pipeline is the documented step order with its guards; a failing coercer keeps the value, files its error at the field's path and stops the chain, and so does a failing rename handler (the stop test looks for the error the chain itself files); renaming a field to its own name changes nothing; an unhashable new name from a rename handler is a failed renaming at the field's path; an unknown list is normalized member by member against the `schema` of the rules for unknown fields; unknown-field rules never touch schema fields; items of the wrong length are not normalized.",
    "C03": "every leaf rule handler returns normally for EVERY value (any nesting, unhashable members) given a constraint of the declared shape (`contains` and a mapping of `allowed` values for ANY constraint since the repairs e210946 / 2752c56); filing an error succeeds whenever the field's resolved rule set holds the rule. PARTIAL: the recursive skeleton and normalization are decided by the oracle and the diffed exception behaviour.",
    "C04": "a rejected assignment keeps schema and allow_unknown in force; all entry points decide alike (expand -> validate -> commit, extracted shape); unknown rule / unknown type / normalization rule inside *of / dangling field reference are rejected at the rule set that holds them; a rejected rules set rejects every rules set holding it at a recursion position of the documented grammar (items, keysrules, valuesrules, *of definitions, allow_unknown rule sets, list- and dict-schemas), hence by induction on the nesting a corruption at ANY depth of the inline structure rejects the schema (corrupted_is_rejected). PARTIAL: positions behind registry references, and that the real meta-schema is this grammar, are decided by the differential run and the corruption oracle.",
    "C05": "every write site extracted from the normalization functions is at depth 0 of an owned copy or re-binds the nested member to a copy first, hence no run of the site machine writes into a caller- or schema-owned object; a depth-1 site without the copy is refuted.",
    "C06": "verdict iff no errors; validated() is None iff the verdict is False (always_return_document variant too); normalized() is None iff normalization errors; validate and normalized share processed document and normalization errors. PARTIAL: the composition law is decided by the oracle.",
    "C07": "the attributes reset by the extracted validate() prologue and __init_processing cover the per-call read sets, and any processing function that reads per-call attributes only through them yields, after ANY history, what a fresh instance yields.",
    "C08": "with a type- and class-aware key (extracted) and equal keys implying equal validity, every submission history equals its cold run and the cold run is plain validity (the key is the frozen structure itself since df705fe: no assumption on hash collisions); the context part is REFUTED on the faithful model (bulk and *of definitions share a tag) - the recorded known finding.",
    "C09": "the *of handler files its error exactly when the extracted comparison holds for the number of definitions that validate individually in the stated child context, with that count, the total and the failing definitions' errors; the comparisons are the documented ones; None skips them; a `readonly` rule inside a definition is checked whether or not the document was normalized (the definition's validator does not inherit the flag). The recorded finding is exhibited as a witness on the model (C09_refuted_unknown_fields_inside_definition_containers). LIMIT: the child context is the implementation's (allow_unknown=True for the definition's validator), so the theorem shares the recorded finding on containers inside definitions; the recount oracle judges it as the property states it.",
    "C10": "child configuration inherits every option and both registries; the root document is the outermost one at every depth; at each of the five sites the filed children are exactly the child validator's errors; bubbling edits schema paths only; update is forwarded; by induction over the whole model every recorded error strictly extends the validator's document path. PARTIAL: equality with standalone validation is decided by the oracle; with normalization on it is REFUTED for read-only fields on the faithful model (C10_refuted_readonly_in_a_sub_document_with_normalization, the recorded finding).",
    "C11": "for ARBITRARY error lists the tree returns at every path exactly the errors with that path incl. nested children, holds nothing else, has a node exactly for prefixes of stored paths, is empty iff no errors, and look-ups by definition agree; for validator outputs the tree content is the flattening.",
    "C12": "document paths extend the validator's path; code and rule come from one definition; value and constraint are the field's value and the resolved rule's constraint; children iff group definition; for every validator at any depth each error of its list sits at its path plus one field and stores the sub-document's value under that field or None (validate_errors_located, induction over the whole model); code and rule of one definition for every error at every depth, children included (validate_errors_defined); a validator's own errors have schema path = its schema path + allow_unknown crumbs + [field; rule] (validate_schema_paths_located). PARTIAL: resolution of child errors' schema paths after bubbling, and through registry references, is decided by the oracle.",
    "C13": "add() deep-copies first (extracted shape), rendering is a function of the error list and leaves it untouched, one insertion adds one message, a leaf error adds it under its document path only, and for error forests of ANY nesting the number of rendered messages is: one per non-group error, one per *of error plus what its definitions' errors contribute, for a group error what its children contribute (render_count). PARTIAL: WHERE nested messages are placed is decided by the node-by-node diff against the real handler.",
    "C14": "giving ANY of a schema level's field rule sets by the name of a registry entry that holds them leaves validate(document, update, normalize) and normalized(document) of a fresh validator unchanged -- verdict, processed document, every error with paths / constraint / children, an escaping exception -- for every document, configuration and fuel (C14_fields_by_name_process_alike, through every rule handler, the normalization pipeline and every child validator); per use site: same errors, excludes, inherited *of rules, required set. PARTIAL: references INSIDE constraints (sub-schemas, bulk rule sets, items) show in the constraint attribute of errors and are decided by the inline-vs-reference oracle, as are acceptance and self-referential definitions.",
    "C15": "canonical schemas of any nesting are fixed points of expand through every recursion position; an <of>_<rule> key expands to the documented list, split at the first underscore. PARTIAL: equality of outcomes is decided by the variant oracle on the real code.",
    "C16": "per-class cache and same-class child factory (extracted facts); a child inherits the whole configuration; a rule dispatches to the same handler at every depth. PARTIAL: Python-level subclass isolation is decided by the oracle.",
    "C17": "the defaults work-list terminates within n(n+1)+1 iterations for ARBITRARY setters; an exception other than KeyError is local to its field; the loop in the source is the modelled one (extracted shape tokens, the seen-set holding the pending tuples themselves since be0af7a); and the LEAST FIXPOINT: for dependency-graph setters over any number of fields, any graph, any fields already present and any order of the pending list, exactly the obtainable fields end up set and exactly the pending fields that are not resolvable carry the error at their own path; two orders give the same result (wl_least_fixpoint, default_setters_least_fixpoint, order_irrelevant). PARTIAL: the VALUES the set fields receive are decided by the graph oracle.",
    "C18": "non-interference over the interleaving semantics for benign shared operations; the lazy class is published complete (extracted shape); expansion of canonical schemas writes equal values; refutation schedules for the shared shorthand literal. PARTIAL by nature: preemption inside a line and C-level effects are outside any model.",
}
NOTE = ("Trusted: Coq 8.16.1 kernel (vm_compute, no native_compute, no axioms: Print Assumptions closed) for the theorems listed in the evidence; hand-written models bound to the code only by the correspondence runs; translator/translate.py (fail-closed) for the extracted facts; "
        "extraction (ExtrOcamlBasic, ExtrOcamlString) and driver/driver.ml; harness generators, canonicaliser and oracles; CPython 3.12. Known findings are listed in known_findings.json.")
TECH = {"proof": "Rocq (Coq 8.16) theorems about an executable model parametrised by facts re-extracted from the source on every run + extracted-model/code correspondence check + real-code oracle for the search",
        "translation_validation": "Rocq executable model (Spec/Impl facts) diffed against the code + real-code oracle; theorems in progress",
        "exploration": "schema-directed differential oracle on the real code (Rocq model/theorems for this property in progress)"}

CLAIMED = {}
for _i in range(1, 19):
    _pid = "C%02d" % _i
    if os.path.exists(os.path.join(VERIF, "harness", "props", _pid.lower() + ".py")):
        _lv = level_of(_pid)
        CLAIMED[_pid] = {"category": _lv, "text": "PROVED in Coq (coq/theories/Properties/%s.v, closed under the global context, re-checked against the facts re-extracted from /repo on every run): %s TIE AND ORACLE: %s" % (_pid, PROVED[_pid], TEXT[_pid][0]), "design_ref": TEXT[_pid][1], "note": NOTE, "technique": TECH[_lv]}

NOT_YET = "check not built yet (construction in progress; see DESIGN.md section 11)"


def main():
    checks = []
    for pid in sorted(CLAIMED):
        c = CLAIMED[pid]
        checks.append({
            "property_id": pid,
            "quick_cmd": "bin/check %s quick" % pid,
            "thorough_cmd": "bin/check %s thorough" % pid,
            "evidence_file": "/verif/evidence/%s.json" % pid,
            "replay_cmd_template": "bin/check %s --replay {path}" % pid,
            "engine": "coq-model+correspondence",
            "level_claimed": {"category": c["category"], "text": c["text"], "design_ref": c["design_ref"]},
            "level_note": c["note"],
            "technique": c["technique"],
        })
    na = [{"property_id": "C%02d" % i, "reason": NA_REASONS.get("C%02d" % i, NOT_YET)}
          for i in range(1, 19) if "C%02d" % i not in CLAIMED]
    m = {
        "version": 1,
        "setup_cmd": "bin/setup",
        "hooks": {
            "guard": "CERBERUS_VERIF",
            "enable": "no source hooks exist: all observation goes through attributes the library already has (and sys.settrace for schedules)",
            "baseline_off_cmd": "cd /repo && /venv/bin/python -m pytest -ra -q -p no:cacheprovider --timeout=900 --continue-on-collection-errors",
            "source_commits": SOURCE_COMMITS,
            "add_only": True,
        },
        "engines": [{
            "name": "coq-model+correspondence", "path": "/verif/coq, /verif/translator, /verif/harness, /verif/driver",
            "serves_properties": sorted(CLAIMED),
            "kind_free_text": "Coq 8.16 development (executable model parametrised by facts re-extracted from /repo by a fail-closed Python-ast "
                              "translator; generic theorems; Properties/*.v) + OCaml-extracted model diffed against the real code + property oracles on the real code",
        }],
        "checks": checks,
        "not_applicable": na,
        "notes": "bin/check <ID> quick|thorough; every run re-translates /repo's working tree, rebuilds the Coq development incrementally and "
                 "re-runs correspondence and oracles. known_findings.json lists recorded/fixed defects. Unguarded 'fix:' commits in /repo (genuine defects repaired, DESIGN.md section 7): b9fc46d, a646f39, c178fe2, 26047ae, e7f96d1, d2518a4, f96707f, d669df6, e8f2a59, fd9d03c, a644b85, 7917653, e99beff, 0a14e11, 9b2b365, 42f9dde, d2f4b19, fc2279c, f78a6d8, 9ba42b1, 99e093f.",
    }
    with open(os.path.join(VERIF, "MANIFEST.json"), "w") as f:
        json.dump(m, f, indent=1)


NA_REASONS = {}
SOURCE_COMMITS = []

if __name__ == "__main__":
    main()
