#!/usr/bin/env python3
"""Regenerates /verif/MANIFEST.json from the table below (kept valid at all times)."""
import json
import os

VERIF = os.path.dirname(os.path.dirname(os.path.abspath(__file__)))

CLAIMED = {
    "C11": {
        "category": "proof",
        "text": "Coq theorems (Properties/C11.v, closed under the global context) prove for ARBITRARY error lists - any nesting, any "
                "paths - that the model of ErrorTree returns at every path exactly the errors with that path (incl. nested child errors), "
                "contains nothing else, has a node exactly for the prefixes of stored paths, and is empty iff there are no errors. The model is "
                "tied to errors.py on every run by a differential test (random error forests through the real tree classes vs the extracted "
                "model, node by node) and the property's oracle runs on the trees of real validations, also on re-used validators.",
        "design_ref": "DESIGN.md section 6 C11",
        "note": "Trusted: Coq kernel; hand-written tree model (Model/Tree.v) bound to the code only by the correspondence run; translator for "
                "the bit masks; extraction + OCaml driver. Order of errors inside a node is not compared.",
        "technique": "Rocq proof by induction over paths and nested errors + model/code correspondence check",
    },
}

NOT_YET = "check not built yet (construction in progress; see DESIGN.md section 11)"


def main():
    checks = []
    for pid in sorted(CLAIMED):
        c = CLAIMED[pid]
        checks.append({
            "property_id": pid,
            "quick_cmd": "bin/check %s quick" % pid,
            "thorough_cmd": "bin/check %s thorough" % pid,
            "evidence_file": "/verif/evidence/%s.json" % pid,
            "replay_cmd_template": "bin/check %s --replay {path}" % pid,
            "engine": "coq-model+correspondence",
            "level_claimed": {"category": c["category"], "text": c["text"], "design_ref": c["design_ref"]},
            "level_note": c["note"],
            "technique": c["technique"],
        })
    na = [{"property_id": "C%02d" % i, "reason": NA_REASONS.get("C%02d" % i, NOT_YET)}
          for i in range(1, 19) if "C%02d" % i not in CLAIMED]
    m = {
        "version": 1,
        "setup_cmd": "bin/setup",
        "hooks": {
            "guard": "CERBERUS_VERIF",
            "enable": "no source hooks exist: all observation goes through attributes the library already has (and sys.settrace for schedules)",
            "baseline_off_cmd": "cd /repo && /venv/bin/python -m pytest -ra -q -p no:cacheprovider --timeout=900 --continue-on-collection-errors",
            "source_commits": SOURCE_COMMITS,
            "add_only": True,
        },
        "engines": [{
            "name": "coq-model+correspondence", "path": "/verif/coq, /verif/translator, /verif/harness, /verif/driver",
            "serves_properties": sorted(CLAIMED),
            "kind_free_text": "Coq 8.16 development (executable model parametrised by facts re-extracted from /repo by a fail-closed Python-ast "
                              "translator; generic theorems; Properties/*.v) + OCaml-extracted model diffed against the real code + property oracles on the real code",
        }],
        "checks": checks,
        "not_applicable": na,
        "notes": "bin/check <ID> quick|thorough; every run re-translates /repo's working tree, rebuilds the Coq development incrementally and "
                 "re-runs correspondence and oracles. known_findings.json lists recorded/fixed defects.",
    }
    with open(os.path.join(VERIF, "MANIFEST.json"), "w") as f:
        json.dump(m, f, indent=1)


NA_REASONS = {}
SOURCE_COMMITS = []

if __name__ == "__main__":
    main()
