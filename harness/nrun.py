"""Runner for the normalization family (C02, C05, C06, C07): real PoolValidator vs extracted model."""
import collections
import copy
import json

import common
import pool
import vrun
from common import cerberus, real_error, enc_config, enc_value
from gen import Gen


def make_validator(schema, cfg):
    return pool.PoolValidator(schema, **cfg)


def real_api(schema, cfg, doc, update, api):
    """api in validate / validate_nonorm / normalized; returns outcome dict"""
    cfg = vrun.real_cfg(cfg)
    import spell
    schema, cfg = spell.respell(schema, cfg, doc)
    try:
        v = make_validator(copy.deepcopy(schema), copy.deepcopy(cfg))
    except cerberus.SchemaError as e:
        return {"r": "schema-rejected", "msg": str(e)[:300]}
    except Exception as e:
        return {"r": "construct-raise", "exn": type(e).__name__, "site": vrun.innermost_cerberus_frame(e)}
    d = copy.deepcopy(doc)
    # every second case is run on a USED validator: the same document is processed once before, with the opposite
    # flags -- what an instance processed before must not show in the outcome (a deterministic choice per case)
    if (len(repr(doc)) + len(repr(schema))) % 2:
        try:
            if api == "normalized":
                v.validate(copy.deepcopy(doc), update=not update)
            else:
                v.normalized(copy.deepcopy(doc))
        except Exception:
            try:
                v = make_validator(copy.deepcopy(schema), copy.deepcopy(cfg))
            except Exception:
                pass
    try:
        if api == "validate":
            ok = v.validate(d, update=update)
            docout = v.document
        elif api == "validate_nonorm":
            ok = v.validate(d, update=update, normalize=False)
            docout = v.document
        else:
            docout = v.normalized(d, always_return_document=True)
            ok = not v._errors
        return {"r": "ok", "verdict": ok, "errors": [real_error(e) for e in v._errors], "document": common.jval(docout)}
    except Exception as e:
        return {"r": "raise", "exn": type(e).__name__, "site": vrun.innermost_cerberus_frame(e), "msg": str(e)[:200]}


def encode(schema, cfg, doc, update, api, which):
    if api == "normalized":
        out = ["N", which]
        enc_config(cfg, out); enc_value(schema, out); enc_value(doc, out)
    else:
        out = ["A", which]
        enc_config(cfg, out); enc_value(schema, out); enc_value(doc, out)
        out.append("1" if update else "0")
        out.append("1" if api == "validate" else "0")
    return " ".join(out)


def gen_cases(seed, n, p_update=0.2, **kw):
    kw.setdefault("normalization", True)
    g = Gen(seed, **kw)
    cases = []
    for i in range(n):
        schema = g.schema()
        cfg = g.config()
        k = g.r.random()
        doc = g.doc_for(schema, p_present=0.65) if k < 0.85 else g.arbitrary_doc()
        upd = g.r.random() < p_update
        schema, cfg = vrun.with_references(g, schema, cfg)
        cases.append({"schema": schema, "config": cfg, "document": doc, "update": upd})
    return cases


def run_cases(cases, apis=("validate", "normalized"), driver_ok=True):
    lines, idx = [], []
    for i, c in enumerate(cases):
        c["real"], c["model"], c["spec"] = {}, {}, {}
        for api in apis:
            c["real"][api] = real_api(c["schema"], c["config"], c["document"], c["update"], api)
            if driver_ok and c["real"][api]["r"] in ("ok", "raise"):
                try:
                    l1 = encode(c["schema"], c["config"], c["document"], c["update"], api, "c")
                    l2 = encode(c["schema"], c["config"], c["document"], c["update"], api, "d")
                except ValueError:
                    continue
                lines += [l1, l2]
                idx.append((i, api))
    if lines:
        res = common.run_driver_parallel(lines)
        for j, (i, api) in enumerate(idx):
            cases[i]["model"][api] = res[2 * j]
            cases[i]["spec"][api] = res[2 * j + 1]
    return cases


def foreign_keys(jdoc):
    """does an encoded (common.jval) document hold a mapping key that is neither str nor int?"""
    if isinstance(jdoc, dict):
        if "d" in jdoc and isinstance(jdoc["d"], list):
            for kv in jdoc["d"]:
                k = kv[0]
                if isinstance(k, bool) or not isinstance(k, (str, int)):
                    return True
                if foreign_keys(kv[1]):
                    return True
            return False
        return any(foreign_keys(v) for v in jdoc.values())
    if isinstance(jdoc, list):
        return any(foreign_keys(v) for v in jdoc)
    return False


def compare(r, m, with_doc=True, **kw):
    """None if the real outcome r and the model outcome m agree"""
    if m is None:
        return None
    if m["r"] == "raise" and m.get("site") == "foreign-key":
        return None      # a mapping key that is hashable but neither str nor int arose on the way (the model's keys are str / int): outside the model
    if r["r"] == "raise" and r.get("exn") == "RecursionError" and m["r"] == "fuel":
        return None      # both diverge: defaults under an allow_unknown rule set that re-create unknown mappings, without end
    if r["r"] == "raise" or m["r"] != "ok":
        if r["r"] == "raise" and m["r"] == "raise":
            return None if r["exn"] == m["exn"] else "real raises %s (%s), model raises %s (%s)" % (r["exn"], r["site"], m["exn"], m["site"])
        return "real %s, model %s" % (json.dumps({k: r[k] for k in r if k in ("r", "exn", "site")}),
                                      json.dumps({k: m[k] for k in m if k in ("r", "exn", "site")}))
    if r["verdict"] != m["verdict"]:
        return "verdict real %r model %r" % (r["verdict"], m["verdict"])
    a, b = common.canon_errors(r["errors"], **kw), common.canon_errors(m["errors"], **kw)
    if a != b:
        return "errors differ: only real %r; only model %r" % (sorted(set(a) - set(b))[:2], sorted(set(b) - set(a))[:2])
    if with_doc and common.canon_val(r["document"]) != common.canon_val(m["document"]):
        return "processed document differs: real %s model %s" % (common.canon_val(r["document"])[:300], common.canon_val(m["document"])[:300])
    return None
