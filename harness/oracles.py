"""Relational oracles evaluated on the REAL code (C09 recount, C10 standalone sub-document,
C12 path resolution).  They use only public API of fresh validators plus the error objects."""
import copy
import json

import common
from common import cerberus, cerrors, real_error

OFS = ('anyof', 'allof', 'noneof', 'oneof')
OF_CODES = {0x91: 'noneof', 0x92: 'oneof', 0x93: 'anyof', 0x94: 'allof'}
GROUP_RULES = {0x81: 'schema', 0x82: 'schema', 0x83: 'keysrules', 0x84: 'valuesrules', 0x8f: 'items'}


def key3(e, strip=0):
    """(relative document path, code, children) recursive key of a real ValidationError"""
    return (tuple(e.document_path[strip:]), e.code,
            tuple(sorted((key3(c, strip) for c in (e.child_errors or [])), key=repr)))


def flatten(errs):
    out = []
    for e in errs:
        out.append(e)
        if e.child_errors:
            out.extend(flatten(e.child_errors))
    return out


def fresh_errors(schema, doc, cfg, update):
    v = cerberus.Validator(copy.deepcopy(schema), **copy.deepcopy(cfg))
    v.validate(doc, update=update, normalize=False)
    return list(v._errors)


def has_caret(x):
    if isinstance(x, str):
        return x.startswith('^')
    if isinstance(x, dict):
        return any(has_caret(k) or has_caret(v) for k, v in x.items())
    if isinstance(x, (list, tuple)):
        return any(has_caret(v) for v in x)
    return False


def mentions(x, names):
    """does a rules structure use any of the rule names (at any depth)?"""
    if isinstance(x, dict):
        return any((k in names) or mentions(v, names) for k, v in x.items())
    if isinstance(x, (list, tuple)):
        return any(mentions(v, names) for v in x)
    return False


def type_ok(rules, value, cfg_base):
    if 'type' not in rules:
        return True
    return not fresh_errors({'f': {'type': rules['type'], 'nullable': True}}, {'f': value}, {}, False)


class Level(object):
    """one mapping level reached through dict-`schema` nesting from the root"""
    def __init__(self, schema, doc, allow_unknown, require_all, base_cfg, path, is_root):
        self.schema, self.doc = schema, doc
        self.allow_unknown, self.require_all = allow_unknown, require_all
        self.base_cfg, self.path, self.is_root = base_cfg, path, is_root

    def cfg(self, **over):
        c = {k: v for k, v in self.base_cfg.items() if k not in ('allow_unknown', 'require_all')}
        c['allow_unknown'] = self.allow_unknown
        c['require_all'] = self.require_all
        c.update(over)
        return c


def evaluated(rules, value, level):
    """would the container / *of rules of this field be evaluated? (value not None, own type passes,
    nothing earlier stops the queue)"""
    if value is None:
        return False
    if rules.get('readonly'):
        return False
    if 'dependencies' in rules:   # the dependencies handler may stop the queue (tree-lookup quirk); stay clear
        return False
    return type_ok(rules, value, level.base_cfg)


def levels(schema, doc, cfg):
    """yield every mapping level reachable through dict-schema nesting whose rule was evaluated"""
    root = Level(schema, doc, cfg.get('allow_unknown', False), cfg.get('require_all', False), cfg, (), True)
    stack = [root]
    while stack:
        lv = stack.pop()
        yield lv
        for field, rules in lv.schema.items():
            if not isinstance(rules, dict) or field not in lv.doc:
                continue
            value = lv.doc[field]
            sub = rules.get('schema')
            if isinstance(value, dict) and isinstance(sub, dict) and rules.get('type') == 'dict' \
                    and all(isinstance(x, dict) for x in sub.values()) and evaluated(rules, value, lv) \
                    and not (lv.base_cfg.get('ignore_none_values') and value is None):
                stack.append(Level(sub, value, rules.get('allow_unknown', lv.allow_unknown),
                                   rules.get('require_all', lv.require_all), lv.base_cfg, lv.path + (field,), False))


def errors_at(all_errors, path, code_pred):
    return [e for e in all_errors if tuple(e.document_path) == tuple(path) and code_pred(e.code)]


# ------------------------------------------------------------------------- C09

def c09_oracle(schema, cfg, doc, update, real_errors):
    """returns None or a description of the first discrepancy"""
    flat = flatten(real_errors)
    checked = 0
    for lv in levels(schema, doc, cfg):
        if not lv.is_root and (has_caret(lv.schema) or has_caret(lv.allow_unknown)):
            continue       # a separately built validator cannot know the outermost document
        for field, rules in lv.schema.items():
            if not isinstance(rules, dict) or field not in lv.doc:
                continue
            value = lv.doc[field]
            if lv.base_cfg.get('ignore_none_values') and value is None:
                continue
            for op in OFS:
                if op not in rules:
                    continue
                defs = rules[op]
                reported = errors_at(flat, lv.path + (field,), lambda c: OF_CODES.get(c) == op)
                # restrict to the error filed by THIS level (schema path length distinguishes nested *of on the same field)
                reported = [e for e in reported if not isinstance(e.schema_path, str) and len(e.schema_path) >= 2
                            and e.schema_path[-1] == op and e.schema_path[-2] == field
                            and not any(x in OFS for x in e.schema_path[:-2])]
                ev = evaluated(rules, value, lv)
                if not ev:
                    if value is None and reported:
                        return "None value but %s error reported at %r" % (op, lv.path + (field,))
                    if ev is False and value is not None and not type_ok(rules, value, lv.base_cfg) and reported:
                        return "type failure but %s error reported at %r" % (op, lv.path + (field,))
                    continue
                # recount: each definition on its own, with inherited type / allow_unknown -- as the property states it: a validator
                # with the SAME options, looking at the errors beneath the field only.  The implementation builds the definition's
                # validator with allow_unknown=True (so that sibling fields pass), which its items / list-schema / valuesrules /
                # keysrules children inherit: when only the recount under that option agrees, the discrepancy is attributed to it.
                def recount(as_implemented):
                    valid, per_def = 0, {}
                    for i, d in enumerate(defs):
                        dd = dict(d)
                        for inh in ('allow_unknown', 'type'):
                            if inh not in dd and inh in rules:
                                dd[inh] = rules[inh]
                        if 'allow_unknown' not in dd:
                            dd['allow_unknown'] = lv.allow_unknown
                        if as_implemented:
                            errs = fresh_errors({field: dd}, lv.doc, lv.cfg(allow_unknown=True), update)
                        else:
                            errs = [e for e in fresh_errors({field: dd}, lv.doc, lv.cfg(), update) if tuple(e.document_path)[:1] == (field,)]
                        if errs:
                            per_def[i] = errs
                        else:
                            valid += 1
                    n = len(defs)
                    fails = {'anyof': valid == 0, 'allof': valid < n, 'noneof': valid > 0, 'oneof': valid != 1}[op]
                    if fails != bool(reported):
                        return "%s at %r: %d of %d definitions validate individually, error %s" % (
                            op, lv.path + (field,), valid, n, "reported" if reported else "missing")
                    if reported:
                        e = reported[0]
                        if len(reported) != 1:
                            return "%d %s errors at %r" % (len(reported), op, lv.path + (field,))
                        if tuple(e.info[1:3]) != (valid, n):
                            return "%s at %r carries (valid, total)=%r, recount gives (%d, %d)" % (
                                op, lv.path + (field,), tuple(e.info[1:3]), valid, n)
                        de = e.definitions_errors
                        if set(de.keys()) != set(per_def.keys()):
                            return "%s at %r: definitions_errors keyed by %r, failing definitions are %r" % (
                                op, lv.path + (field,), sorted(map(repr, de.keys())), sorted(per_def.keys()))
                        for i in per_def:
                            a = sorted((key3(x, len(lv.path)) for x in de[i]), key=repr)
                            b = sorted((key3(x) for x in per_def[i]), key=repr)
                            if a != b:
                                return "%s at %r definition %d: child errors %r != separately validated %r" % (
                                    op, lv.path + (field,), i, a[:2], b[:2])
                    return None
                checked += 1
                d = recount(False)
                if d:
                    if recount(True) is None:
                        return "allow_unknown=True of the definition's validator reaches the containers inside the definition at %r: %s" % (
                            lv.path + (field,), d)
                    return d
    return None if checked >= 0 else None


# ------------------------------------------------------------------------- C10

def c10_oracle(schema, cfg, doc, update, real_errors):
    flat = flatten(real_errors)
    for lv in levels(schema, doc, cfg):
        for field, rules in lv.schema.items():
            if not isinstance(rules, dict) or field not in lv.doc:
                continue
            value = lv.doc[field]
            if lv.base_cfg.get('ignore_none_values') and value is None:
                continue
            if not evaluated(rules, value, lv):
                continue
            base = lv.path + (field,)
            jobs = []   # (code, sub_schema, sub_doc, cfg, update)
            sub = rules.get('schema')
            if isinstance(sub, dict) and isinstance(value, dict) and rules.get('type') == 'dict':
                jobs.append((0x81, sub, value, lv.cfg(allow_unknown=rules.get('allow_unknown', lv.allow_unknown),
                                                      require_all=rules.get('require_all', lv.require_all)), update))
            if isinstance(sub, dict) and isinstance(value, list) and rules.get('type') == 'list':
                jobs.append((0x82, {i: sub for i in range(len(value))}, dict(enumerate(value)), lv.cfg(), update))
            if isinstance(rules.get('items'), list) and isinstance(value, (list, str, dict)) \
                    and len(rules['items']) == len(value) and not (len(value) == 0 and 'empty' in rules):
                jobs.append((0x8f, dict(enumerate(rules['items'])), dict(enumerate(value)), lv.cfg(), update))
            if isinstance(rules.get('valuesrules'), dict) and isinstance(value, dict):
                jobs.append((0x84, {k: rules['valuesrules'] for k in value}, value, lv.cfg(), update))
            if isinstance(rules.get('keysrules'), dict) and isinstance(value, dict):
                jobs.append((0x83, {k: rules['keysrules'] for k in value}, {k: k for k in value}, lv.cfg(), False))
            for code, sub_schema, sub_doc, c, upd in jobs:
                if has_caret(sub_schema) or has_caret(c.get('allow_unknown')):
                    continue      # root-relative paths need the outermost document: checked by c10_root_oracle
                if code in (0x82, 0x8f, 0x84, 0x83) and mentions(sub_schema, ('excludes',)) and mentions(sub_schema, ('required',)):
                    continue      # deliberately cross-field (documented either-or)
                try:
                    alone = fresh_errors(sub_schema, sub_doc, c, upd)
                except cerberus.SchemaError:
                    continue      # e.g. integer keys with rules needing names; not decidable standalone
                reported = [e for e in errors_at(flat, base, lambda x: x == code)
                            if not isinstance(e.schema_path, str) and not any(x in OFS for x in e.schema_path)]
                a = sorted((key3(x) for x in alone), key=repr)
                if len(reported) > 1:
                    return "%d group errors 0x%x at %r" % (len(reported), code, base)
                b = sorted((key3(x, len(base)) for x in (reported[0].child_errors if reported else [])), key=repr)
                if a != b:
                    return "errors beneath %r (0x%x): nested %r != standalone %r" % (base, code, b[:3], a[:3])
    return None


def c10_root_oracle(rng):
    """root-relative dependencies inside sub-documents resolve against the outermost document:
    a directed family with a known answer"""
    depth = rng.randrange(1, 4)
    kind = [rng.choice(['dict', 'list', 'values', 'items']) for _ in range(depth)]
    present = rng.random() < 0.5
    leaf = {'type': 'integer', 'dependencies': rng.choice(['^r', ['^r'], {'^r': [1]}, '^r.q'])}
    dep = leaf['dependencies']
    rules, value = {'type': 'dict', 'schema': {'x': leaf}}, {'x': 1}
    for k in reversed(kind):
        if k == 'dict':
            rules, value = {'type': 'dict', 'schema': {'s': rules}}, {'s': value}
        elif k == 'list':
            rules, value = {'type': 'list', 'schema': rules}, [value, value]
        elif k == 'values':
            rules, value = {'type': 'dict', 'valuesrules': rules}, {'k1': value}
        else:
            rules, value = {'type': 'list', 'items': [rules]}, [value]
    schema = {'top': rules, 'r': {}}
    doc = {'top': value}
    cfg = {}
    via = rng.choice(['field', 'field', 'unknown-field', 'unknown-in-sub-document'])
    if via == 'unknown-field':
        # the same rules as the rule set for UNKNOWN fields of the outermost document
        schema, cfg = {'r': {}}, {'allow_unknown': rules}
    elif via == 'unknown-in-sub-document':
        schema = {'wrap': {'type': 'dict', 'schema': {}, 'allow_unknown': rules}, 'r': {}}
        doc = {'wrap': {'top': value}}
    satisfied = False
    if present:
        doc['r'] = rng.choice([1, {'q': 1}, 2])
        if dep in ('^r', ['^r']):
            satisfied = True
        elif dep == {'^r': [1]}:
            satisfied = doc['r'] == 1
        else:
            satisfied = isinstance(doc['r'], dict) and 'q' in doc['r']
    # decoys: a field named r / q inside the sub-documents must not be consulted
    v = cerberus.Validator(schema, **cfg)
    ok = v.validate(doc, normalize=rng.random() < 0.3)
    if ok != satisfied:
        return {"schema": common.jval(schema), "document": common.jval(doc), "config": common.jval(cfg)}, \
            "root-relative dependency %r (reached through %s): verdict %r, expected %r" % (dep, via, ok, satisfied)
    return {"schema": common.jval(schema), "document": common.jval(doc), "config": common.jval(cfg)}, None


# ------------------------------------------------------------------------- C12

ERRDEFS = {}
for _n in dir(cerrors):
    _d = getattr(cerrors, _n)
    if isinstance(_d, cerrors.ErrorDefinition):
        ERRDEFS.setdefault(_d.code, set()).add(_d.rule)


def follow(doc, path):
    cur = doc
    for k in path:
        if isinstance(cur, dict):
            if k not in cur:
                # convention: `items` on a mapping validates its keys by position (iteration order)
                if isinstance(k, int) and not isinstance(k, bool) and 0 <= k < len(cur):
                    cur = list(cur)[k]
                    continue
                return False, None
            cur = cur[k]
        elif isinstance(cur, (list, tuple, str)):
            if not isinstance(k, int) or isinstance(k, bool) or not (0 <= k < len(cur)):
                return False, None
            cur = cur[k]
        else:
            return False, None
    return True, cur


def resolve_sp(schema, cfg, sp, au_root):
    """follow a schema path through the schema with cerberus' conventions; returns (ok, constraint)"""
    rreg = cfg.get('rules_set_registry_obj')
    sreg = cfg.get('schema_registry_obj')

    def rules_of(x):
        if isinstance(x, str):
            return (rreg or cerberus.rules_set_registry).get(x)
        return x

    def schema_of(x):
        if isinstance(x, str):
            return (sreg or cerberus.schema_registry).get(x)
        return x

    mode, node = 'schema', schema
    au = au_root
    i = 0
    sp = list(sp)
    while i < len(sp):
        k = sp[i]
        if mode == 'schema':
            if k in ('__allow_unknown__', 'allow_unknown'):
                # the configured / inherited rule set for unknown fields; next crumb is the unknown field itself
                if i + 1 >= len(sp):
                    return False, None
                node = rules_of(au)
                mode = 'rules'
                i += 2
                continue
            if not isinstance(node, dict) or k not in node:
                return False, None
            node = rules_of(node[k])
            mode = 'rules'
        elif mode == 'rules':
            if not isinstance(node, dict) or k not in node:
                return False, None
            c = node[k]
            if i == len(sp) - 1:
                return True, c
            if 'allow_unknown' in node and not isinstance(node['allow_unknown'], bool):
                pass
            if k == 'schema':
                c2 = schema_of(c)
                if isinstance(c2, dict) and all(isinstance(x, (dict, str)) for x in c2.values()) \
                        and not (set(c2) & RULE_NAMES):
                    if isinstance(node.get('allow_unknown'), (dict, str)):
                        au = node['allow_unknown']
                    mode, node = 'schema', c2
                else:
                    mode, node = 'rules', rules_of(c)
            elif k in ('keysrules', 'valuesrules'):
                mode, node = 'rules', rules_of(c)
            elif k == 'items' or k in OFS:
                mode, node = 'list', c
            else:
                return False, None
        elif mode == 'list':
            if not isinstance(node, (list, tuple)) or not isinstance(k, int) or not (0 <= k < len(node)):
                return False, None
            node = rules_of(node[k])
            mode = 'rules'
        i += 1
    return False, None


RULE_NAMES = {'allof', 'allow_unknown', 'allowed', 'anyof', 'check_with', 'coerce', 'contains', 'default', 'default_setter',
              'dependencies', 'empty', 'excludes', 'forbidden', 'items', 'keysrules', 'max', 'maxlength', 'meta', 'min',
              'minlength', 'noneof', 'nullable', 'oneof', 'purge_unknown', 'readonly', 'regex', 'rename', 'rename_handler',
              'require_all', 'required', 'schema', 'type', 'valuesrules'}


def set_at(doc, path, new):
    """a copy of doc with the value at path replaced"""
    if not path:
        return new
    k = path[0]
    if isinstance(doc, dict):
        d = dict(doc)
        d[k] = set_at(doc[k], path[1:], new)
        return d
    if isinstance(doc, (list, tuple)):
        l = list(doc)
        l[k] = set_at(doc[k], path[1:], new)
        return l
    return doc


def c12_oracle(schema, cfg, processed_doc, real_errors, ignore_none=False):
    def walk(errs, doc):
        for e in errs:
            if e.is_normalization_error:
                continue
            # (1) code and rule belong to the same definition
            if e.code not in ERRDEFS or e.rule not in ERRDEFS[e.code]:
                return "code 0x%x and rule %r do not belong to one error definition" % (e.code, e.rule)
            # (2) children exactly on group errors
            if bool(e.is_group_error) != (e.child_errors is not None) or \
                    (e.is_group_error and not e.child_errors and not e.is_logic_error):
                return "error 0x%x at %r: group=%r but children=%r" % (e.code, e.document_path, e.is_group_error, e.child_errors)
            # (3) document path leads to the value
            dp = tuple(e.document_path)
            if e.code == 0x02:
                ok, cont = follow(doc, dp[:-1])
                if not ok:
                    return "required-field error at %r: parent container not reachable" % (dp,)
                missing = (isinstance(cont, dict) and (dp[-1] not in cont or cont[dp[-1]] is None)) or \
                          (isinstance(cont, (list, tuple)) and isinstance(dp[-1], int) and
                           (not (0 <= dp[-1] < len(cont)) or cont[dp[-1]] is None))
                if not missing:
                    return "required-field error at %r but the field is present" % (dp,)
            else:
                ok, val = follow(doc, dp)
                if not ok:
                    return "document_path %r of error 0x%x does not lead into the processed document" % (dp, e.code)
                if not (val is e.value or val == e.value):
                    return "document_path %r leads to %r, error.value is %r" % (dp, val, e.value)
            # (4) schema path leads to the constraint, for spelled-out rules
            sp = e.schema_path
            if e.rule is not None and not isinstance(sp, str):
                ok, c = resolve_sp(schema, cfg, sp, cfg.get('allow_unknown', False))
                if e.rule == 'nullable' and not ok:
                    if e.constraint is not False:
                        return "implicit nullable error at %r carries constraint %r" % (dp, e.constraint)
                elif not ok:
                    return "schema_path %r of error 0x%x at %r does not resolve in the schema" % (tuple(sp), e.code, dp)
                elif not (c is e.constraint or c == e.constraint):
                    return "schema_path %r resolves to %r, error.constraint is %r" % (tuple(sp), c, e.constraint)
                if tuple(sp)[-1:] != (e.rule,):
                    return "schema_path %r does not end with the rule %r" % (tuple(sp), e.rule)
            if e.child_errors:
                sub = doc
                if e.code == 0x83:
                    # key rules validate the keys: beneath this error the mapping reads {key: key}
                    ok, val = follow(doc, dp)
                    if ok and isinstance(val, dict):
                        sub = set_at(doc, dp, {k: k for k in val})
                elif e.code == 0x8f:
                    # `items` validates any iterable by position: beneath this error a mapping reads {index: key}
                    ok, val = follow(doc, dp)
                    if ok and isinstance(val, dict):
                        sub = set_at(doc, dp, dict(enumerate(val)))
                r = walk(e.child_errors, sub)
                if r:
                    return r
        return None
    return walk(real_errors, processed_doc)
