"""The named pool of user callables, implemented in Python (mirrors coq/theories/Model/Pool.v).
Each function exists as a plain callable (with _pool_name) and as a method of PoolValidator."""
import cerberus


def _named(name):
    def deco(f):
        f._pool_name = name
        return f
    return deco


def c_to_int(v):
    if isinstance(v, bool):
        return int(v)
    if isinstance(v, int):
        return v
    if isinstance(v, float):
        return int(v)
    if isinstance(v, str):
        s = v
        if s[:1] in '+-':
            body = s[1:]
        else:
            body = s
        if body == '' or not all('0' <= ch <= '9' for ch in body):
            raise ValueError("invalid literal for int(): %r" % (v,))
        return int(s)
    raise TypeError("int() argument must be a string or a number")


def c_to_str(v):
    if isinstance(v, str):
        return v
    if isinstance(v, int) and not isinstance(v, bool):
        return str(v)
    raise TypeError("cannot stringify")


def c_inc(v):
    if isinstance(v, (bool, int, float)):
        return v + 1
    raise TypeError("cannot increment")


def c_wrap(v):
    return [v]


def c_ident(v):
    return v


def c_none(v):
    return None


def c_fail(v):
    raise ValueError("boom")


def c_keyfail(v):
    raise KeyError("kaboom")


def c_failrt(v):
    raise NotImplementedError("not implemented")


def c_failattr(v):
    raise AttributeError("no such attribute")


def c_prefix_x(v):
    if isinstance(v, str):
        return 'x' + v
    raise TypeError("not a string")


def c_first(v):
    if isinstance(v, (list, str)):
        return v[0]
    if isinstance(v, dict):
        return v[0]
    raise TypeError("not subscriptable")


COERCERS = {'to_int': c_to_int, 'to_str': c_to_str, 'inc': c_inc, 'wrap': c_wrap, 'ident': c_ident, 'none': c_none,
            'fail': c_fail, 'keyfail': c_keyfail, 'failrt': c_failrt, 'failattr': c_failattr, 'prefix_x': c_prefix_x, 'first': c_first}
for _n, _f in COERCERS.items():
    _f._pool_name = _n


def make_setter(name):
    if name == 'const5':
        def s(doc):
            return 5
    else:
        kind, letters = name.split('_', 1)

        def s(doc, kind=kind, letters=letters):
            vals = [doc[ch] for ch in letters]
            if kind == 'rdx':
                raise ValueError("setter failed")
            if kind == 'rdk':
                raise KeyError("setter raised KeyError itself")
            if kind == 'rdr':
                raise NotImplementedError("setter not implemented")
            return vals
    s._pool_name = name
    return s


SETTER_NAMES = ['const5'] + ['%s_%s' % (k, l) for k in ('rd', 'rdx', 'rdk', 'rdr')
                             for l in ('', 'a', 'b', 'c', 'ab', 'ba', 'bc', 'cd', 'abc', 'd', 'e', 'de', 'ea', 'f', 'x', 'y', 'xy', 'yx')]
_SETTERS = {}


def setter(name):
    if name not in _SETTERS:
        _SETTERS[name] = make_setter(name)
    return _SETTERS[name]


def k_even(field, value, error):
    if isinstance(value, int) and not isinstance(value, bool):
        if value % 2:
            error(field, "not even")
    else:
        error(field, "not an int")


def k_never(field, value, error):
    error(field, "never valid")


def k_always(field, value, error):
    pass


def k_twice(field, value, error):
    error(field, "first")
    error(field, "second")


CHECKS = {'even': k_even, 'never': k_never, 'always': k_always, 'twice': k_twice}
for _n, _f in CHECKS.items():
    _f._pool_name = _n


def _build_class():
    ns = {}
    for n, f in COERCERS.items():
        ns['_normalize_coerce_' + n] = (lambda self, v, f=f: f(v))
    for n in SETTER_NAMES:
        ns['_normalize_default_setter_' + n] = (lambda self, doc, n=n: setter(n)(doc))
    for n, f in CHECKS.items():
        ns['_check_with_' + n] = (lambda self, field, value, f=f: f(field, value, self._error))
    # two custom rules whose constraint schemas come from the two documented docstring forms (docs/customize.rst):
    # the literal alone, and prose closed by the separator sentence and the literal.  Never part of generated
    # (well-formed) schemas; C04 plants them with ill-typed constraints.
    def _validate_is_small(self, constraint, field, value):
        """{'type': 'boolean'}"""
        if constraint is True and isinstance(value, int) and value > 100:
            self._error(field, "too big")

    def _validate_is_even(self, constraint, field, value):
        """Test the parity of a value.

        The rule's arguments are validated against this schema:
        {'type': 'boolean'}
        """
        if constraint is True and isinstance(value, int) and value % 2:
            self._error(field, "not even")
    ns['_validate_is_small'] = _validate_is_small
    ns['_validate_is_even'] = _validate_is_even
    return type('PoolValidator', (cerberus.Validator,), ns)


PoolValidator = _build_class()
