"""Enumeration of rule-set positions inside a schema (field rules, dict-/list-schema, keysrules,
valuesrules, items members, *of definitions, allow_unknown rule sets) and in-place editing
at a position.  Used by C04 (corruptions), C14 (reference substitution), C15 (shorthands)."""
import copy

from gen import is_mapping_schema, RULE_NAMES

OFS = ('anyof', 'allof', 'noneof', 'oneof')


def rule_sets(schema, cfg_au=None):
    """yield (path, kind, rules_dict) for every rule-set position; path = access steps from the schema root"""
    def walk_rules(rules, path, kind):
        if not isinstance(rules, dict):
            return
        yield (path, kind, rules)
        for r, c in list(rules.items()):
            if r == 'schema' and isinstance(c, dict):
                if is_mapping_schema(c) and rules.get('type') != 'list':
                    for f, rs in c.items():
                        for x in walk_rules(rs, path + (r, f), 'dict-schema'):
                            yield x
                else:
                    for x in walk_rules(c, path + (r,), 'list-schema'):
                        yield x
            elif r in ('keysrules', 'valuesrules') and isinstance(c, dict):
                for x in walk_rules(c, path + (r,), r):
                    yield x
            elif r == 'items' and isinstance(c, list):
                for i, rs in enumerate(c):
                    for x in walk_rules(rs, path + (r, i), 'items'):
                        yield x
            elif r in OFS and isinstance(c, list):
                for i, rs in enumerate(c):
                    for x in walk_rules(rs, path + (r, i), 'of-definition'):
                        yield x
            elif r == 'allow_unknown' and isinstance(c, dict):
                for x in walk_rules(c, path + (r,), 'allow_unknown-rule'):
                    yield x
    for f, rs in schema.items():
        for x in walk_rules(rs, (f,), 'field'):
            yield x


def get_at(schema, path):
    cur = schema
    for k in path:
        cur = cur[k]
    return cur


def set_at(schema, path, new):
    """returns a deep copy of schema with the object at path replaced"""
    s = copy.deepcopy(schema)
    if not path:
        return new
    cur = s
    for k in path[:-1]:
        cur = cur[k]
    cur[path[-1]] = new
    return s


def edit_at(schema, path, fn):
    s = copy.deepcopy(schema)
    fn(get_at(s, path))
    return s
