"""shared driver for the properties decided on normalization / API outcomes (C02, C05, C06, C07)"""
import collections
import copy
import json

import common
import nrun
import vrun
from common import cerberus

BASE_TRUSTED = [
    "Coq 8.16.1 kernel; Print Assumptions: closed under the global context",
    "Model/Normalize.v + Model/Validate.v (hand-written, code-shaped; pipeline order = the step tokens extracted from __normalize_mapping on this run) "
    "at the extracted facts (Impl) and at the documented facts (Spec); both diffed against the real code on every run",
    "Model/Pool.v = harness/pool.py: the named pool of coercers / rename handlers / default setters / check_with functions (diffed against each other every run)",
    "translator/translate.py (fail-closed); extraction (ExtrOcamlBasic, ExtrOcamlString) + driver/driver.ml",
]
BASE_ASSUMPTIONS = [
    "JSON-like documents (str/int keys, floats multiples of 0.25, ASCII strings), field names not rule names, `schema` paired with its `type`",
    "user callables are the pure, deterministic pool functions; key coercers return str/int",
]


def case_json(c):
    return vrun.case_json(c)


def run_family(ctx, oracle, sig, use_model=True, apis=("validate", "normalized"), model_filter=None,
               n_quick=2500, n_thorough=80000, genkws=({}, {"max_depth": 4, "nested_bias": True}), rule="", extra=None):
    thorough = ctx["tier"] == "thorough"
    n = n_thorough if thorough else n_quick * ctx.get('scale', 1)
    violations, samples = [], []
    dist = collections.Counter()
    distinct = set()
    checked = modelled = 0
    for part, kw in enumerate(genkws):
        cases = nrun.gen_cases(ctx["seed"] + 31 * part, n // len(genkws), **kw)
        if use_model:
            nrun.run_cases(cases, apis, ctx["driver_ok"])
        for c in cases:
            try:
                d = oracle(c) if oracle else None
            except cerberus.SchemaError:
                dist["schema_rejected"] += 1
                continue
            except _Skip as s:
                dist["skipped_" + str(s)] += 1
                continue
            checked += 1
            distinct.add(json.dumps(case_json(c), sort_keys=True, default=repr))
            if d:
                dist["oracle_fail"] += 1
                if len(violations) < 4 and oracle:
                    def still(cand):
                        try:
                            return oracle(cand) is not None
                        except Exception:
                            return False
                    small = vrun.shrink(c, still, budget=120)
                    try:
                        d2 = oracle(small)
                    except Exception:
                        d2 = None
                    violations.append({"signature": sig(d2 or d), "what": d2 or d, "replay": case_json(small if d2 else c)})
                else:
                    violations.append({"signature": sig(d), "what": d, "replay": case_json(c)})
            if use_model:
                for api in apis:
                    r = c["real"].get(api)
                    if not r or r["r"] not in ("ok", "raise"):
                        dist["skipped_" + (r["r"] if r else "none")] += 1
                        continue
                    if r["r"] == "raise":
                        dist["raise_%s@%s" % (r["exn"], r["site"])] += 1
                    if r["r"] == "ok" and nrun.foreign_keys(r.get("document")):
                        # A-domain: the model's keys are str / int; a rename / keysrules normalization that produces
                        # another key (None from `default: None` under keysrules, a float, a tuple) leaves the modelled domain
                        dist["skipped_key_domain"] += 1
                        continue
                    modelled += 1
                    for which in ("spec", "model"):
                        m = c[which].get(api)
                        dm = nrun.compare(r, m, **(model_filter or {}))
                        if dm:
                            violations.append({"signature": "%s-vs-code" % which,
                                               "what": ("documented semantics (Spec) vs code, %s(): " % api if which == "spec"
                                                        else "correspondence broken (model at extracted facts vs code), %s(): " % api) + dm,
                                               "replay": dict(case_json(c), api=api, real=r, model=m)})
                            break
        samples.append(case_json(cases[5]))
    res = {"violations": violations, "cases": checked, "nontrivial": len(distinct), "model_cases": modelled,
           "disagreements_checked": modelled, "samples": samples, "distribution": dict(dist), "rule": rule}
    if extra:
        extra(ctx, res)
    return res


class _Skip(Exception):
    pass
