"""shared driver for the properties decided on validate(normalize=False) outcomes"""
import collections
import json
import random

import common
import vrun
from common import cerberus, canon_errors

BASE_TRUSTED = [
    "Coq 8.16.1 kernel; Print Assumptions: closed under the global context",
    "Model/Validate.v (hand-written, code-shaped) at the facts re-extracted from the source on this run (Impl) and at the documented "
    "facts of Model/SpecFacts.v (Spec); both diffed against the real code on every run",
    "PyOps.v / Regex.v: models of CPython operators / re.match on the generated pattern grammar",
    "translator/translate.py (fail-closed); extraction (ExtrOcamlBasic, ExtrOcamlString) + driver/driver.ml",
    "oracles in harness/oracles.py use only fresh validators through the public API",
]
BASE_ASSUMPTIONS = [
    "JSON-like documents (str/int keys, floats multiples of 0.25, ASCII strings), field names not rule names, `schema` paired with its `type`",
]


def run_family(ctx, oracle, sig, model_compare=None, genkws=({}, {"max_depth": 4}), n_quick=3000, n_thorough=90000,
               nontrivial=None, extra=None, rule="", directed=None):
    thorough = ctx["tier"] == "thorough"
    n = n_thorough if thorough else n_quick * ctx.get('scale', 1)
    violations, samples = [], []
    dist = collections.Counter()
    distinct = set()
    checked = modelled = 0
    for part, kw in enumerate(genkws):
        cases = vrun.gen_cases(ctx["seed"] + 101 * part, n // len(genkws), **kw)
        if directed is not None and part == 0:
            cases += directed(ctx, n)
        vrun.run_cases(cases, ctx["driver_ok"] and model_compare is not None)
        for c in cases:
            r = c["real"]
            if r["r"] != "ok":
                dist["skipped_" + r["r"]] += 1
                continue
            checked += 1
            v = cerberus.Validator(c["schema"], **c["config"])
            v.validate(c["document"], update=c["update"], normalize=False)
            try:
                d = oracle(c, v)
            except cerberus.SchemaError as e:
                dist["oracle_schema_error"] += 1
                d = None
            if nontrivial is None or nontrivial(c, v):
                distinct.add(json.dumps(vrun.case_json(c), sort_keys=True))
            dist["valid" if r["verdict"] else "invalid"] += 1
            if d:
                dist["oracle_fail"] += 1
                if len(violations) < 4:
                    def still(cand):
                        rr = vrun.real_validate(cand["schema"], cand["config"], cand["document"], cand["update"], want_validator=True)
                        return rr["r"] == "ok" and oracle(cand, rr["validator"]) is not None
                    small = vrun.shrink(c, still, budget=120)
                    rr = vrun.real_validate(small["schema"], small["config"], small["document"], small["update"], want_validator=True)
                    d2 = oracle(small, rr["validator"]) if rr["r"] == "ok" else None
                    violations.append({"signature": sig(d2 or d), "what": d2 or d, "replay": vrun.case_json(small if d2 else c)})
                else:
                    violations.append({"signature": sig(d), "what": d, "replay": vrun.case_json(c)})
            if model_compare is not None and c["model"] is not None:
                modelled += 1
                for which in ("spec", "model"):
                    dm = model_compare(c, which)
                    if dm:
                        violations.append({"signature": "%s-vs-code" % ("spec" if which == "spec" else "model"),
                                           "what": ("documented semantics (Spec) vs code: " if which == "spec"
                                                    else "correspondence broken (model at extracted facts vs code): ") + dm,
                                           "replay": dict(vrun.case_json(c), real=c["real"], model=c[which])})
                        break
        samples.append(vrun.case_json(cases[5]))
        for k, v_ in vrun.distribution(cases).items():
            if k.startswith(("real_", "depth_", "code_0x8", "code_0x9")):
                dist[k] += v_
    res = {"violations": violations, "cases": checked, "nontrivial": len(distinct), "model_cases": modelled,
           "disagreements_checked": modelled, "samples": samples, "distribution": dict(dist), "rule": rule}
    if extra:
        extra(ctx, res)
    return res
