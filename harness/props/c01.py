"""C01 -- verdict and error set follow the documented rule semantics (reference interpreter = the Coq model)."""
import collections
import json

import common
import vrun
from common import canon_errors

LEVEL = "proof"
import vrun as _vrun_refs
_vrun_refs.P_REFS = 0.15      # some generated schemas carry registry references (validator-bound registries)
COQ_FILES = ['theories/Model/Validate.v', 'theories/Model/FactsOk.v', 'theories/Proofs/QueueProofs.v', 'theories/Properties/C01.v']
FACT_GROUPS = ["F1", "F2", "F3", "F5", "F6", "F8"]
ALLOWED_AXIOMS = []
TRUSTED_BASE = [
    "Coq 8.16.1 kernel; Print Assumptions: closed under the global context",
    "reference interpreter (Spec) = Model/Validate.v instantiated at the DOCUMENTED facts (Model/SpecFacts.v); Impl = the same model at "
    "the facts re-extracted from validator.py/errors.py on this run; FactsOk compares them; both are diffed against the real code",
    "PyOps.v / Regex.v (models of CPython operators and of re.match on the generated pattern grammar)",
    "translator/translate.py; extraction (ExtrOcamlBasic, ExtrOcamlString) + driver/driver.ml",
]
ASSUMPTIONS = [
    "JSON-like documents (str/int keys, floats multiples of 0.25, ASCII), field names not rule names, `schema` paired with its `type`",
    "errors compared as (document path, code, children) recursively, order-insensitive; verdict = no errors",
]

KEY = dict(with_info=False, with_cv=False, with_sp=False)


def compare(c, which="spec"):
    r, m = c["real"], c[which]
    if m is None or r["r"] not in ("ok", "raise"):
        return None
    if r["r"] == "raise":
        if m["r"] != "raise":
            return "real code raised %s in %s, reference interpreter returned normally" % (r["exn"], r["site"])
        return None        # both raise: C03's business
    if m["r"] != "ok":
        return "reference interpreter: %s; real code returned normally" % json.dumps({k: m[k] for k in m if k != "errors"})
    a, b = canon_errors(r["errors"], **KEY), canon_errors(m["errors"], **KEY)
    if r["verdict"] != (len(r["errors"]) == 0):
        return "verdict %r but %d errors" % (r["verdict"], len(r["errors"]))
    if a != b:
        sa, sb = set(a), set(b)
        return "error sets differ: only real %r; only reference %r" % (sorted(sa - sb)[:2], sorted(sb - sa)[:2])
    return None


def run(ctx):
    thorough = ctx["tier"] == "thorough"
    n = 100000 if thorough else 4000 * ctx.get('scale', 1)
    violations, samples = [], []
    distinct = set()
    dist = collections.Counter()
    checked = 0
    for part, kw in enumerate(({}, {"max_depth": 4}, {"p_mismatch": 0.3})):
        cases = vrun.run_cases(vrun.gen_cases(ctx["seed"] + 11 * part, n // 3, **kw), ctx["driver_ok"])
        for k, v in vrun.distribution(cases).items():
            dist[k] += v
        for c in cases:
            if c["model"] is None:
                continue
            checked += 1
            if c["real"]["r"] == "ok" and (c["real"]["errors"] or c["document"]):
                distinct.add(json.dumps(vrun.case_json(c), sort_keys=True))
            d = compare(c)
            dm = compare(c, "model")
            if dm and not d:
                violations.append({"signature": "model-vs-code", "what": "correspondence broken (model at extracted facts vs code): " + dm,
                                   "replay": dict(vrun.case_json(c), real=c["real"], model=c["model"])})
            if d:
                def still(cand):
                    vrun.run_cases([cand], ctx["driver_ok"])
                    return compare(cand) is not None
                small = vrun.shrink(c, still, budget=80) if len(violations) < 3 else c
                vrun.run_cases([small], ctx["driver_ok"])
                violations.append({"signature": "reference-vs-code", "what": compare(small) or d,
                                   "replay": dict(vrun.case_json(small), real=small["real"], model=small["model"])})
        samples.append(vrun.case_json(cases[3]))
    return {"violations": violations, "cases": checked, "nontrivial": len(distinct), "model_cases": checked,
            "disagreements_checked": checked, "samples": samples, "distribution": dict(dist),
            "rule": "schema-directed generation over all built-in validation rules (depth<=3/4, 12%/30% wrong-shape constraints), "
                    "all option combinations, update in {F,T}; each case run through the real validate(normalize=False) and the extracted "
                    "reference interpreter; compared on verdict and recursive (document path, code, children) keys. Non-trivial = distinct "
                    "cases with a non-empty document."}


def replay(rp):
    c = vrun.case_from_json(rp)
    vrun.run_cases([c], True)
    print(compare(c) or "agree")
    return 0
