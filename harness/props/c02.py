"""C02 -- normalization yields the documented result in the documented order."""
import copy
import json
import random

import common
import nrun
import pool
import vrun
from props import _nfamily
from common import cerberus

LEVEL = "proof"
import vrun as _vrun_refs
_vrun_refs.P_REFS = 0.15      # some generated schemas carry registry references (validator-bound registries)
COQ_FILES = ["theories/Model/Normalize.v", "theories/Model/FactsOk.v", "theories/Proofs/NormalizeProofs.v", "theories/Properties/C02.v"]
FACT_GROUPS = ["F11", "F6", "F8"]
ALLOWED_AXIOMS = []
TRUSTED_BASE = _nfamily.BASE_TRUSTED
ASSUMPTIONS = _nfamily.BASE_ASSUMPTIONS + [
    "container *type* preservation is outside the JSON-like model (only lists exist there): checked on the real code with tuples as a supporting run"]


def extra(ctx, res):
    """sequence container types are preserved (tuples), supporting run on the real code"""
    rng = random.Random(ctx["seed"] + 3)
    n = 2000 if ctx["tier"] == "thorough" else 200
    for i in range(n):
        inner = rng.choice([{'coerce': pool.c_to_int}, {'type': 'integer'}, {'coerce': 'inc'}])
        kind = rng.choice(['schema', 'items'])
        vals = tuple(rng.choice([1, 2, '3']) for _ in range(rng.randrange(0, 4)))
        rules = {'type': 'list', 'schema': inner} if kind == 'schema' else {'type': 'list', 'items': [inner] * len(vals)}
        nest = rng.random() < 0.5
        schema = {'t': {'type': 'dict', 'schema': {'u': rules}}} if nest else {'u': rules}
        doc = {'t': {'u': vals}} if nest else {'u': vals}
        v = pool.PoolValidator(schema)
        out = v.normalized(doc, always_return_document=True)
        got = out['t']['u'] if nest else out['u']
        res["cases"] += 1
        if type(got) is not tuple:
            res["violations"].append({"signature": "container-type", "what": "a tuple under %s came back as %s" % (kind, type(got).__name__),
                                      "replay": {"schema": repr(schema), "document": repr(doc)}})
    res["nontrivial"] += n


def run(ctx):
    return _nfamily.run_family(ctx, None, None, use_model=True, apis=("normalized", "validate"), extra=extra,
                               rule="schemas with rename / rename_handler / default / default_setter / coerce (named and callable pool functions, chains, "
                                    "raising ones) / purge_unknown (validator and rule level) / purge_readonly / readonly nested inside items, list- and dict-schema, "
                                    "keysrules, valuesrules and allow_unknown rule sets; normalized(always_return_document=True) and validate() of the real code "
                                    "compared with the Spec (documented pipeline) and Impl (extracted pipeline) models on processed document and error keys "
                                    "(paths, code, rule, constraint, value, children). Non-trivial = distinct accepted cases.")


def replay(rp):
    c = vrun.case_from_json(rp)
    nrun.run_cases([c], ("normalized", "validate"))
    for api in ("normalized", "validate"):
        print(api, nrun.compare(c["real"][api], c["spec"].get(api)) or "agree")
    return 0
