"""C03 -- processing reports problems as errors and never raises."""
import collections
import json

import common
import vrun
from common import cerberus
import copy
import pool
from gen import Gen, REGEXES

LEVEL = "proof"
COQ_FILES = ["theories/Model/Validate.v", "theories/Proofs/NoRaise.v", "theories/Properties/C03.v"]
FACT_GROUPS = ["F1", "F2", "F3", "F5", "F6"]
ALLOWED_AXIOMS = []
TRUSTED_BASE = [
    "Coq 8.16.1 kernel; no native_compute; Print Assumptions: closed under the global context",
    "Model/Validate.v is hand-written (code-shaped, Python exceptions modelled explicitly in the res monad) and parametrised by facts "
    "re-extracted from validator.py on every run; tied to the code by the differential run below (verdict, error set, exception kind)",
    "PyOps.v / Regex.v model CPython's operators on JSON-like values (primitive-table correspondence)",
    "extraction (ExtrOcamlBasic, ExtrOcamlString) + driver/driver.ml",
]
ASSUMPTIONS = [
    "documents: JSON-like values, str/int keys, floats that are multiples of 0.25, ASCII strings",
    "schemas are accepted by the real validator first (rejected schemas are outside C03's domain)",
    "user callables come from the pool in harness/pool.py (deterministic)",
]

SHAPES = [None, True, 0, 5, 2.5, '', 'ab', [], [1, 'ab'], [[1]], [{'a': 1}], {}, {'ab': 1}, {1: [2]}, {'x': {'y': 1}}]
RULE_CONSTRAINTS = [
    ('type', 'integer'), ('type', ['string', 'list']), ('nullable', True), ('empty', False), ('min', 1), ('min', 'b'), ('max', [1]),
    ('minlength', 1), ('maxlength', 1), ('allowed', [1, 'ab']), ('forbidden', [1, 'ab']), ('contains', 'ab'),
    ('contains', [1]), ('regex', 'a.'), ('items', [{}]), ('items', [{}, {'type': 'integer'}]), ('keysrules', {'type': 'string'}),
    ('valuesrules', {'type': 'integer'}), ('readonly', True), ('required', True),
    ('dependencies', 'g'), ('dependencies', 'g.h'), ('dependencies', ['g.h.i', '^g.h']), ('dependencies', {'g.h': [1]}),
    ('excludes', 'g'), ('anyof', [{'type': 'integer'}, {'minlength': 1}]), ('oneof', [{'items': [{}]}, {'forbidden': [1]}]),
    ('noneof', [{'contains': 1}]), ('allof', [{'maxlength': 2}, {'min': 0}]),
]


def api_calls(schema, cfg, doc, update):
    """every entry point; returns list of (api, exception or None)"""
    out = []
    import spell
    schema, cfg = spell.respell(schema, cfg, doc)         # one case in three: the top-level rule sets in a shorthand spelling
    for api in ("validate", "validate_nonorm", "validated", "normalized", "errors"):
        try:
            v = pool.PoolValidator(copy.deepcopy(schema), **copy.deepcopy(cfg))
        except cerberus.SchemaError:
            return [("construct", "rejected")]
        except Exception as e:
            return [("construct", "rejected")]   # not accepted: outside C03's domain (see C04)
        try:
            if api == "validate":
                r = v.validate(doc, update=update)
                if not isinstance(r, bool):
                    out.append((api, TypeError("validate returned %r" % (r,))))
                    continue
            elif api == "validate_nonorm":
                v.validate(doc, update=update, normalize=False)
            elif api == "validated":
                v.validated(doc, update=update)
            elif api == "normalized":
                v.normalized(doc)
            else:
                v.validate(doc, update=update)
                v.errors
            out.append((api, None))
        except Exception as e:
            out.append((api, e))
    return out


def check_case(c, violations, dist):
    for api, e in api_calls(c["schema"], c["config"], c["document"], c["update"]):
        if e == "rejected":
            dist["schema_rejected"] += 1
            return False
        if e is None:
            dist["ok_" + api] += 1
            continue
        name = type(e).__name__
        if name in vrun.DECLARED and api != "construct":
            # the document is a mapping and the schema was accepted: even these must not escape
            pass
        site = vrun.innermost_cerberus_frame(e)
        sig = "%s@%s" % (name, site)
        if name == "RecursionError":
            # the innermost frame of a stack overflow is arbitrary; attribute it: when the model of the documented
            # semantics diverges on the same case too (out of fuel), it is the recorded finding, otherwise a new one
            sig = "RecursionError@(stack overflow)"
            try:
                import nrun
                cc = [dict(c)]
                nrun.run_cases(cc, apis=("normalized",), driver_ok=True)
                if (cc[0]["spec"].get("normalized") or {}).get("r") == "fuel":
                    sig = "diverges:defaults-recreate-unknown-mappings"
            except Exception:
                pass
        dist["raise_" + sig] += 1
        violations.append({"signature": sig, "what": "%s escaped %s(): %s" % (name, api, str(e)[:120]),
                           "replay": dict(vrun.case_json(c), api=api), "_case": c, "_api": api})
    return True


def run(ctx):
    thorough = ctx["tier"] == "thorough"
    n = 60000 if thorough else 3000 * ctx.get('scale', 1)
    dist = collections.Counter()
    violations, samples = [], []
    distinct = set()
    # (1) rule x value-shape matrix (exhaustive for the pools)
    for rule, cons in RULE_CONSTRAINTS:
        for shape in SHAPES:
            for cfg in ({}, {"allow_unknown": True}, {"ignore_none_values": True}):
                c = {"schema": {"f": {rule: cons}, "g": {}}, "config": cfg, "document": {"f": shape, "g": shape}, "update": False}
                if check_case(c, violations, dist):
                    distinct.add(json.dumps(vrun.case_json(c), sort_keys=True))
    matrix = len(distinct)
    # (1b) directed: an allow_unknown rule set whose sub-schema's default re-creates an unknown mapping (diverges by construction)
    au = {'type': 'dict', 'schema': {'x': {'default': {'c': {}}}}}
    for c in ({"schema": {}, "config": {"allow_unknown": au}, "document": {'u': {}}, "update": False},
              {"schema": {'a': {'type': 'dict', 'allow_unknown': au, 'schema': {}}}, "config": {}, "document": {'a': {'u': {}}}, "update": False}):
        check_case(c, violations, dist)
    # (1c) directed: the rules for unknown fields given to the CONSTRUCTOR in the documented shorthand spellings (every entry point
    # that takes a definition has to expand it), on documents with unknown fields of every shape
    for au2 in ({'anyof_type': ['string', 'integer']}, {'type': 'dict', 'valueschema': {'type': 'integer'}}, {'type': 'dict', 'keyschema': {'type': 'string'}},
                {'type': 'dict', 'allow unknown': True, 'schema': {}}, {'oneof_min': [1, 5]}, {'type': 'list', 'schema': {'noneof_type': ['string']}},
                {'validator': 'even'}, {'type': 'dict', 'schema': {'x': {'allof_regex': ['a.*', '.*b']}}}):
        for shape in SHAPES:
            for sch in ({}, {'k': {'type': 'string'}}):
                c = {"schema": sch, "config": {"allow_unknown": copy.deepcopy(au2)}, "document": {'u': shape, 'k': 'v'}, "update": False}
                if check_case(c, violations, dist):
                    distinct.add(json.dumps(vrun.case_json(c), sort_keys=True, default=repr))
    # (2) generated cases with the wrong-shape stream forced
    for kw in ({"p_mismatch": 0.35}, {"p_mismatch": 0.12}, {"normalization": True, "p_mismatch": 0.2},
               {"normalization": True, "nested_bias": True, "max_depth": 4}):
        cases = vrun.gen_cases(ctx["seed"] + len(kw), n // 4, **kw)
        for c in cases:
            if check_case(c, violations, dist):
                distinct.add(json.dumps(vrun.case_json(c), sort_keys=True))
        samples.append(vrun.case_json(cases[7]))
    # (2b) fields / sub-schemas / rule sets given by registry NAME, registries bound to the validator or module-level
    import refs
    import random as _random
    rrng = _random.Random(ctx["seed"] + 33)
    for c in vrun.gen_cases(ctx["seed"] + 9, max(200, n // 10), normalization=True, nested_bias=True, p_mismatch=0.15):
        pos = refs.referenceable(c["schema"])
        if not pos:
            continue
        s2, rdefs, sdefs = refs.substitute(c["schema"], rrng.sample(pos, rrng.randrange(1, min(3, len(pos)) + 1)))
        rr, sr = refs.make_registries(rdefs, sdefs)
        c2 = dict(c, schema=s2)
        n_before = len(violations)
        if rrng.random() < 0.7:
            c2["config"] = dict(c["config"], rules_set_registry=rr, schema_registry=sr)
            dist["references_validator_bound"] += 1
            check_case(c2, violations, dist)
        else:
            saved = (dict(cerberus.rules_set_registry.all()), dict(cerberus.schema_registry.all()))
            cerberus.rules_set_registry.extend(rr.all()); cerberus.schema_registry.extend(sr.all())
            dist["references_module_level"] += 1
            try:
                check_case(c2, violations, dist)
            finally:
                cerberus.rules_set_registry.clear(); cerberus.schema_registry.clear()
                cerberus.rules_set_registry.extend(saved[0]); cerberus.schema_registry.extend(saved[1])
        distinct.add(json.dumps(common.jval(s2), sort_keys=True, default=repr))
        if len(violations) > n_before:
            # attribution: does the same case with the definitions written inline raise as well?
            inline = {a: e for a, e in api_calls(c["schema"], c["config"], c["document"], c["update"])}
            for v in violations[n_before:]:
                e0 = inline.get(v["_api"])
                if e0 is None or e0 == "rejected":
                    v["signature"] += ":by-reference"
                    v["what"] += " (the same schema with the definitions inline returns normally)"
                    v.pop("_case", None)      # not shrunk: the registries belong to the case
    # (3) model-vs-code on the exception behaviour of validate(normalize=False)
    cases = vrun.run_cases(vrun.gen_cases(ctx["seed"] + 7, n // 3, p_mismatch=0.3), ctx["driver_ok"])
    dis = 0
    for c in cases:
        r, m = c["real"], c["model"]
        if m is None or r["r"] not in ("ok", "raise"):
            continue
        dis += 1
        if (r["r"] == "raise") != (m["r"] == "raise") or (r["r"] == "raise" and r["exn"] != m.get("exn")):
            violations.append({"signature": "model-vs-code:exception", "what": "real %s vs model %s" % (
                json.dumps({k: r[k] for k in r if k in ("r", "exn", "site")}), json.dumps({k: m[k] for k in m if k in ("r", "exn", "site")})),
                "replay": vrun.case_json(c)})
    # shrink one representative per signature
    out, seen = [], set()
    for v in violations:
        if v["signature"] in seen:
            continue
        seen.add(v["signature"])
        if "_case" in v and not v["signature"].startswith(("diverges:", "RecursionError@")):
            api, sig = v["_api"], v["signature"]

            def still(cand):
                for a, e in api_calls(cand["schema"], cand["config"], cand["document"], cand["update"]):
                    if a == api and e is not None and e != "rejected" and \
                            "%s@%s" % (type(e).__name__, vrun.innermost_cerberus_frame(e)) == sig:
                        return True
                return False
            small = vrun.shrink(v["_case"], still)
            v = dict(v, replay=dict(vrun.case_json(small), api=api))
        v.pop("_case", None); v.pop("_api", None)
        out.append(v)
    return {"violations": out, "cases": len(distinct) + len(cases), "nontrivial": len(distinct), "model_cases": dis,
            "disagreements_checked": dis, "samples": samples, "distribution": dict(dist), "exhaustive": False,
            "rule": "rule x value-shape matrix (%d cells x 3 configurations, exhaustive for the pools) + generated schemas with 35%% / 12%% "
                    "wrong-shape constraints, half of them with normalization rules using the callable pool (coercers, rename handlers and default setters "
                    "that raise ValueError / KeyError / NotImplementedError / AttributeError), each run through validate, validate(normalize=False), validated, normalized and the errors "
                    "property; any exception other than the documented ones is a violation keyed by (type, innermost cerberus function). "
                    "Non-trivial = distinct accepted (schema, config, document) cases." % (len(RULE_CONSTRAINTS) * len(SHAPES))}


def replay(rp):
    c = vrun.case_from_json(rp)
    for api, e in api_calls(c["schema"], c["config"], c["document"], c["update"]):
        print(api, "ok" if e is None else repr(e))
    return 0
