"""C04 -- only well-formed schemas are accepted, at every entry point and depth."""
import collections
import copy
import json
import random

import common
import pool
import positions
import refs
import vrun
from gen import Gen
from common import cerberus

LEVEL = "proof"
COQ_FILES = ["theories/Model/Expand.v", "theories/Model/Accept.v", "theories/Proofs/AcceptProofs.v", "theories/Properties/C04.v"]
FACT_GROUPS = ["F17"]
ALLOWED_AXIOMS = []
TRUSTED_BASE = [
    "Coq 8.16.1 kernel; Print Assumptions: closed under the global context",
    "ground truth of the oracle: schemas from the documented constraint grammar are well-formed by construction; each corruption kind is ill-formed by construction",
]
ASSUMPTIONS = ["grammar = the C01/C02 generators (+ check_with, registry references); corruptions are single-point"]

BAD_CONSTRAINTS = [
    ('required', 'yes'), ('nullable', 1), ('minlength', 'x'), ('maxlength', 1.5), ('regex', 5), ('allowed', 5), ('forbidden', 'ab'),
    ('items', {'a': 1}), ('type', 5), ('empty', 'no'), ('readonly', 'x'), ('min', None), ('max', None), ('contains', []),
    ('excludes', [[1]]), ('anyof', {'type': 'integer'}), ('oneof', ['x']), ('allof', [5]),
    ('keysrules', 5), ('valuesrules', [1]), ('schema', 5), ('coerce', 5), ('default_setter', 5), ('rename_handler', 5),
    ('purge_unknown', 'x'), ('require_all', 'x'), ('allow_unknown', 5), ('check_with', 5), ('items', [5]),
    ('coerce', 'nosuchcoercer'), ('check_with', 'nosuchchecker'), ('default_setter', 'nosuchsetter'), ('type', ['integer', 'nosuchtype']),
    ('type', None), ('items', None), ('schema', None), ('anyof', None), ('keysrules', None), ('regex', None), ('dependencies', None),
    ('is_small', 'yes'), ('is_even', 'yes'), ('is_even', 5),     # custom rules of the pool class, both docstring forms
    ('noneof', [{'nosuchrule': 1}]), ('anyof', [{'type': 'nosuchtype'}]), ('keysrules', {'nosuchrule': 1}), ('valuesrules', {'type': 'nosuchtype'}),
]


CONTAINER_KEYS = ('schema', 'items', 'keysrules', 'valuesrules', 'allow_unknown', 'allof', 'anyof', 'noneof', 'oneof')


def hops(path):
    """number of container rules between the top-level field and the rules set at path"""
    return sum(1 for k in path[1:] if isinstance(k, str) and k in CONTAINER_KEYS)


def depth_class(n):
    return "deep" if n >= 2 else "shallow"


def corruptions(schema, rng, k):
    """yield (kind, position-kind, corrupted schema)"""
    pos = list(positions.rule_sets(schema))
    out = []
    for path, pkind, rules in rng.sample(pos, min(len(pos), k)):
        choice = rng.randrange(10)
        if choice == 9:
            # the constraint of a `schema` rule given by a name that does not resolve / resolves to an ill-formed schema
            if isinstance(rules, dict) and 'schema' in rules:
                name = rng.choice(['NO_SUCH_SCHEMA', 'BAD_SCHEMA'])
                out.append(("dangling-reference" if name == 'NO_SUCH_SCHEMA' else "invalid-definition-reference:" + depth_class(hops(path)), pkind,
                            positions.edit_at(schema, path, lambda r, name=name: r.__setitem__('schema', name))))
            continue
        if choice == 8:
            # a reference to a registry entry that exists but is itself ill-formed
            if pkind in ('field', 'dict-schema', 'keysrules', 'valuesrules', 'items', 'list-schema', 'allow_unknown-rule'):
                # (the reference is held by the enclosing rules set: one hop less than the path of the replaced rules set)
                out.append(("invalid-definition-reference:" + depth_class(hops(path) - 1), pkind, positions.set_at(schema, path, 'BAD_RULES_SET')))
            continue
        if choice == 6:
            # the rules set itself is not a mapping (nor a name)
            bad = rng.choice([5, None, 1.5, [1], ('type', 'string')])     # (a bool is a legal allow_unknown value)
            out.append(("non-mapping-rules-set", pkind, positions.set_at(schema, path, bad)))
            continue
        if choice == 7:
            bad = rng.choice([5, 7, ('a',)])        # keys the path ordering of cerberus supports (int, str, tuple)
            out.append(("non-string-rule-name", pkind, positions.edit_at(schema, path, lambda r, bad=bad: r.__setitem__(bad, 1))))
            continue
        if choice == 0:
            out.append(("unknown-rule", pkind, positions.edit_at(schema, path, lambda r: r.__setitem__('no_such_rule', 1))))
        elif choice == 1:
            out.append(("unknown-type", pkind, positions.edit_at(schema, path, lambda r: r.__setitem__('type', 'nosuchtype'))))
        elif choice in (2, 3):
            rule, bad = rng.choice(BAD_CONSTRAINTS)
            if pkind == 'of-definition' and rule in ('coerce', 'default_setter', 'rename_handler', 'purge_unknown'):
                rule, bad = 'required', 'yes'
            out.append(("bad-constraint:" + rule, pkind,
                        positions.edit_at(schema, path, lambda r, rule=rule, bad=bad: r.__setitem__(rule, copy.deepcopy(bad)))))
        elif choice == 4:
            if pkind == 'of-definition':
                nr = rng.choice([('coerce', pool.c_ident), ('default', 1), ('rename', 'zz'), ('default_setter', pool.setter('const5')), ('purge_unknown', True)])
                out.append(("normalization-in-of:" + nr[0], pkind, positions.edit_at(schema, path, lambda r, nr=nr: r.__setitem__(nr[0], nr[1]))))
            else:
                op = rng.choice(positions.OFS)
                nr = rng.choice([('coerce', pool.c_ident), ('default', 1), ('rename_handler', pool.c_ident)])
                out.append(("normalization-in-of:" + nr[0], pkind,
                            positions.edit_at(schema, path, lambda r, op=op, nr=nr: r.__setitem__(op, [{'type': 'integer'}, {nr[0]: nr[1]}]))))
        else:
            if pkind in ('field', 'dict-schema', 'keysrules', 'valuesrules', 'items', 'list-schema', 'allow_unknown-rule'):
                out.append(("dangling-reference", pkind, positions.set_at(schema, path, 'NO_SUCH_DEFINITION')))
    return out


def entry_points(good_schema, cfg, bad_schema, probe):
    """try the bad schema through every entry point of a validator that holds good_schema;
    returns list of (entry, outcome) with outcome in rejected / accepted / raise:<Type> and state damage description"""
    res = []

    def fresh():
        return pool.PoolValidator(copy.deepcopy(good_schema), **copy.deepcopy(cfg))

    def attempt(name, fn, state_check=True):
        v = fresh()
        before = (copy.deepcopy(dict(v.schema)), copy.deepcopy(v.allow_unknown) if not isinstance(v.allow_unknown, bool) else v.allow_unknown)
        try:
            pv = v.validate(copy.deepcopy(probe))
            pe = sorted(repr(e.document_path) + hex(e.code) for e in v._errors)
        except Exception:
            pv, pe = "raise", None
        try:
            # acceptance is judged on a cold cache; dependence on the cache state is C08's property
            pool.PoolValidator.clear_caches()
            cerberus.Validator.clear_caches()
            fn(v)
            out = "accepted"
        except cerberus.SchemaError:
            out = "rejected"
        except Exception as e:
            out = "raise:%s@%s" % (type(e).__name__, vrun.innermost_cerberus_frame(e))
        damage = None
        if out != "accepted" and state_check:
            after = (dict(v.schema), v.allow_unknown)
            if after[0] != before[0]:
                damage = "schema in force changed after the rejected assignment"
            elif after[1] != before[1]:
                damage = "allow_unknown changed after the rejected assignment"
            else:
                try:
                    pv2 = v.validate(copy.deepcopy(probe))
                    pe2 = sorted(repr(e.document_path) + hex(e.code) for e in v._errors)
                except Exception:
                    pv2, pe2 = "raise", None
                if (pv, pe) != (pv2, pe2):
                    damage = "probe document validates differently after the rejected assignment"
        res.append((name, out, damage))

    bad = lambda: copy.deepcopy(bad_schema)
    attempt("constructor", lambda v: pool.PoolValidator(bad(), **copy.deepcopy(cfg)), state_check=False)
    attempt("schema-setter", lambda v: setattr(v, 'schema', bad()))
    attempt("validate-arg", lambda v: v.validate({}, bad()))
    attempt("validated-arg", lambda v: v.validated({}, bad()))
    attempt("normalized-arg", lambda v: v.normalized({}, bad()))
    for f in list(bad_schema)[:2]:
        if bad_schema[f] != good_schema.get(f, None):
            attempt("setitem", lambda v, f=f: v.schema.__setitem__(f, copy.deepcopy(bad_schema[f])))
    attempt("update", lambda v: v.schema.update(bad()))

    # the same rejected assignment offered a second time to the same validator is rejected again
    def twice(fn):
        def go(v):
            try:
                fn(v)
            except cerberus.SchemaError:
                pass
            pool.PoolValidator.clear_caches()
            cerberus.Validator.clear_caches()
            fn(v)
        return go
    attempt("update-twice", twice(lambda v: v.schema.update(bad())))
    for f in list(bad_schema)[:1]:
        if bad_schema[f] != good_schema.get(f, None):
            attempt("setitem-twice", twice(lambda v, f=f: v.schema.__setitem__(f, copy.deepcopy(bad_schema[f]))))
    attempt("schema-setter-twice", twice(lambda v: setattr(v, 'schema', bad())))
    # an update that brings new fields: well-formed ones first, the corrupted field(s) after them
    renamed = {("n_%s" % f): r for f, r in bad_schema.items()}
    fresh_first = dict(sorted(renamed.items(), key=lambda kv: kv[1] != good_schema.get(kv[0][2:] if kv[0][2:] in good_schema else next((g for g in good_schema if str(g) == kv[0][2:]), None))))
    attempt("update-new-fields", lambda v: v.schema.update(copy.deepcopy(fresh_first)))
    return res


def encode_accept(schema, cfg):
    """driver line for the acceptance model: class tables of PoolValidator, registries (as stored = expanded), schema"""
    out = ["W"]
    for names in (list(pool.PoolValidator.types), list(pool.PoolValidator.coercers), list(pool.PoolValidator.default_setters),
                  list(pool.PoolValidator.checkers), [], []):
        out.append(str(len(names)))
        out += [common.hx(n) for n in names]
    rr = cfg.get("rules_set_registry")
    sr = cfg.get("schema_registry")
    common.enc_registry(dict(rr.all()) if rr is not None else {}, out)
    common.enc_registry(dict(sr.all()) if sr is not None else {}, out)
    common.enc_value(schema, out)
    return " ".join(out)


# an ill-formed definition in the module-level registry (registries expand definitions on add, they do not validate them)
cerberus.rules_set_registry.add('BAD_RULES_SET', {'type': 'nosuchtype'})
cerberus.schema_registry.add('BAD_SCHEMA', {'v': {'type': 'nosuchtype'}})


def real_accepts(schema, cfg):
    pool.PoolValidator.clear_caches()
    cerberus.Validator.clear_caches()
    try:
        pool.PoolValidator(copy.deepcopy(schema), **copy.deepcopy(cfg))
        return "accepted"
    except cerberus.SchemaError:
        return "rejected"
    except Exception as e:
        return "raise:" + type(e).__name__


def run(ctx):
    thorough = ctx["tier"] == "thorough"
    n = 1500 if thorough else 220 * ctx.get('scale', 1)
    rng = random.Random(ctx["seed"] + 4)
    g = Gen(ctx["seed"] + 40, normalization=True, nested_bias=True)
    violations, samples = [], []
    dist = collections.Counter()
    cases = 0
    distinct = set()
    model_lines, model_jobs = [], []
    for i in range(n):
        schema = g.schema()
        # check_with somewhere
        for path, pkind, rules in list(positions.rule_sets(schema))[:1]:
            if rng.random() < 0.3:
                rules['check_with'] = rng.choice(['even', pool.k_even, ['even', pool.k_twice]])
        cfg = g.config()
        probe = g.doc_for(schema)
        # (1) grammar schemas must be accepted
        try:
            pool.PoolValidator(copy.deepcopy(schema), **copy.deepcopy(cfg))
            dist["grammar_accepted"] += 1
        except cerberus.SchemaError as e:
            violations.append({"signature": "grammar-rejected", "what": "well-formed schema rejected: " + str(e)[:200],
                               "replay": {"schema": common.jval(schema), "config": common.jval(cfg)}})
            continue
        except Exception as e:
            violations.append({"signature": "grammar-raise:%s@%s" % (type(e).__name__, vrun.innermost_cerberus_frame(e)),
                               "what": "well-formed schema makes the constructor raise %r" % (e,),
                               "replay": {"schema": common.jval(schema), "config": common.jval(cfg)}})
            continue
        cases += 1
        # (2) single-point corruptions must be rejected with SchemaError through every entry point
        try:
            model_lines.append(encode_accept(schema, cfg)); model_jobs.append((schema, cfg, "grammar", "accepted"))
        except ValueError:
            pass
        for kind, pkind, bad in corruptions(schema, rng, 3 if not thorough else 6):
            distinct.add(json.dumps(common.jval(bad), sort_keys=True, default=repr))
            try:
                model_lines.append(encode_accept(bad, cfg)); model_jobs.append((bad, cfg, kind, None))
            except ValueError:
                pass
            for entry, out, damage in entry_points(schema, cfg, bad, probe):
                cases += 1
                dist["%s@%s" % (kind.split(":")[0], pkind)] += 1
                dist["entry_" + entry] += 1
                rp = {"good": common.jval(schema), "bad": common.jval(bad), "config": common.jval(cfg), "entry": entry,
                      "kind": kind, "position": pkind, "probe": common.jval(probe)}
                if out == "accepted":
                    violations.append({"signature": "accepted:%s" % kind, "what": "%s at a %s position accepted through %s" % (kind, pkind, entry), "replay": rp})
                elif out != "rejected":
                    violations.append({"signature": "%s:%s" % (out, kind.split(":")[0]),
                                       "what": "%s at a %s position through %s: %s instead of SchemaError" % (kind, pkind, entry, out), "replay": rp})
                if damage:
                    violations.append({"signature": "state:" + entry, "what": "%s (%s at %s through %s)" % (damage, kind, pkind, entry), "replay": rp})
            # allow_unknown setter with a corrupted rule set
        rs = g.simple_rules(1)
        for kind, pkind, badw in corruptions({'w': rs}, rng, 1):
            bad_rules = badw['w']
            v = pool.PoolValidator(copy.deepcopy(schema), **copy.deepcopy(cfg))
            before = copy.deepcopy(v.allow_unknown) if not isinstance(v.allow_unknown, bool) else v.allow_unknown
            cases += 1
            dist["entry_allow_unknown-setter"] += 1
            try:
                pool.PoolValidator.clear_caches()
                cerberus.Validator.clear_caches()
                v.allow_unknown = copy.deepcopy(bad_rules)
                out = "accepted"
            except cerberus.SchemaError:
                out = "rejected"
            except Exception as e:
                out = "raise:%s@%s" % (type(e).__name__, vrun.innermost_cerberus_frame(e))
            rp = {"good": common.jval(schema), "bad_allow_unknown": common.jval(bad_rules), "config": common.jval(cfg), "entry": "allow_unknown-setter", "kind": kind}
            # ... and as the constructor's option
            cases += 1
            dist["entry_allow_unknown-constructor"] += 1
            try:
                pool.PoolValidator.clear_caches()
                cerberus.Validator.clear_caches()
                pool.PoolValidator(copy.deepcopy(schema), **dict(copy.deepcopy(cfg), allow_unknown=copy.deepcopy(bad_rules)))
                out2 = "accepted"
            except cerberus.SchemaError:
                out2 = "rejected"
            except Exception as e:
                out2 = "raise:%s@%s" % (type(e).__name__, vrun.innermost_cerberus_frame(e))
            if out2 == "accepted":
                violations.append({"signature": "accepted:%s" % kind, "what": "%s accepted as the constructor's allow_unknown option" % kind, "replay": dict(rp, entry="allow_unknown-constructor")})
            elif out2 != "rejected":
                violations.append({"signature": "%s:%s" % (out2, kind.split(":")[0]), "what": "allow_unknown constructor option: %s instead of SchemaError (%s)" % (out2, kind), "replay": dict(rp, entry="allow_unknown-constructor")})
            if out == "accepted":
                violations.append({"signature": "accepted:%s" % kind, "what": "%s accepted through the allow_unknown setter" % kind, "replay": rp})
            elif out != "rejected":
                violations.append({"signature": "%s:%s" % (out, kind.split(":")[0]), "what": "allow_unknown setter: %s instead of SchemaError (%s)" % (out, kind), "replay": rp})
            if out != "accepted" and v.allow_unknown != before:
                violations.append({"signature": "state:allow_unknown-setter", "what": "allow_unknown changed after a rejected assignment", "replay": rp})
        if i == 2:
            samples.append({"good": common.jval(schema), "bad": common.jval(bad) if 'bad' in dir() else None})
    # (3) well-formed schemas whose rules sets / sub-schemas are given by NAME must be accepted (validator-bound and
    #     module-level registries; the definitions include the empty rules set and the empty schema)
    import refs
    for i in range(n // 2):
        schema = g.schema()
        pos = refs.referenceable(schema)
        extra = rng.random() < 0.4
        if not pos and not extra:
            continue
        s2, rdefs, sdefs = refs.substitute(schema, rng.sample(pos, rng.randrange(1, min(3, len(pos)) + 1))) if pos else (copy.deepcopy(schema), {}, {})
        if extra:
            shape = rng.choice(['valuesrules', 'keysrules', 'items', 'list-schema', 'dict-schema', 'allow_unknown', 'field'])
            rdefs = dict(rdefs, EMPTY_RULES={})
            sdefs = dict(sdefs, EMPTY_SCHEMA={})
            s2['zz'] = {'valuesrules': {'type': 'dict', 'valuesrules': 'EMPTY_RULES'}, 'keysrules': {'type': 'dict', 'keysrules': 'EMPTY_RULES'},
                        'items': {'type': 'list', 'items': ['EMPTY_RULES', {'type': 'integer'}]}, 'list-schema': {'type': 'list', 'schema': 'EMPTY_RULES'},
                        'dict-schema': {'type': 'dict', 'schema': 'EMPTY_SCHEMA'}, 'allow_unknown': {'type': 'dict', 'allow_unknown': 'EMPTY_RULES'},
                        'field': 'EMPTY_RULES'}[shape]
            dist["reference_to_empty_definition@" + shape] += 1
        rr, sr = refs.make_registries(rdefs, sdefs)
        module_level = rng.random() < 0.3
        saved = None
        cfg = g.config()
        if module_level:
            saved = (dict(cerberus.rules_set_registry.all()), dict(cerberus.schema_registry.all()))
            cerberus.rules_set_registry.extend(rr.all()); cerberus.schema_registry.extend(sr.all())
        else:
            cfg = dict(cfg, rules_set_registry=rr, schema_registry=sr)
        cases += 1
        dist["grammar_with_references"] += 1
        try:
            inline_ok = real_accepts(schema, {k: v for k, v in cfg.items() if not k.endswith('_registry')}) == "accepted"
            out = real_accepts(s2, cfg)
            if inline_ok and out != "accepted":
                violations.append({"signature": "grammar-rejected:by-reference" if out == "rejected" else "grammar-%s:by-reference" % out,
                                   "what": "well-formed schema with definitions given by name: %s (the inline form is accepted)" % out,
                                   "replay": {"schema": common.jval(s2), "rules_set_registry": common.jval(rdefs), "schema_registry": common.jval(sdefs),
                                              "config": common.jval({k: v for k, v in cfg.items() if not k.endswith('_registry')}), "module_level": module_level}})
        finally:
            if saved is not None:
                cerberus.rules_set_registry.clear(); cerberus.schema_registry.clear()
                cerberus.rules_set_registry.extend(saved[0]); cerberus.schema_registry.extend(saved[1])
    # the documented grammar (Model/Accept.v after Model/Expand.v) against the real acceptance on a cold cache
    modelled = 0
    if ctx["driver_ok"] and model_lines:
        for (sch, cfg2, kind, _), m in zip(model_jobs, common.run_driver_parallel(model_lines)):
            real = real_accepts(sch, cfg2)
            modelled += 1
            if m.get("r") != real and not (real.startswith("raise") and m.get("r") == "rejected"):
                sig = ("accepted:" + kind) if (kind.split(":")[0] in ("dangling-reference", "invalid-definition-reference") and real == "accepted") else "model-vs-code:acceptance"
                violations.append({"signature": sig, "what": "documented grammar says %s, the real validator %s (%s)" % (m.get("r"), real, kind),
                                   "replay": {"good": common.jval(sch), "bad": common.jval(sch), "config": common.jval(cfg2), "entry": "constructor",
                                              "kind": kind, "position": "?", "probe": {"d": []}}})
    return {"violations": violations, "cases": cases, "nontrivial": len(distinct), "model_cases": modelled, "disagreements_checked": modelled,
            "samples": samples, "distribution": dict(dist),
            "rule": "grammar schemas (C02 generators + check_with) must be accepted; single-point corruptions (unknown rule, unknown type, wrongly typed "
                    "constraint from a table of 39, normalization rule inside a *of definition, dangling reference) at random rule-set positions of any depth must "
                    "raise SchemaError through constructor, schema setter, validate/validated/normalized schema argument, item assignment, update() and the "
                    "allow_unknown setter; after a rejection the schema / allow_unknown in force and a probe validation must be unchanged. "
                    "Non-trivial = distinct corrupted schemas."}


def replay(rp):
    good, cfg = common.unjson(rp["good"]), common.unjson(rp["config"])
    if "bad" in rp:
        for r in entry_points(good, cfg, common.unjson(rp["bad"]), common.unjson(rp["probe"])):
            print(r)
    return 0
