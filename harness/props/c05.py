"""C05 -- the caller's document and the validator's schema are never modified."""
import copy
import json

import common
import nrun
import pool
import vrun
from props import _nfamily
from common import cerberus

LEVEL = "proof"
COQ_FILES = ["theories/Model/Ownership.v", "theories/Proofs/OwnershipProofs.v", "theories/Properties/C05.v"]
FACT_GROUPS = ["F14", "F11", "F16"]
ALLOWED_AXIOMS = []
TRUSTED_BASE = _nfamily.BASE_TRUSTED + ["oracle: deep equality and repr equality of the caller's document, of dict(validator.schema) and of both registries before/after each API call"]
ASSUMPTIONS = _nfamily.BASE_ASSUMPTIONS + ["aliasing created by user-supplied callables is out of scope (pool functions are pure)"]


def snapshot(x):
    return copy.deepcopy(x), repr(x)


def same(x, snap):
    return x == snap[0] and repr(x) == snap[1]


def oracle(c):
    schema = copy.deepcopy(c["schema"])
    regs = c.get("registries")
    for api in ("validate", "validated", "normalized", "validate_nonorm"):
        kw = copy.deepcopy(c["config"])
        if regs:
            kw["rules_set_registry"], kw["schema_registry"] = regs
            g1, g2 = snapshot(dict(regs[0].all())), snapshot(dict(regs[1].all()))
        try:
            v = pool.PoolValidator(copy.deepcopy(schema), **kw)
        except cerberus.SchemaError:
            raise
        except Exception:
            raise _nfamily._Skip("constructor-raised")        # C03 / C04 judge that; nothing is owned yet
        if (len(repr(c["document"])) + len(api)) % 2:
            # a validator that was used before (same document, normalization on) owns no more than a fresh one
            try:
                v.validate(copy.deepcopy(c["document"]), update=not c["update"])
            except Exception:
                v = pool.PoolValidator(copy.deepcopy(schema), **kw)
        doc = copy.deepcopy(c["document"])
        d_snap = snapshot(doc)
        s_snap = snapshot(dict(v.schema))
        au_snap = snapshot(v.allow_unknown) if isinstance(v.allow_unknown, dict) else None
        r1, r2 = snapshot(dict(cerberus.schema_registry.all())), snapshot(dict(cerberus.rules_set_registry.all()))
        try:
            if api == "validate":
                v.validate(doc, update=c["update"])
            elif api == "validated":
                v.validated(doc, update=c["update"], always_return_document=True)
            elif api == "normalized":
                v.normalized(doc, always_return_document=True)
            else:
                v.validate(doc, update=c["update"], normalize=False)
        except Exception as e:
            continue       # C03's business
        if not same(doc, d_snap):
            return "%s() modified the caller's document: %r -> %r" % (api, d_snap[1][:200], repr(doc)[:200])
        if not same(dict(v.schema), s_snap):
            return "%s() modified the validator's schema: %r -> %r" % (api, s_snap[1][:200], repr(dict(v.schema))[:200])
        if au_snap is not None and not same(v.allow_unknown, au_snap):
            return "%s() modified the allow_unknown rule set" % api
        if not same(dict(cerberus.schema_registry.all()), r1) or not same(dict(cerberus.rules_set_registry.all()), r2):
            return "%s() modified a registry" % api
        if regs and (not same(dict(regs[0].all()), g1) or not same(dict(regs[1].all()), g2)):
            return "%s() modified a registry entry: %r -> %r" % (api, (g1[1] + g2[1])[:200], (repr(dict(regs[0].all())) + repr(dict(regs[1].all())))[:200])
        if v.document is doc:
            return "%s(): validator.document is the caller's object" % api
        if api == "validate_nonorm" and not (v.document == doc):
            return "validate(normalize=False): processed document differs from the input"
    return None


def extra(ctx, res):
    """schemas whose rule sets / sub-schemas are registry references (chains included)"""
    import random
    import refs
    from gen import Gen
    g = Gen(ctx["seed"] + 55, normalization=True, nested_bias=True)
    rng = random.Random(ctx["seed"] + 56)
    n = 6000 if ctx["tier"] == "thorough" else 400
    for i in range(n):
        schema, cfg = g.schema(), g.config()
        pos = refs.referenceable(schema)
        if not pos:
            continue
        chosen = rng.sample(pos, rng.randrange(1, len(pos) + 1))
        s2, rdefs, sdefs = refs.substitute(schema, chosen)
        c = {"schema": s2, "config": cfg, "document": g.doc_for(schema, p_present=0.7), "update": False,
             "registries": refs.make_registries(rdefs, sdefs)}
        try:
            d = oracle(c)
        except cerberus.SchemaError:
            continue
        res["cases"] += 1
        res["nontrivial"] += 1
        if d:
            res["violations"].append({"signature": "foreign-write:registry" if "registry" in d else "foreign-write:" + d.split("(")[0][:20], "what": d,
                                      "replay": dict(vrun.case_json(c), rules_set_registry=common.jval(rdefs), schema_registry=common.jval(sdefs))})


def run(ctx):
    return _nfamily.run_family(ctx, oracle, lambda d: "foreign-write:" + d.split("(")[0][:20], use_model=False, extra=extra,
                               genkws=({"nested_bias": True}, {"max_depth": 4, "nested_bias": True}),
                               rule="schemas whose normalization rules sit inside nested containers (keysrules, valuesrules, list/dict schema, items, allow_unknown "
                                    "rule sets, container defaults); every API call on a fresh validator with deep snapshots of document, schema, allow_unknown and "
                                    "registries before/after; identity of validator.document; normalize=False leaves the processed document equal to the input. "
                                    "Non-trivial = distinct accepted cases.")


def replay(rp):
    c = vrun.case_from_json(rp)
    if "rules_set_registry" in rp:
        import refs
        c["registries"] = refs.make_registries(common.unjson(rp["rules_set_registry"]), common.unjson(rp["schema_registry"]))
    print(oracle(c))
    return 0
