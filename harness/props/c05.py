"""C05 -- the caller's document and the validator's schema are never modified."""
import copy
import json

import common
import nrun
import pool
import vrun
from props import _nfamily
from common import cerberus

LEVEL = "proof"
COQ_FILES = ["theories/Model/Normalize.v"]
FACT_GROUPS = ["F11", "F6"]
ALLOWED_AXIOMS = []
TRUSTED_BASE = _nfamily.BASE_TRUSTED + ["oracle: deep equality and repr equality of the caller's document, of dict(validator.schema) and of both registries before/after each API call"]
ASSUMPTIONS = _nfamily.BASE_ASSUMPTIONS + ["aliasing created by user-supplied callables is out of scope (pool functions are pure)"]


def snapshot(x):
    return copy.deepcopy(x), repr(x)


def same(x, snap):
    return x == snap[0] and repr(x) == snap[1]


def oracle(c):
    schema = copy.deepcopy(c["schema"])
    for api in ("validate", "validated", "normalized", "validate_nonorm"):
        v = pool.PoolValidator(copy.deepcopy(schema), **copy.deepcopy(c["config"]))
        doc = copy.deepcopy(c["document"])
        d_snap = snapshot(doc)
        s_snap = snapshot(dict(v.schema))
        au_snap = snapshot(v.allow_unknown) if isinstance(v.allow_unknown, dict) else None
        r1, r2 = snapshot(dict(cerberus.schema_registry.all())), snapshot(dict(cerberus.rules_set_registry.all()))
        try:
            if api == "validate":
                v.validate(doc, update=c["update"])
            elif api == "validated":
                v.validated(doc, update=c["update"], always_return_document=True)
            elif api == "normalized":
                v.normalized(doc, always_return_document=True)
            else:
                v.validate(doc, update=c["update"], normalize=False)
        except Exception as e:
            continue       # C03's business
        if not same(doc, d_snap):
            return "%s() modified the caller's document: %r -> %r" % (api, d_snap[1][:200], repr(doc)[:200])
        if not same(dict(v.schema), s_snap):
            return "%s() modified the validator's schema: %r -> %r" % (api, s_snap[1][:200], repr(dict(v.schema))[:200])
        if au_snap is not None and not same(v.allow_unknown, au_snap):
            return "%s() modified the allow_unknown rule set" % api
        if not same(dict(cerberus.schema_registry.all()), r1) or not same(dict(cerberus.rules_set_registry.all()), r2):
            return "%s() modified a registry" % api
        if v.document is doc:
            return "%s(): validator.document is the caller's object" % api
        if api == "validate_nonorm" and not (v.document == doc):
            return "validate(normalize=False): processed document differs from the input"
    return None


def run(ctx):
    return _nfamily.run_family(ctx, oracle, lambda d: "foreign-write:" + d.split("(")[0][:20], use_model=False,
                               genkws=({"nested_bias": True}, {"max_depth": 4, "nested_bias": True}),
                               rule="schemas whose normalization rules sit inside nested containers (keysrules, valuesrules, list/dict schema, items, allow_unknown "
                                    "rule sets, container defaults); every API call on a fresh validator with deep snapshots of document, schema, allow_unknown and "
                                    "registries before/after; identity of validator.document; normalize=False leaves the processed document equal to the input. "
                                    "Non-trivial = distinct accepted cases.")


def replay(rp):
    print(oracle(vrun.case_from_json(rp)))
    return 0
