"""C06 -- validate, validated, normalized and errors agree with one another."""
import copy
import json

import common
import nrun
import pool
import vrun
from props import _nfamily
from common import cerberus, real_error, canon_errors

LEVEL = "proof"
COQ_FILES = ["theories/Model/Normalize.v", "theories/Properties/C06.v"]
FACT_GROUPS = ["F11", "F16"]
ALLOWED_AXIOMS = []
TRUSTED_BASE = _nfamily.BASE_TRUSTED + ["oracle: the API agreement relations evaluated on fresh real validators"]
ASSUMPTIONS = _nfamily.BASE_ASSUMPTIONS + ["composition law only for schemas (and allow_unknown rule sets) without readonly"]


def mk(c):
    return pool.PoolValidator(copy.deepcopy(c["schema"]), **copy.deepcopy(c["config"]))


def has_readonly(x):
    if isinstance(x, dict):
        return 'readonly' in x or any(has_readonly(v) for v in x.values())
    if isinstance(x, list):
        return any(has_readonly(v) for v in x)
    return False


def oracle(c):
    d = c["document"]
    u = c["update"]
    try:
        v1 = mk(c)
        ok = v1.validate(copy.deepcopy(d), update=u)
        errs1 = list(v1._errors)
        doc1 = v1.document
        if not isinstance(ok, bool):
            return "validate returned %r" % (ok,)
        if ok != (len(errs1) == 0) or ok != (v1.errors == {}):
            return "verdict %r, %d recorded errors, errors property %r" % (ok, len(errs1), v1.errors)
        v2 = mk(c)
        r = v2.validated(copy.deepcopy(d), update=u)
        if (r is None) != (not ok):
            return "validated() returned %r but validate() is %r" % (r, ok)
        if r is not None and r != doc1:
            return "validated() returned %r, processed document is %r" % (r, doc1)
        v3 = mk(c)
        r = v3.validated(copy.deepcopy(d), update=u, always_return_document=True)
        if r is None or r != doc1:
            return "validated(always_return_document=True) returned %r, processed document is %r" % (r, doc1)
        v4 = mk(c)
        n = v4.normalized(copy.deepcopy(d))
        nerrs = list(v4._errors)
        if (n is None) != bool(nerrs):
            return "normalized() returned %r with %d normalization errors" % (n, len(nerrs))
        v5 = mk(c)
        n2 = v5.normalized(copy.deepcopy(d), always_return_document=True)
        if n2 is None or (n is not None and n != n2):
            return "normalized(always_return_document=True) returned %r vs %r" % (n2, n)
    except cerberus.SchemaError:
        raise
    except Exception:
        raise _nfamily._Skip("raised")
    if has_readonly(c["schema"]) or has_readonly(c["config"]):
        return None
    try:
        v6 = mk(c)
        v6.validate(copy.deepcopy(n2), update=u, normalize=False)
    except Exception:
        raise _nfamily._Skip("raised")
    lhs = canon_errors([real_error(e) for e in errs1])
    rhs = canon_errors([real_error(e) for e in list(v5._errors) + list(v6._errors)])
    if lhs != rhs:
        return "validate(d) errors != normalization errors + validate(normalized(d), normalize=False) errors: only lhs %r; only rhs %r" % (
            sorted(set(lhs) - set(rhs))[:2], sorted(set(rhs) - set(lhs))[:2])
    if doc1 != v6.document:
        return "processed documents differ: %r vs %r" % (doc1, v6.document)
    return None


def run(ctx):
    return _nfamily.run_family(ctx, oracle, lambda d: "api:" + d.split(" ")[0][:24], use_model=False,
                               genkws=({"p_update": 0.5}, {"max_depth": 4, "nested_bias": True, "p_update": 0.3}, {"normalization": False},
                                       {"purge_bias": True, "nested_bias": True, "of_rules": False}),
                               n_quick=3200,
                               rule="generated schemas with and without normalization rules, update in {F,T}; six fresh validators per case: validate vs errors vs "
                                    "validated (both conventions) vs normalized (both conventions) and, for readonly-free schemas, the composition law "
                                    "validate(d) = normalized(d) errors + validate(normalized(d), normalize=False) errors with equal processed documents. "
                                    "Non-trivial = distinct accepted cases that completed without an exception.")


def replay(rp):
    print(oracle(vrun.case_from_json(rp)))
    return 0
