"""C06 -- validate, validated, normalized and errors agree with one another."""
import copy
import json

import common
import nrun
import pool
import vrun
from props import _nfamily
from common import cerberus, real_error, canon_errors

LEVEL = "proof"
import vrun as _vrun_refs
_vrun_refs.P_REFS = 0.15      # some generated schemas carry registry references (validator-bound registries)
COQ_FILES = ["theories/Model/Normalize.v", "theories/Properties/C06.v"]
FACT_GROUPS = ["F11", "F16"]
ALLOWED_AXIOMS = []
TRUSTED_BASE = _nfamily.BASE_TRUSTED + ["oracle: the API agreement relations evaluated on fresh real validators"]
ASSUMPTIONS = _nfamily.BASE_ASSUMPTIONS + ["composition law only for schemas (and allow_unknown rule sets) without readonly"]


def mk(c):
    return pool.PoolValidator(copy.deepcopy(c["schema"]), **copy.deepcopy(c["config"]))


def has_readonly(x):
    if isinstance(x, dict):
        return 'readonly' in x or any(has_readonly(v) for v in x.values())
    if isinstance(x, list):
        return any(has_readonly(v) for v in x)
    return False


def oracle(c):
    d = c["document"]
    u = c["update"]
    try:
        v1 = mk(c)
        ok = v1.validate(copy.deepcopy(d), update=u)
        errs1 = list(v1._errors)
        doc1 = v1.document
        if not isinstance(ok, bool):
            return "validate returned %r" % (ok,)
        if ok != (len(errs1) == 0) or ok != (v1.errors == {}):
            return "verdict %r, %d recorded errors, errors property %r" % (ok, len(errs1), v1.errors)
        v2 = mk(c)
        r = v2.validated(copy.deepcopy(d), update=u)
        if (r is None) != (not ok):
            return "validated() returned %r but validate() is %r" % (r, ok)
        if r is not None and r != doc1:
            return "validated() returned %r, processed document is %r" % (r, doc1)
        v3 = mk(c)
        r = v3.validated(copy.deepcopy(d), update=u, always_return_document=True)
        if r is None or r != doc1:
            return "validated(always_return_document=True) returned %r, processed document is %r" % (r, doc1)
        v4 = mk(c)
        n = v4.normalized(copy.deepcopy(d))
        nerrs = list(v4._errors)
        if (n is None) != bool(nerrs):
            return "normalized() returned %r with %d normalization errors" % (n, len(nerrs))
        v5 = mk(c)
        n2 = v5.normalized(copy.deepcopy(d), always_return_document=True)
        if n2 is None or (n is not None and n != n2):
            return "normalized(always_return_document=True) returned %r vs %r" % (n2, n)
        # the four calls agree on ONE validator as well (the same document offered again)
        r_again = v1.validated(copy.deepcopy(d), update=u)
        if (r_again is None) != (not ok) or (r_again is not None and r_again != doc1):
            return "validated() after validate() on the same validator returned %r, expected %r" % (r_again, doc1 if ok else None)
        n_again = v1.normalized(copy.deepcopy(d), always_return_document=True)
        if n_again != n2 or canon_errors([real_error(e) for e in v1._errors]) != canon_errors([real_error(e) for e in v5._errors]):
            return "normalized() after validate()/validated() on the same validator: %r with %d errors, a fresh validator gives %r with %d errors" % (
                n_again, len(v1._errors), n2, len(v5._errors))
    except cerberus.SchemaError:
        raise
    except Exception:
        raise _nfamily._Skip("raised")
    if has_readonly(c["schema"]) or has_readonly(c["config"]):
        return None
    try:
        v6 = mk(c)
        v6.validate(copy.deepcopy(n2), update=u, normalize=False)
    except Exception:
        raise _nfamily._Skip("raised")
    lhs = canon_errors([real_error(e) for e in errs1])
    rhs = canon_errors([real_error(e) for e in list(v5._errors) + list(v6._errors)])
    if lhs != rhs:
        return "validate(d) errors != normalization errors + validate(normalized(d), normalize=False) errors: only lhs %r; only rhs %r" % (
            sorted(set(lhs) - set(rhs))[:2], sorted(set(rhs) - set(lhs))[:2])
    if doc1 != v6.document:
        return "processed documents differ: %r vs %r" % (doc1, v6.document)
    return None


def extra(ctx, res):
    """directed family: a normalization error recorded for a field (or inside its sub-document) followed by several
    validation rules of that field in random order -- the validation phase must not depend on what normalization recorded"""
    import random
    rng = random.Random(ctx["seed"] + 606)
    n = 2000 if ctx["tier"] == "thorough" else 150 * ctx.get("scale", 1)
    vrules = [('dependencies', 'b'), ('dependencies', ['b', 'c']), ('dependencies', {'b': [1, 2]}), ('allowed', ['q', 7]), ('min', 100), ('max', -100),
              ('maxlength', 0), ('minlength', 9), ('regex', 'z+'), ('forbidden', ['x', 1]), ('excludes', 'c'), ('type', 'integer'), ('type', 'string'),
              ('empty', False), ('nullable', False), ('contains', 'zz'), ('anyof', [{'type': 'boolean'}, {'min': 500}])]
    fails = [('coerce', 'fail'), ('coerce', ['to_str', 'fail']), ('coerce', 'failrt'), ('rename_handler', 'fail'), ('coerce', ['ident', 'keyfail'])]
    for i in range(n):
        rs = {}
        picks = rng.sample(vrules, rng.randrange(2, 5))
        if rng.random() < 0.6 and not any(p[0] == 'dependencies' for p in picks):
            picks = [rng.choice(vrules[:3])] + picks + [rng.choice([('allowed', ['q', 7]), ('minlength', 9), ('regex', 'z+'), ('forbidden', ['x', 1])])]
        nested = rng.random() < 0.4
        if nested:
            inner = dict([rng.choice(fails)] + rng.sample(vrules, 2))
            rs = dict([('type', 'dict'), ('schema', {'m': inner})] + [p for p in picks if p[0] != 'type'])
            val = {'m': rng.choice(['x', 1, 'zz', ''])}
        else:
            items = [rng.choice(fails)] + picks
            if rng.random() < 0.5:
                rng.shuffle(items)
            rs = dict(items)
            val = rng.choice(['x', 'x', 'x', 1, '', 'zz', 5, [1], None])
        schema = {'a': rs, 'b': {}, 'c': {}}
        doc = {'a': val}
        if rng.random() < 0.6:
            doc['b'] = rng.choice([1, 3])
        if rng.random() < 0.3:
            doc['c'] = 1
        c = {"schema": schema, "config": rng.choice([{}, {}, {"allow_unknown": True}, {"require_all": True}]), "document": doc,
             "update": rng.random() < 0.3}
        try:
            d = oracle(c)
        except cerberus.SchemaError:
            continue
        except _nfamily._Skip:
            continue
        res["cases"] += 1
        res["nontrivial"] += 1
        if d:
            res["violations"].append({"signature": "api:" + d.split(" ")[0][:24], "what": "(normalization error then validation rules) " + d,
                                      "replay": _nfamily.case_json(c)})


def run(ctx):
    return _nfamily.run_family(ctx, oracle, lambda d: "api:" + d.split(" ")[0][:24], use_model=False, extra=extra,
                               genkws=({"p_update": 0.5}, {"max_depth": 4, "nested_bias": True, "p_update": 0.3}, {"normalization": False},
                                       {"purge_bias": True, "nested_bias": True, "of_rules": False}),
                               n_quick=3200,
                               rule="generated schemas with and without normalization rules, update in {F,T}; six fresh validators per case: validate vs errors vs "
                                    "validated (both conventions) vs normalized (both conventions) and, for readonly-free schemas, the composition law "
                                    "validate(d) = normalized(d) errors + validate(normalized(d), normalize=False) errors with equal processed documents. "
                                    "Non-trivial = distinct accepted cases that completed without an exception.")


def replay(rp):
    print(oracle(vrun.case_from_json(rp)))
    return 0
