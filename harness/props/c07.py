"""C07 -- a validator's result does not depend on what it processed before."""
import collections
import copy
import itertools
import json
import random

import common
import nrun
import pool
import vrun
from gen import Gen
from props import _nfamily
from props.c11 import dump_tree, diff_tree
from common import cerberus, real_error, canon_errors

LEVEL = "proof"
COQ_FILES = ['theories/Model/Instance.v', 'theories/Proofs/InstanceProofs.v', 'theories/Properties/C07.v']
FACT_GROUPS = ['F16']
ALLOWED_AXIOMS = []
TRUSTED_BASE = _nfamily.BASE_TRUSTED + ["oracle: used instance vs fresh instance on verdict, error keys, both error trees, processed document, errors property"]
ASSUMPTIONS = _nfamily.BASE_ASSUMPTIONS


def do_call(v, call):
    """call = (api, document, kwargs, schema or None); returns outcome summary"""
    api, doc, kw, schema = call
    doc = copy.deepcopy(doc)
    kw = dict(kw)
    if schema is not None:
        kw["schema"] = copy.deepcopy(schema)
    try:
        if api == "validate":
            r = v.validate(doc, **kw)
        elif api == "validated":
            r = v.validated(doc, **kw)
        elif api == "normalized":
            kw.pop("update", None); kw.pop("normalize", None)
            r = v.normalized(doc, **kw)
        else:
            r = v.errors
        return ("ok", common.canon_val(common.jval(r)) if not isinstance(r, bool) else r)
    except (cerberus.DocumentError, cerberus.SchemaError) as e:
        return ("declared", type(e).__name__)
    except Exception as e:
        return ("raise", type(e).__name__)


def observe(v):
    return {"errors": canon_errors([real_error(e) for e in v._errors]),
            "doc": common.canon_val(common.jval(v.document)) if v.document is not None else None,
            "dt": dump_tree(v.document_error_tree), "st": dump_tree(v.schema_error_tree),
            "rendered": common.canon_val(common.jval(v.errors)) if True else None}


def compare_obs(a, b):
    for k in ("errors", "doc", "rendered"):
        if a[k] != b[k]:
            return "%s differ: used %r fresh %r" % (k, str(a[k])[:200], str(b[k])[:200])
    for k in ("dt", "st"):
        d = diff_tree(a[k], b[k])
        if d:
            return "%s tree differs: %s" % ("document" if k == "dt" else "schema", d)
    return None


def history_oracle(schema, cfg, history, probe):
    used = pool.PoolValidator(copy.deepcopy(schema), **copy.deepcopy(cfg))
    in_force = schema
    for call in history:
        out = do_call(used, call)
        if out[0] == "raise":
            return None, "skip"
        if call[3] is not None and out[0] != "declared":
            in_force = call[3]          # a per-call schema replaces the validator's schema, as documented
        elif call[3] is not None and out == ("declared", "DocumentError"):
            in_force = call[3]
    # the reference is really fresh: nothing the used instance submitted is remembered on its behalf (the class-level cache of
    # validated schemas is part of "what was processed before")
    a = do_call(used, probe)
    pool.PoolValidator.clear_caches()
    cerberus.Validator.clear_caches()
    if probe[3] is not None:
        # the probe brings its own schema: the reference is a validator that never held one
        fresh = pool.PoolValidator(**copy.deepcopy(cfg))
    else:
        fresh = pool.PoolValidator(copy.deepcopy(in_force), **copy.deepcopy(cfg))
    b = do_call(fresh, probe)
    if a[0] == "raise" or b[0] == "raise":
        return None, "skip"
    if a != b:
        return "probe result differs: used %r fresh %r" % (a, b), None
    return compare_obs(observe(used), observe(fresh)), None


def gen_call(g, schema, alt_schemas):
    r = g.r
    api = r.choice(["validate", "validate", "validate", "validated", "normalized", "errors"])
    if api == "errors":
        return ("errors", None, {}, None)      # reading the rendered errors is part of a history too
    k = r.random()
    if k < 0.7:
        doc = g.doc_for(schema, p_present=0.7)
    elif k < 0.8:
        doc = g.arbitrary_doc()
    elif k < 0.9:
        doc = r.choice([None, 5, "x", [1]])
    else:
        doc = {}
    kw = {}
    if api != "normalized":
        if r.random() < 0.35:
            kw["update"] = True
        if r.random() < 0.3:
            kw["normalize"] = False
    if r.random() < 0.3:
        kw["always_return_document"] = True if api != "validate" else None
        if kw["always_return_document"] is None:
            del kw["always_return_document"]
    sch = None
    k = r.random()
    if k < 0.12:
        sch = r.choice(alt_schemas)
    elif k < 0.2:
        sch = {"bad": {"type": "nosuchtype"}}      # rejected per-call schema
    return (api, doc, kw, sch)


def twin(schema, r):
    """a schema that compares equal (==) to the given one but is a different schema: True/1, False/0, 1/1.0 in one constraint"""
    paths = []

    def walk(x, path):
        if isinstance(x, dict):
            for k, v in x.items():
                if isinstance(v, bool) or (isinstance(v, int) and k in ('default', 'min', 'max', 'minlength', 'maxlength')):
                    paths.append(path + (k,))
                walk(v, path + (k,))
        elif isinstance(x, list):
            for i, v in enumerate(x):
                walk(v, path + (i,))
    walk(schema, ())
    if not paths:
        return None
    path = r.choice(paths)
    s2 = copy.deepcopy(schema)
    cur = s2
    for k in path[:-1]:
        cur = cur[k]
    v = cur[path[-1]]
    cur[path[-1]] = (1 if v else 0) if isinstance(v, bool) else float(v)
    return s2


def call_json(call):
    return {"api": call[0], "document": common.jval(call[1]), "kwargs": call[2], "schema": common.jval(call[3]) if call[3] is not None else None}


def run(ctx):
    thorough = ctx["tier"] == "thorough"
    n = 12000 if thorough else 700 * ctx.get('scale', 1)
    g = Gen(ctx["seed"] + 77, normalization=True)
    violations, samples = [], []
    dist = collections.Counter()
    checked = 0
    for i in range(n):
        schema = g.schema()
        cfg = g.config()
        try:
            pool.PoolValidator(copy.deepcopy(schema), **copy.deepcopy(cfg))
        except Exception:
            dist["schema_rejected"] += 1
            continue
        alts = []
        for _ in range(2):
            s2 = g.schema()
            try:
                pool.PoolValidator(copy.deepcopy(s2), **copy.deepcopy(cfg))
                alts.append(s2)
            except Exception:
                pass
        alts = alts or [schema]
        history = [gen_call(g, schema, alts) for _ in range(g.r.randrange(1, 7))]
        probe = gen_call(g, schema, alts)
        while probe[0] == "errors":            # the probe is a processing call
            probe = gen_call(g, schema, alts)
        probe = (probe[0], probe[1], probe[2], None)
        if g.r.random() < 0.3:
            # the probe brings its own schema: one seen before, the validator's own, or a twin (equal under ==, different types)
            cands = [schema] + alts + [c[3] for c in history if c[3] is not None]
            base = g.r.choice(cands)
            tw = twin(base, g.r) if g.r.random() < 0.6 else None
            probe = (probe[0], g.doc_for(base, p_present=0.7), probe[2], tw or base)
            dist["probe_with_schema" + ("_twin" if tw else "")] += 1
            # ... or a rule set that one of these schemas holds in a bulk position (valuesrules, items, ...), offered as a schema
            import positions
            bulk = [rs for pth, kd, rs in positions.rule_sets(base) if kd in ('valuesrules', 'keysrules', 'items', 'list-schema', 'allow_unknown-rule')
                    and isinstance(rs, dict) and rs]
            if bulk and g.r.random() < 0.35:
                probe = (probe[0], {}, probe[2], copy.deepcopy(g.r.choice(bulk)))
                dist["probe_with_bulk_rule_set_as_schema"] += 1
        d, skip = history_oracle(schema, cfg, history, probe)
        if skip:
            dist["skipped_raise"] += 1
            continue
        checked += 1
        dist["history_len_%d" % len(history)] += 1
        for c in history:
            dist["call_" + c[0] + ("_update" if c[2].get("update") else "") + ("_nonorm" if c[2].get("normalize") is False else "")
                 + ("_schema" if c[3] is not None else "")] += 1
        if d:
            # shrink the history
            h = list(history)
            changed = True
            while changed and len(h) > 1:
                changed = False
                for j in range(len(h)):
                    h2 = h[:j] + h[j + 1:]
                    d2, sk = history_oracle(schema, cfg, h2, probe)
                    if d2 and not sk:
                        h, d, changed = h2, d2, True
                        break
            violations.append({"signature": "history:" + d.split(" ")[0], "what": d,
                               "replay": {"schema": common.jval(schema), "config": common.jval(cfg),
                                          "history": [call_json(c) for c in h], "probe": call_json(probe)}})
        if i == 3:
            samples.append({"schema": common.jval(schema), "config": common.jval(cfg),
                            "history": [call_json(c) for c in history], "probe": call_json(probe)})
    # container-valued defaults: the schema's own object enters the document; whatever normalizes it afterwards (keysrules,
    # valuesrules, schema, items -- at the root or in a child validator) must not write into the schema
    mutable = 0
    r = g.r
    for i in range(n // 3):
        kind = r.choice(['keysrules', 'valuesrules', 'dict-schema', 'list-schema', 'items', 'keys+values'])
        kc = r.choice(['prefix_x', 'to_str', 'prefix_x'])
        vc = r.choice(['inc', 'wrap', 'prefix_x', 'to_str'])
        if kind == 'keysrules':
            rules = {'type': 'dict', 'default': {'k': 1, 'l': 2}, 'keysrules': {'coerce': kc}}
        elif kind == 'valuesrules':
            rules = {'type': 'dict', 'default': {'k': 1, 'l': 'v'}, 'valuesrules': {'coerce': vc}}
        elif kind == 'keys+values':
            rules = {'type': 'dict', 'default': {'k': 1, 7: 'v'}, 'keysrules': {'coerce': kc}, 'valuesrules': {'coerce': vc}}
        elif kind == 'dict-schema':
            rules = {'type': 'dict', 'default': {'k': 1, 'm': {'p': 1}},
                     'schema': {'k': r.choice([{'coerce': vc}, {'rename': 'n1'}, {'rename_handler': 'prefix_x'}]), 'z': {'default': [1]},
                                'm': {'type': 'dict', 'keysrules': {'coerce': kc}}}}
            if r.random() < 0.4:
                rules['purge_unknown'] = True
                rules['default']['q'] = 1
        elif kind == 'list-schema':
            rules = {'type': 'list', 'default': [1, {'k': 1}], 'schema': r.choice([{'coerce': vc}, {'keysrules': {'coerce': kc}}, {'valuesrules': {'coerce': vc}}])}
        else:
            rules = {'type': 'list', 'default': [1, {'k': 1}], 'items': [{'coerce': vc}, {'type': 'dict', 'keysrules': {'coerce': kc}}]}
        where = r.choice(['root', 'dict-schema', 'list-of-dicts', 'valuesrules', 'items', 'unknown', 'deep'])
        cfg = {}
        if where == 'root':
            schema, doc = {'f': rules, 'o': {}}, {'o': 1}
        elif where == 'dict-schema':
            schema, doc = {'s': {'type': 'dict', 'schema': {'f': rules, 'o': {}}}}, {'s': {'o': 1}}
        elif where == 'list-of-dicts':
            schema, doc = {'s': {'type': 'list', 'schema': {'type': 'dict', 'schema': {'f': rules}}}}, {'s': [{}, {}]}
        elif where == 'valuesrules':
            schema, doc = {'s': {'type': 'dict', 'valuesrules': {'type': 'dict', 'schema': {'f': rules}}}}, {'s': {'a': {}}}
        elif where == 'items':
            schema, doc = {'s': {'type': 'list', 'items': [{'type': 'dict', 'schema': {'f': rules}}]}}, {'s': [{}]}
        elif where == 'unknown':
            cfg = {'allow_unknown': {'type': 'dict', 'schema': {'f': rules}}}
            schema, doc = {'o': {}}, {'u': {}}
        else:
            schema, doc = {'s': {'type': 'dict', 'schema': {'t': {'type': 'dict', 'schema': {'f': rules}}}}}, {'s': {'t': {}}}
        apis = [("validate", doc, {}, None), ("normalized", doc, {}, None), ("validated", doc, {}, None),
                ("validate", doc, {"update": True}, None)]
        history = [r.choice(apis) for _ in range(r.randrange(1, 4))]
        probe = r.choice(apis)
        d, skip = history_oracle(schema, cfg, history, probe)
        if skip:
            dist["skipped_raise"] += 1
            continue
        mutable += 1
        dist["container_default_%s_at_%s" % (kind, where)] += 1
        if d:
            violations.append({"signature": "history:" + d.split(" ")[0], "what": "(container-valued default, %s at %s) %s" % (kind, where, d),
                               "replay": {"schema": common.jval(schema), "config": common.jval(cfg),
                                          "history": [call_json(c) for c in history], "probe": call_json(probe)}})
    checked += mutable
    # exhaustive histories of length <= 3 over a pool of 8 calls on fixed schemas
    exhaustive = 0
    pool_schema = {'a': {'type': 'integer', 'coerce': 'to_int', 'required': True, 'excludes': 'b'}, 'b': {'readonly': True, 'default': 1},
                   'c': {'type': 'dict', 'schema': {'x': {'default_setter': 'rd_y'}, 'y': {'type': 'integer', 'default': 3}}},
                   'd': {'required': True, 'excludes': 'a'}}
    calls = [("validate", {'a': '1', 'c': {}}, {}, None), ("validate", {'a': 'x', 'b': 2}, {"update": True}, None),
             ("validate", {'b': 2, 'c': {'x': 1}}, {"normalize": False}, None), ("validated", {'a': 1, 'd': 2}, {}, None),
             ("normalized", {'a': '2'}, {}, None), ("validate", None, {}, None), ("validate", {'a': 1}, {}, {"bad": {"type": "nosuchtype"}}),
             ("validate", {'q': 1}, {"update": True}, {'q': {'type': 'string'}}),
             ("validate", {'q': None}, {}, {'q': {'type': 'string', 'nullable': True, 'default': 1}})]
    # probes: the first five calls, and two per-call schemas that are twins (==, other types) of one used in the history
    calls.append(("errors", None, {}, None))
    probes = calls[:5] + [("validate", None, {}, None), ("validate", {'a': 1}, {}, {"bad": {"type": "nosuchtype"}}), ("validate", {'q': None}, {}, {'q': {'type': 'string', 'nullable': 1, 'default': 1}}),
                          ("validate", {}, {}, {'q': {'type': 'string', 'nullable': True, 'default': 1.0}})]
    maxlen = 3 if (thorough or ctx.get('searching')) else 2
    for L in range(1, maxlen + 1):
        for hist in itertools.product(range(len(calls)), repeat=L):
            for p in range(len(probes)):
                d, skip = history_oracle(pool_schema, {}, [calls[i] for i in hist], probes[p])
                exhaustive += 1
                if d and not skip:
                    violations.append({"signature": "history:" + d.split(" ")[0], "what": d,
                                       "replay": {"schema": common.jval(pool_schema), "config": {"d": []},
                                                  "history": [call_json(calls[i]) for i in hist], "probe": call_json(probes[p])}})
    dist["exhaustive_histories"] = exhaustive
    return {"violations": violations, "cases": checked + exhaustive, "nontrivial": checked + exhaustive, "model_cases": 0,
            "disagreements_checked": 0, "samples": samples, "distribution": dict(dist),
            "rule": "container-valued defaults (the schema's own object enters the document) normalized by keysrules / valuesrules / schema / items at the root "
                    "and in every kind of child validator, processed 2-4 times on one instance; random histories of 1-6 calls (validate/validated/normalized, mixed update/normalize flags, valid and invalid documents, None and "
                    "non-mapping documents, accepted and rejected per-call schemas) on one instance followed by a probe, compared with the same probe on a "
                    "fresh instance of the schema in force: result, error keys, both trees node by node, processed document, rendered errors; plus all "
                    "histories of length <= %d over a pool of 10 calls (one of them reading the errors property) x 9 probes (two of them rejected before processing starts, (two of them per-call schemas that are ==-twins of one used before) on a schema with coerce/readonly/excludes/nested default setters. "
                    "Non-trivial = histories that completed without an undeclared exception." % maxlen}


def replay(rp):
    def call(j):
        return (j["api"], common.unjson(j["document"]), j["kwargs"], common.unjson(j["schema"]) if j["schema"] is not None else None)
    print(history_oracle(common.unjson(rp["schema"]), common.unjson(rp["config"]), [call(c) for c in rp["history"]], call(rp["probe"])))
    return 0
