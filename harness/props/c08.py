"""C08 -- the validated-schema cache is never observable except in speed."""
import collections
import copy
import itertools
import json
import random

import common
import pool
import positions
import vrun
from gen import Gen
from common import cerberus
from cerberus import TypeDefinition

LEVEL = "proof"
COQ_FILES = ['theories/Model/Cache.v', 'theories/Proofs/CacheProofs.v', 'theories/Properties/C08.v']
FACT_GROUPS = ['F21']
ALLOWED_AXIOMS = []
TRUSTED_BASE = [
    "Coq 8.16.1 kernel; Print Assumptions: closed under the global context",
    "oracle: every submission history is run twice on the real code, as is (warm) and with all caches cleared before each submission (cold)",
]
ASSUMPTIONS = ["none beyond the generated families (the cache holds the frozen structures themselves since df705fe: no assumption on hash collisions)"]


class SubRule(pool.PoolValidator):
    def _validate_is_odd(self, constraint, field, value):
        """{'type': 'boolean'}"""
        if constraint and isinstance(value, int) and not value % 2:
            self._error(field, "not odd")

    def _validate_offsets(self, constraint, field, value):
        """{'type': 'list', 'schema': {'type': 'integer'}}"""

    def _validate_offset(self, constraint, field, value):
        """{'type': 'integer', 'min': -1}"""


class SubType(pool.PoolValidator):
    types_mapping = pool.PoolValidator.types_mapping.copy()
    types_mapping['tiny'] = TypeDefinition('tiny', (int,), (bool,))


CLASSES = {"Validator": cerberus.Validator, "PoolValidator": pool.PoolValidator, "SubRule": SubRule, "SubType": SubType}


def clear_all():
    for c in CLASSES.values():
        c.clear_caches()


def submit(cls_name, entry, schema, doc, tag=None, registries=None):
    """registries: None, or (rules-set definitions, schema definitions, 'bound' | 'module')"""
    cls = CLASSES[cls_name]
    kw = {}
    saved = None
    if registries is not None:
        import refs
        rdefs, sdefs, how = registries
        if how == 'bound':
            kw['rules_set_registry'], kw['schema_registry'] = refs.make_registries(copy.deepcopy(rdefs), copy.deepcopy(sdefs))
        else:
            saved = (dict(cerberus.rules_set_registry.all()), dict(cerberus.schema_registry.all()))
            cerberus.rules_set_registry.clear(); cerberus.schema_registry.clear()
            cerberus.rules_set_registry.extend(copy.deepcopy(rdefs)); cerberus.schema_registry.extend(copy.deepcopy(sdefs))
    try:
        return _submit(cls, entry, schema, doc, kw)
    finally:
        if saved is not None:
            cerberus.rules_set_registry.clear(); cerberus.schema_registry.clear()
            cerberus.rules_set_registry.extend(saved[0]); cerberus.schema_registry.extend(saved[1])


def _submit(cls, entry, schema, doc, kw):
    try:
        if entry == "constructor":
            v = cls(copy.deepcopy(schema), **kw)
        elif entry == "setter":
            v = cls({}, **kw)
            v.schema = copy.deepcopy(schema)
        elif entry == "validate-arg":
            v = cls({}, **kw)
            v.validate({}, copy.deepcopy(schema))
        elif entry == "update":
            v = cls({}, **kw)
            v.schema.update(copy.deepcopy(schema))
        elif entry == "setitem":
            v = cls({}, **kw)
            for f, r in schema.items():
                v.schema[f] = copy.deepcopy(r)
        else:   # allow_unknown setter: the first field's rules as rule set for unknown fields
            v = cls({}, **kw)
            v.allow_unknown = copy.deepcopy(next(iter(schema.values()), {})) or True
    except cerberus.SchemaError:
        return "rejected"
    except Exception as e:
        return "raise:" + type(e).__name__
    try:
        ok = v.validate(copy.deepcopy(doc))
        return ("accepted", ok, sorted(repr(e.document_path) + hex(e.code) for e in v._errors))
    except Exception as e:
        return ("accepted", "raise:" + type(e).__name__)


class separate_logical_tag:
    """Attribution of a discrepancy to the recorded finding 'bulk rule sets and *of definitions share one cache tag':
    the CURRENT source of SchemaValidatorMixin._validate_logical is re-compiled with the single change of its cache tag
    ({'turing': ...} -> {'logical': ...}, the 1-line repair that the unedited test-suite rules out); a discrepancy that
    disappears under it is that finding, any other is not.  If the source no longer has the tag expression, nothing is attributed."""

    def __enter__(self):
        import inspect
        import textwrap
        from cerberus import schema as S
        self.S, self.old, self.ok = S, S.SchemaValidatorMixin.__dict__.get('_validate_logical'), False
        try:
            src = textwrap.dedent(inspect.getsource(self.old))
        except Exception:
            return self
        needle = "mapping_hash({'turing': constraints})"
        if src.count(needle) != 1:
            return self
        ns = {}
        exec(compile(src.replace(needle, "mapping_hash({'logical': constraints})"), S.__file__, 'exec'), S.__dict__, ns)
        S.SchemaValidatorMixin._validate_logical = ns['_validate_logical']
        self.ok = True
        return self

    def __exit__(self, *a):
        self.S.SchemaValidatorMixin._validate_logical = self.old
        clear_all()


def run_history(history, cold):
    clear_all()
    out = []
    for step in history:
        if step == "clear":
            clear_all()
            out.append("clear")
            continue
        if cold:
            clear_all()
        out.append(submit(*step[:6]))
    return out


def twins(g, rng):
    """schema families designed to collide in a careless cache key"""
    fam = []
    # type twins: equal constraints of different Python types
    for rule, vals in (('required', [True, 1, 1.0]), ('nullable', [False, 0, 0.0]), ('minlength', [1, True, 1.0]), ('readonly', [True, 1]),
                       ('empty', [False, 0]), ('maxlength', [0, False])):
        for v in vals:
            fam.append(({'a': {rule: v}}, 'type-twin'))
            fam.append(({'a': {'type': 'dict', 'valuesrules': {rule: v}}}, 'type-twin'))
            fam.append(({'a': {'anyof': [{rule: v}]}}, 'type-twin'))
    # string twins: a string constraint and the list of its characters
    for rule, val in (('type', 'string'), ('type', 'dict'), ('regex', 'ab'), ('rename', 'ab'), ('check_with', 'even')):
        for v in (val, list(val), tuple(val)):
            fam.append(({'a': {rule: v}}, 'type-twin'))
            fam.append(({'a': {'type': 'dict', 'valuesrules': {rule: v}}} if rule != 'type' else {'a': {'valuesrules': {rule: v}}}, 'type-twin'))
            fam.append(({'a': {'anyof': [{rule: v}]}} if rule != 'rename' else {'a': {'type': 'list', 'schema': {rule: v}}}, 'type-twin'))
    # member twins: a tuple (hashable) and a list (not hashable) as MEMBER of a constraint that wants hashables
    for rule, members in (('excludes', ('a', 'b')), ('dependencies', ('a',)), ('contains', (1, 2))):
        for v in ([tuple(members)], [list(members)]):
            fam.append(({'a': {rule: v}}, 'type-twin'))
            fam.append(({'a': {'type': 'dict', 'valuesrules': {rule: v}}}, 'type-twin'))
    # empty-container twins: {} / set() / [] / () / '' as constraint
    for rule in ('schema', 'allowed', 'items', 'forbidden', 'dependencies'):
        for v in ({}, set(), [], (), ''):
            fam.append(({'a': {rule: v}}, 'type-twin'))
            fam.append(({'a': {'type': 'dict', 'valuesrules': {rule: v}}}, 'type-twin'))
    # context twins: the same rule set as bulk rule set, as *of definition, as field rules
    for rs in ({'default': 1}, {'coerce': 'to_int'}, {'rename': 'q'}, {'type': 'integer', 'default_setter': 'const5'}, {'purge_unknown': True},
               {'type': 'integer'}, {'min': 1, 'max': 2}):
        fam.append(({'a': {'type': 'dict', 'valuesrules': copy.deepcopy(rs)}}, 'context-twin'))
        fam.append(({'a': {'type': 'list', 'schema': copy.deepcopy(rs)}}, 'context-twin'))
        fam.append(({'a': {'type': 'list', 'items': [copy.deepcopy(rs)]}}, 'context-twin'))
        fam.append(({'a': {'anyof': [copy.deepcopy(rs)]}}, 'context-twin'))
        fam.append(({'a': {'oneof': [{'type': 'integer'}, copy.deepcopy(rs)]}}, 'context-twin'))
        fam.append(({'a': copy.deepcopy(rs)}, 'context-twin'))
        fam.append(({'turing': copy.deepcopy(rs)}, 'context-twin'))
    # a mapping that is a valid `schema` constraint (field -> rules) and, as a rules set, is not: field names are no rules
    for sub in ({'name': {'type': 'string'}}, {'x': {'type': 'integer'}, 'y': {'type': 'integer'}}):
        fam.append(({'a': {'type': 'dict', 'schema': copy.deepcopy(sub)}}, 'context-twin-schema'))
        fam.append(({'a': {'type': 'list', 'schema': {'type': 'dict', 'schema': copy.deepcopy(sub)}}}, 'context-twin-schema'))
        fam.append(({'a': {'type': 'dict', 'valuesrules': copy.deepcopy(sub)}}, 'context-twin-schema'))
        fam.append(({'a': {'type': 'dict', 'keysrules': copy.deepcopy(sub)}}, 'context-twin-schema'))
        fam.append(({'a': {'type': 'list', 'items': [copy.deepcopy(sub)]}}, 'context-twin-schema'))
        fam.append(({'a': {'anyof': [copy.deepcopy(sub)]}}, 'context-twin-schema'))
        fam.append(({'a': {'type': 'dict', 'allow_unknown': copy.deepcopy(sub)}}, 'context-twin-schema'))
    # a corrupted definition after a valid one that may already be cached
    for op in ('anyof', 'allof', 'noneof', 'oneof'):
        for good in ({'type': 'integer'}, {'min': 1, 'max': 2}):
            fam.append(({'a': {op: [copy.deepcopy(good)]}}, 'of-tail'))
            fam.append(({'a': {op: [copy.deepcopy(good), {'nosuchrule': 1}]}}, 'of-tail'))
            fam.append(({'a': {op: [copy.deepcopy(good), {'type': 'nosuchtype'}]}}, 'of-tail'))
            fam.append(({'a': {'type': 'list', 'schema': {op: [copy.deepcopy(good), {'required': 'yes'}]}}}, 'of-tail'))
    # scalars as MEMBERS of a sequence constraint whose members are typed (a custom rule of SubRule), and scalars that hash alike
    for v in ([1], [1.0], [True], [1, 2], [1, 2.0], (1,), (1.0,)):
        fam.append(({'a': {'offsets': v}}, 'typed-member'))
        fam.append(({'a': {'type': 'dict', 'valuesrules': {'offsets': v}}}, 'typed-member'))
    for v in (-1, -2, -1.0, 0):
        fam.append(({'a': {'offset': v}}, 'typed-member'))
        fam.append(({'a': {'anyof': [{'offset': v}]}}, 'typed-member'))
    # subclass-only rules and types
    fam.append(({'a': {'is_odd': True}}, 'subclass-only'))
    fam.append(({'a': {'type': 'list', 'schema': {'is_odd': True}}}, 'subclass-only'))
    fam.append(({'a': {'type': 'tiny'}}, 'subclass-only'))
    fam.append(({'a': {'anyof': [{'type': 'tiny'}, {'type': 'string'}]}}, 'subclass-only'))
    fam.append(({'a': {'type': 'dict', 'valuesrules': {'type': 'tiny'}}}, 'subclass-only'))
    return fam


def same_shape(a, b):
    """equal up to the leaf constraint: same keys along the way (the leaves may be 1 / True / 1.0 or 'ab' / ['a', 'b'])"""
    if isinstance(a, dict) and isinstance(b, dict):
        return list(a) == list(b) and all(same_shape(a[k], b[k]) for k in a)
    if isinstance(a, dict) or isinstance(b, dict):
        return False
    if isinstance(a, list) and isinstance(b, list) and len(a) == len(b) and any(isinstance(x, dict) for x in a + b):
        return all(same_shape(x, y) for x, y in zip(a, b))
    return True


def run(ctx):
    thorough = ctx["tier"] == "thorough"
    rng = random.Random(ctx["seed"] + 8)
    g = Gen(ctx["seed"] + 80, normalization=True)
    pool_schemas = twins(g, rng)
    import props.c04 as c04
    for i in range(40 if not thorough else 120):
        s = g.schema()
        pool_schemas.append((s, 'plain'))
        for kind, pkind, bad in c04.corruptions(s, rng, 1):
            pool_schemas.append((bad, 'corrupt'))
    violations, samples = [], []
    dist = collections.Counter()
    cases = 0
    entries = ["constructor", "constructor", "setter", "validate-arg", "update", "setitem", "allow_unknown"]
    doc = {'a': 1}

    def check(history):
        nonlocal cases
        warm, cold = run_history(history, False), run_history(history, True)
        cases += 1
        for i, (w, c) in enumerate(zip(warm, cold)):
            if w != c:
                step = history[i]
                # minimise: find the shortest prefix-subsequence that still shows it
                keep = [h for h in history[:i]]
                changed = True
                while changed and keep:
                    changed = False
                    for j in range(len(keep)):
                        h2 = keep[:j] + keep[j + 1:] + [step]
                        if run_history(h2, False)[-1] != run_history(h2, True)[-1]:
                            keep = keep[:j] + keep[j + 1:]
                            changed = True
                            break
                tag = step[4]
                prev_tags = sorted({h[4] for h in keep if h != "clear"})
                if tag != 'context-twin':
                    with separate_logical_tag() as patch:
                        if patch.ok and run_history(keep + [step], False)[-1] == run_history(keep + [step], True)[-1]:
                            tag = 'context-twin'      # the recorded tag conflation, reached through another schema
                violations.append({"signature": "warm-vs-cold:%s" % tag,
                                   "what": "submission %d (%s %s, %s): warm %r, with the cache cleared just before %r; earlier submissions: %s" % (
                                       i, step[0], step[1], tag, w, c, prev_tags),
                                   "replay": {"history": [h if h == "clear" else [h[0], h[1], common.jval(h[2]), common.jval(h[3]), h[4]] + (
                                       [[common.jval(h[5][0]), common.jval(h[5][1]), h[5][2]]] if len(h) > 5 else []) for h in keep + [step]]}})
                return

    # random histories
    for i in range(6000 if thorough else 500 * ctx.get('scale', 1)):
        L = rng.randrange(2, 6)
        history = []
        base = rng.choice(pool_schemas)
        for _ in range(L):
            if rng.random() < 0.1:
                history.append("clear")
                continue
            s, tag = rng.choice(pool_schemas) if rng.random() < 0.5 else rng.choice([p for p in pool_schemas if p[1] == base[1]])
            history.append((rng.choice(list(CLASSES)), rng.choice(entries), s, doc, tag))
        for h in history:
            if h != "clear":
                dist["tag_" + h[4]] += 1
                dist["entry_" + h[1]] += 1
                dist["class_" + h[0]] += 1
        check(history)
    # systematically: every ordered pair of type-twins, on one class
    tt = [p for p in pool_schemas if p[1] == 'type-twin']
    for cname in ("Validator", "SubRule"):
        for a in tt:
            for b in tt:
                if a is b or repr(a[0]) == repr(b[0]):       # (repr, not JSON: a tuple and a list are different twins)
                    continue
                # same rule, same position: only the Python type of the constraint differs
                ka, kb = json.dumps(common.jval(a[0]), default=repr), json.dumps(common.jval(b[0]), default=repr)
                if len(ka) > 80 or abs(len(ka) - len(kb)) > 40:
                    continue
                if not same_shape(a[0], b[0]):
                    continue
                check([(cname, "constructor", a[0], doc, a[1]), (cname, "constructor", b[0], doc, b[1])])
                dist["type_twin_pairs"] += 1
    # systematically: every ordered pair of the schema-vs-rules-set twins
    cts = [p for p in pool_schemas if p[1] == 'context-twin-schema']
    for a in cts:
        for b in cts:
            if a is not b:
                check([("Validator", "constructor", a[0], doc, a[1]), ("Validator", "constructor", b[0], doc, b[1])])
                dist["schema_twin_pairs"] += 1
    # systematically: a schema only a subclass accepts, submitted by that subclass first and by every other class afterwards
    so = [p for p in pool_schemas if p[1] == 'subclass-only']
    for sch, tag in so:
        for first in ("SubRule", "SubType"):
            for second in CLASSES:
                if second != first:
                    for entry in ("constructor", "setter", "update"):
                        check([(first, "constructor", sch, doc, tag), (second, entry, sch, doc, tag)])
                        dist["subclass_then_other_class"] += 1
    # systematically: a rule set in one of the documented shorthand spellings, submitted as a field's rules and nested in
    # every container position, through every pair of entry points, in both orders (what is cached must be the expanded form)
    raws = [{'allow unknown': True}, {'type': 'dict', 'require all': True}, {'purge unknown': True}, {'anyof_type': ['integer', 'string']},
            {'keyschema': {'type': 'string'}}, {'type': 'dict', 'valueschema': {'type': 'integer'}}]
    wrappers = [lambda R: {'o': {'type': 'dict', 'schema': {'f': R}}}, lambda R: {'o': {'valuesrules': R}}, lambda R: {'o': {'anyof': [R, {'type': 'integer'}]}},
                lambda R: {'o': {'type': 'list', 'items': [R]}}, lambda R: {'o': {'type': 'list', 'schema': R}}, lambda R: {'o': {'allow_unknown': R}}]
    eps = ["constructor", "setter", "validate-arg", "update", "setitem", "allow_unknown"]
    for R0 in raws:
        for w in wrappers:
            for e1 in eps:
                for e2 in (eps if thorough else rng.sample(eps, 3)):
                    # the rule set as a dict and as another kind of Mapping (UserDict is no dict subclass); on one class, and across classes
                    for kind, cls2 in ((dict, "Validator"), (rng.choice([collections.UserDict, collections.OrderedDict]), rng.choice(["Validator", "SubRule"]))):
                        R = kind(copy.deepcopy(R0))
                        first = ("Validator", e1, {'f': copy.deepcopy(R)}, doc, 'spelling-twin' + ('' if kind is dict else ':' + kind.__name__))
                        second = (cls2, e2, w(copy.deepcopy(R)), doc, first[4])
                        check([first, second])
                        check([second, first])
                        dist["spelling_twin_pairs"] += 2
    # systematically: typed members / hash-alike scalars, every ordered pair on the class that knows the rules
    tm = [p for p in pool_schemas if p[1] == 'typed-member']
    for a in tm:
        for b in tm:
            if a is not b and same_shape(a[0], b[0]):
                check([("SubRule", "constructor", a[0], doc, a[1]), ("SubRule", rng.choice(["constructor", "setter", "update"]), b[0], doc, b[1])])
                dist["typed_member_pairs"] += 1
    # systematically: one schema holding references, submitted under registries that give the names different meanings
    # (validator-bound or module-level; a valid definition, an ill-formed one, another valid one, none at all)
    ref_schemas = [{'a': 'r'}, {'a': {'type': 'dict', 'valuesrules': 'r'}}, {'a': {'type': 'dict', 'schema': {'x': 'r'}}},
                   {'a': {'type': 'list', 'schema': 'r'}}, {'a': {'type': 'list', 'items': ['r']}}, {'a': {'anyof': [{'type': 'dict', 'keysrules': 'r'}]}},
                   {'a': {'type': 'dict', 'schema': 's'}}, {'a': {'type': 'list', 'schema': {'type': 'dict', 'schema': 's'}}},
                   {'a': {'type': 'dict', 'allow_unknown': 'r'}},
                   {'a': {'type': 'dict', 'valuesrules': 'r'}, 'b': {'type': 'dict', 'schema': {'c': {'type': 'dict', 'valuesrules': 'r'}}}}]
    worlds = [({'r': {'type': 'string'}}, {'s': {'x': {'type': 'string'}}}), ({'r': {'type': 'strin'}}, {'s': {'x': {'type': 'strin'}}}),
              ({'r': {'type': 'integer', 'min': 1}}, {'s': {'x': 'r'}}), ({}, {}), ({'r': {'nosuchrule': 1}}, {'s': {'x': {'required': 'yes'}}})]
    rdoc = {'a': {'x': 'v'}}
    for s in ref_schemas:
        for w1 in worlds:
            for w2 in worlds:
                if w1 is w2:
                    continue
                for how in (('bound', 'module') if thorough else (rng.choice(['bound', 'module']),)):
                    e1, e2 = rng.choice(eps[:5]), rng.choice(eps[:5])
                    check([("Validator", e1, s, rdoc, 'registry-world', w1 + (how,)), ("Validator", e2, s, rdoc, 'registry-world', w2 + (how,))])
                    dist["registry_world_pairs"] += 1
    # all ordered pairs of the twin families through the constructor, per class pair
    tw = [p for p in pool_schemas if p[1] != 'plain' and p[1] != 'corrupt']
    pairs = list(itertools.permutations(range(len(tw)), 2))
    if not thorough:
        pairs = rng.sample(pairs, 1500)
    for a, b in pairs:
        ca, cb = rng.choice(list(CLASSES)), rng.choice(list(CLASSES))
        check([(ca, "constructor", tw[a][0], doc, tw[a][1]), (cb, "constructor", tw[b][0], doc, tw[b][1])])
        dist["ordered_pairs"] += 1
    samples.append({"history": [["SubRule", "constructor", {"d": [["a", {"d": [["is_odd", True]]}]]}], ["Validator", "constructor", {"d": [["a", {"d": [["is_odd", True]]}]]}]]})
    return {"violations": violations, "cases": cases, "nontrivial": cases, "model_cases": 0, "disagreements_checked": 0,
            "samples": samples, "distribution": dict(dist), "exhaustive": thorough,
            "rule": "submission histories over Validator, PoolValidator and two subclasses (extra rule / extra type): valid schemas, single-point corruptions, "
                    "type-twins (equal constraints of different Python types), context-twins (one rule set as bulk rule set / *of definition / field rules / "
                    "under the key 'turing'), spelling-twins (a shorthand-spelled rule set as field rules and nested in every container position), subclass-only schemas, interleaved with clear_caches(), through constructor, schema setter, per-call schema, "
                    "update, item assignment and the allow_unknown setter; each history run warm and cold (caches cleared before every submission) and "
                    "compared on acceptance and on a probe validation; %s ordered pairs of the twin families. Every history is distinct by construction." % (
                        "all" if thorough else "1500 sampled")}


def replay(rp):
    hist = [h if h == "clear" else (h[0], h[1], common.unjson(h[2]), common.unjson(h[3]), h[4]) + (
        ((common.unjson(h[5][0]), common.unjson(h[5][1]), h[5][2]),) if len(h) > 5 else ()) for h in rp["history"]]
    print(run_history(hist, False)); print(run_history(hist, True))
    return 0
