"""C09 -- *of-rules decide by the number of definitions that validate."""
import json
import oracles
import vrun
from common import canon_errors
from props import _vfamily

LEVEL = "proof"
import vrun as _vrun_refs
_vrun_refs.P_REFS = 0.15      # some generated schemas carry registry references (validator-bound registries)
COQ_FILES = ['theories/Model/Validate.v', 'theories/Model/FactsOk.v', 'theories/Proofs/OfProofs.v', 'theories/Properties/C09.v']
FACT_GROUPS = ["F3", "F5", "F6", "F8"]
ALLOWED_AXIOMS = []
TRUSTED_BASE = _vfamily.BASE_TRUSTED
ASSUMPTIONS = _vfamily.BASE_ASSUMPTIONS + [
    "recount oracle: *of rules on fields reachable through dict-schema nesting; definitions with root-relative (^) dependencies in "
    "sub-documents are skipped by the oracle (covered by the model diff)"]


def of_errors(errs):
    out = []
    for e in errs:
        if e["code"] in (0x91, 0x92, 0x93, 0x94):
            out.append(e)
        out.extend(of_errors(e["ch"]))
    return out


def model_compare(c, which):
    r, m = c["real"], c[which]
    if r["r"] != "ok" or m["r"] != "ok":
        return None
    a, b = canon_errors(of_errors(r["errors"])), canon_errors(of_errors(m["errors"]))
    if a != b:
        return "*of errors differ: only real %r; only model %r" % (sorted(set(a) - set(b))[:1], sorted(set(b) - set(a))[:1])
    return None


def oracle(c, v):
    return oracles.c09_oracle(c["schema"], c["config"], c["document"], c["update"], v._errors)


def has_of(c, v):
    return any(k in json.dumps(c["schema"], default=str) for k in ('anyof', 'allof', 'noneof', 'oneof'))


def run(ctx):
    return _vfamily.run_family(ctx, oracle, lambda d: "recount:" + d.split(" at ")[0][:20], model_compare, nontrivial=has_of,
                               rule="generated schemas with 0-3 definitions per *of rule (also nested in each other and in schema/items/"
                                    "valuesrules); recount oracle: each definition validated on its own by a fresh validator with inherited "
                                    "type/allow_unknown, same document/options/update; compared with error.info counts and definitions_errors; "
                                    "plus Spec/Impl model diff restricted to *of errors. Non-trivial = distinct cases whose schema has an *of rule.")


def replay(rp):
    c = vrun.case_from_json(rp)
    r = vrun.real_validate(c["schema"], c["config"], c["document"], c["update"], want_validator=True)
    print(oracle(c, r["validator"]) if r["r"] == "ok" else r)
    return 0
