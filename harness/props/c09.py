"""C09 -- *of-rules decide by the number of definitions that validate."""
import json
import oracles
import vrun
from common import canon_errors
from props import _vfamily

LEVEL = "proof"
import vrun as _vrun_refs
_vrun_refs.P_REFS = 0.15      # some generated schemas carry registry references (validator-bound registries)
COQ_FILES = ['theories/Model/Validate.v', 'theories/Model/FactsOk.v', 'theories/Proofs/OfProofs.v', 'theories/Properties/C09.v']
FACT_GROUPS = ["F3", "F5", "F6", "F8"]
ALLOWED_AXIOMS = []
TRUSTED_BASE = _vfamily.BASE_TRUSTED
ASSUMPTIONS = _vfamily.BASE_ASSUMPTIONS + [
    "recount oracle: *of rules on fields reachable through dict-schema nesting; definitions with root-relative (^) dependencies in "
    "sub-documents are skipped by the oracle (covered by the model diff)"]


def of_errors(errs):
    out = []
    for e in errs:
        if e["code"] in (0x91, 0x92, 0x93, 0x94):
            out.append(e)
        out.extend(of_errors(e["ch"]))
    return out


def model_compare(c, which):
    r, m = c["real"], c[which]
    if r["r"] != "ok" or m["r"] != "ok":
        return None
    a, b = canon_errors(of_errors(r["errors"])), canon_errors(of_errors(m["errors"]))
    if a != b:
        return "*of errors differ: only real %r; only model %r" % (sorted(set(a) - set(b))[:1], sorted(set(b) - set(a))[:1])
    return None


def oracle(c, v):
    return oracles.c09_oracle(c["schema"], c["config"], c["document"], c["update"], v._errors)


def has_of(c, v):
    return any(k in json.dumps(c["schema"], default=str) for k in ('anyof', 'allof', 'noneof', 'oneof'))


def directed(ctx, n):
    """*of definitions that reach a mapping's sub-schema through containers (list `schema`, `items`, `valuesrules`, dict `schema`), on
    documents whose innermost mappings carry unknown keys, under every kind of allow_unknown at the validator, field and definition level"""
    import random
    r = random.Random(ctx["seed"] + 909)
    out = []
    for i in range(max(150, n // 10)):
        chain = [r.choice(['list', 'items', 'values', 'dict']) for _ in range(r.randrange(0, 3))]

        def base():
            b = {'type': 'dict', 'schema': {k: {'type': r.choice(['integer', 'string'])} for k in r.sample(['a', 'b', 'c'], r.randrange(1, 3))}}
            k = r.random()
            if k < 0.2:
                b['allow_unknown'] = r.choice([True, False])
            elif k < 0.3:
                b['allow_unknown'] = {'type': 'integer'}
            return b

        def wrap(inner):
            for c in reversed(chain):
                if c == 'list':
                    inner = {'type': 'list', 'schema': inner}
                elif c == 'items':
                    inner = {'type': 'list', 'items': [inner]}
                elif c == 'values':
                    inner = {'type': 'dict', 'valuesrules': inner}
                else:
                    inner = {'type': 'dict', 'schema': {'s': inner}}
            return inner

        def value():
            v = {k: r.choice([1, 'v']) for k in r.sample(['a', 'b', 'c', 'zz'], r.randrange(0, 4))}
            for c in reversed(chain):
                if c == 'list':
                    v = [v] if r.random() < 0.6 else [v, {'a': 1, 'q': 2}]
                elif c == 'items':
                    v = [v]
                elif c == 'values':
                    v = {'k': v}
                else:
                    v = {'s': v} if r.random() < 0.7 else {'s': v, 'unk': 1}
            return v
        defs = [wrap(base()) for _ in range(r.randrange(1, 4))]
        rules = {r.choice(['anyof', 'allof', 'noneof', 'oneof']): defs}
        if r.random() < 0.5:
            rules['type'] = defs[0]['type']
            for d in defs:
                if r.random() < 0.5:
                    del d['type']
        k = r.random()
        if k < 0.2:
            rules['allow_unknown'] = r.choice([True, False])
        cfg = {}
        k = r.random()
        if k < 0.25:
            cfg['allow_unknown'] = True
        elif k < 0.4:
            cfg['allow_unknown'] = {'type': r.choice(['integer', 'string'])}
        schema, doc = {'f': rules}, {'f': value()}
        if r.random() < 0.3:
            sub = {'type': 'dict', 'schema': schema}
            if r.random() < 0.4:
                sub['allow_unknown'] = r.choice([True, False])
            schema, doc = {'w': sub}, {'w': doc}
        if r.random() < 0.3:
            doc['other'] = 1
        out.append({"schema": schema, "config": cfg, "document": doc, "update": r.random() < 0.2})
    return out


def run(ctx):
    return _vfamily.run_family(ctx, oracle, lambda d: "recount:" + d.split(" at ")[0][:20], model_compare, nontrivial=has_of, directed=directed,
                               rule="generated schemas with 0-3 definitions per *of rule (also nested in each other and in schema/items/"
                                    "valuesrules); recount oracle: each definition validated on its own by a fresh validator with inherited "
                                    "type/allow_unknown, same document/options/update; compared with error.info counts and definitions_errors; "
                                    "plus a directed family: definitions that reach a mapping's sub-schema through 0-2 containers, unknown keys in the innermost mappings, every "
                                    "kind of allow_unknown at validator / field / definition level; plus Spec/Impl model diff restricted to *of errors. Non-trivial = distinct cases whose schema has an *of rule.")


def replay(rp):
    c = vrun.case_from_json(rp)
    r = vrun.real_validate(c["schema"], c["config"], c["document"], c["update"], want_validator=True)
    print(oracle(c, r["validator"]) if r["r"] == "ok" else r)
    return 0
