"""C10 -- nested validation is compositional and inherits the configuration."""
import json
import common
import random
import oracles
import vrun
from props import _vfamily

LEVEL = "proof"
COQ_FILES = ['theories/Model/Validate.v', 'theories/Proofs/ChildProofs.v', 'theories/Proofs/PathProofs.v', 'theories/Properties/C10.v']
FACT_GROUPS = ["F6"]
ALLOWED_AXIOMS = []
TRUSTED_BASE = _vfamily.BASE_TRUSTED
ASSUMPTIONS = _vfamily.BASE_ASSUMPTIONS + [
    "standalone oracle: sub-documents reachable through dict-schema nesting; item/value rule sets combining excludes with required are skipped "
    "(documented cross-field semantics); root-relative dependencies are checked by a directed family with a known answer"]


def group_errors(errs):
    out = []
    for e in errs:
        if e["code"] in (0x81, 0x82, 0x83, 0x84, 0x8f):
            out.append(e)
        else:
            out.extend(group_errors(e["ch"]))
    return out


def model_compare(c, which):
    from common import canon_errors
    r, m = c["real"], c[which]
    if r["r"] != "ok" or m["r"] != "ok":
        return None
    kw = dict(with_info=False, with_cv=False, with_sp=False)
    a, b = canon_errors(group_errors(r["errors"]), **kw), canon_errors(group_errors(m["errors"]), **kw)
    if a != b:
        return "errors beneath container fields differ: only real %r; only model %r" % (sorted(set(a) - set(b))[:1], sorted(set(b) - set(a))[:1])
    return None


def oracle(c, v):
    return oracles.c10_oracle(c["schema"], c["config"], c["document"], c["update"], v._errors)


def nested(c, v):
    s = json.dumps(c["schema"], default=str)
    return any(k in s for k in ('"schema"', '"items"', '"valuesrules"', '"keysrules"'))


def extra(ctx, res):
    rng = random.Random(ctx["seed"] + 5)
    n = 3000 if ctx["tier"] == "thorough" else 300
    for _ in range(n):
        case, d = oracles.c10_root_oracle(rng)
        res["cases"] += 1
        if d:
            res["violations"].append({"signature": "root-relative", "what": d, "replay": dict(case, config={"d": []}, update=False)})
    res["samples"].append(case)
    res["nontrivial"] += n
    # directed family: a sub-document key named 'dependencies' below a field that has a `dependencies` rule followed by
    # another rule (the rule's closing look-up reads the DOCUMENT error tree with a SCHEMA path)
    import copy
    import cerberus
    for i in range(20 if ctx["tier"] != "thorough" else 200):
        later = rng.choice([('minlength', 5), ('maxlength', 0), ('allowed', [{'x': 1}])])
        sub = {'a': {'type': 'dict', 'schema': {'dependencies': {'type': 'integer'}}, 'dependencies': ['b'], later[0]: later[1]}, 'b': {}}
        doc = {'a': {'dependencies': rng.choice(['x', None, [1]])}, 'b': 1}
        wrap = rng.choice(['dict', 'list'])
        outer = {'f': {'type': 'dict', 'schema': sub}} if wrap == 'dict' else {'f': {'type': 'list', 'schema': {'type': 'dict', 'schema': sub}}}
        odoc = {'f': doc} if wrap == 'dict' else {'f': [doc]}
        alone = cerberus.Validator(copy.deepcopy(sub))
        alone.validate(copy.deepcopy(doc), normalize=False)
        nested = cerberus.Validator(copy.deepcopy(outer))
        nested.validate(copy.deepcopy(odoc), normalize=False)

        def leaves(errs, strip):
            out = []
            for e in errs:
                if e.child_errors and not e.is_logic_error and e.code in (0x81, 0x82):
                    out.extend(leaves(e.child_errors, strip))
                else:
                    out.append((tuple(e.document_path)[strip:], e.code))
            return sorted(out, key=repr)
        a = leaves(alone._errors, 0)
        b = [x for x in leaves(nested._errors, 1 if wrap == 'dict' else 2)]
        res["cases"] += 1
        res["nontrivial"] += 1
        if a != b:
            res["violations"].append({"signature": "standalone:dependencies-look-up",
                                      "what": "sub-document with a key named 'dependencies': validated alone %r, nested %r" % (a, b),
                                      "replay": {"schema": common.jval(outer), "document": common.jval(odoc), "config": {"d": []}, "update": False}})


def run(ctx):
    return _vfamily.run_family(ctx, oracle, lambda d: "standalone:" + d.split("(")[1][:4] if "(" in d else "standalone", model_compare,
                               nontrivial=nested, extra=extra, n_quick=4000,
                               genkws=({"nested_bias": True, "p_update": 0.5, "deps": False}, {"max_depth": 4, "nested_bias": True},
                                       {"of_rules": False, "nested_bias": True, "p_update": 0.5}),
                               rule="generated schemas with containers nested to depth 4, all options at the root and per-field overrides; "
                                    "oracle: every sub-document under schema(dict/list)/items/valuesrules/keysrules re-validated by a fresh validator "
                                    "of the same configuration (overrides applied) and compared with the child errors after stripping the prefix; "
                                    "directed family for ^ dependencies. Non-trivial = distinct cases with a container rule.")


def replay(rp):
    c = vrun.case_from_json(rp)
    r = vrun.real_validate(c["schema"], c["config"], c["document"], c["update"], want_validator=True)
    print(oracle(c, r["validator"]) if r["r"] == "ok" else r)
    return 0
