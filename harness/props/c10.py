"""C10 -- nested validation is compositional and inherits the configuration."""
import json
import common
import random
import oracles
import vrun
from props import _vfamily

LEVEL = "proof"
COQ_FILES = ['theories/Model/Validate.v', 'theories/Proofs/ChildProofs.v', 'theories/Proofs/PathProofs.v', 'theories/Properties/C10.v']
FACT_GROUPS = ["F6"]
ALLOWED_AXIOMS = []
TRUSTED_BASE = _vfamily.BASE_TRUSTED
ASSUMPTIONS = _vfamily.BASE_ASSUMPTIONS + [
    "standalone oracle: sub-documents reachable through dict-schema nesting; item/value rule sets combining excludes with required are skipped "
    "(documented cross-field semantics); root-relative dependencies are checked by a directed family with a known answer"]


def group_errors(errs):
    out = []
    for e in errs:
        if e["code"] in (0x81, 0x82, 0x83, 0x84, 0x8f):
            out.append(e)
        else:
            out.extend(group_errors(e["ch"]))
    return out


def model_compare(c, which):
    from common import canon_errors
    r, m = c["real"], c[which]
    if r["r"] != "ok" or m["r"] != "ok":
        return None
    kw = dict(with_info=False, with_cv=False, with_sp=False)
    a, b = canon_errors(group_errors(r["errors"]), **kw), canon_errors(group_errors(m["errors"]), **kw)
    if a != b:
        return "errors beneath container fields differ: only real %r; only model %r" % (sorted(set(a) - set(b))[:1], sorted(set(b) - set(a))[:1])
    return None


def oracle(c, v):
    return oracles.c10_oracle(c["schema"], c["config"], c["document"], c["update"], v._errors)


def nested(c, v):
    s = json.dumps(c["schema"], default=str)
    return any(k in s for k in ('"schema"', '"items"', '"valuesrules"', '"keysrules"'))


def extra(ctx, res):
    rng = random.Random(ctx["seed"] + 5)
    n = 3000 if ctx["tier"] == "thorough" else 300
    for _ in range(n):
        case, d = oracles.c10_root_oracle(rng)
        res["cases"] += 1
        if d:
            res["violations"].append({"signature": "root-relative", "what": d, "replay": dict(case, config=case.get("config", {"d": []}), update=False)})
    res["samples"].append(case)
    res["nontrivial"] += n
    # normalization is compositional too: with normalization on, a dict sub-document ends as it does when it is
    # processed on its own by a validator carrying the field's overrides (allow_unknown, purge_unknown, require_all)
    import copy as _copy
    import pool as _pool
    from gen import Gen as _Gen
    g2 = _Gen(ctx["seed"] + 1010, normalization=True, nested_bias=True, purge_bias=True)
    nn = 6000 if ctx["tier"] == "thorough" else 700 * ctx.get("scale", 1)

    def leaves(errs, strip):
        out = []
        for e in errs:
            if e.child_errors and not e.is_logic_error:
                out.extend(leaves(e.child_errors, strip))
            else:
                out.append((tuple(e.document_path)[strip:], e.code))
        return sorted(out, key=repr)
    def without(x, names):
        if isinstance(x, dict):
            return {k: without(v, names) for k, v in x.items() if k not in names}
        if isinstance(x, list):
            return [without(v, names) for v in x]
        return x

    def compose(schema, cfg, doc, upd):
        """-> list of (field, discrepancy) for the dict sub-documents of the top level"""
        out = []
        try:
            v = _pool.PoolValidator(_copy.deepcopy(schema), **_copy.deepcopy(cfg))
            v.validate(_copy.deepcopy(doc), update=upd)
        except Exception:
            return None
        for f, rules in schema.items():
            if not (isinstance(rules, dict) and rules.get('type') == 'dict' and isinstance(rules.get('schema'), dict)
                    and isinstance(doc.get(f), dict) and all(isinstance(x, dict) for x in rules['schema'].values())):
                continue
            if any(k in rules for k in ('coerce', 'default', 'default_setter', 'readonly', 'dependencies', 'keysrules', 'valuesrules',
                                        'allof', 'anyof', 'noneof', 'oneof', 'check_with', 'excludes')):
                continue
            if not isinstance(rules.get('allow_unknown', False), bool) or oracles.has_caret(rules['schema']):
                continue
            if not isinstance(v.document.get(f), dict):
                continue
            c2 = {k: x for k, x in cfg.items() if k in ('ignore_none_values', 'purge_readonly')}
            c2['allow_unknown'] = rules.get('allow_unknown', cfg.get('allow_unknown', False))
            c2['purge_unknown'] = rules.get('purge_unknown', cfg.get('purge_unknown', False))
            c2['require_all'] = rules.get('require_all', cfg.get('require_all', False))
            try:
                alone = _pool.PoolValidator(_copy.deepcopy(rules['schema']), **c2)
                alone.validate(_copy.deepcopy(doc[f]), update=upd)
            except Exception:
                continue
            # the field's own rules may stop before `schema` (type, empty ...): only compare when the schema rule ran or nothing failed at f itself
            own = [e for e in v._errors if tuple(e.document_path) == (f,) and e.code != 0x81]
            if own:
                continue
            a = leaves([e for e in v._errors if tuple(e.document_path)[:1] == (f,)], 1)
            b = leaves(alone._errors, 0)
            d = None
            if v.document.get(f) != alone.document:
                d = "processed sub-document under %r: nested %r, on its own %r" % (f, v.document.get(f), alone.document)
            elif a != b:
                d = "errors beneath %r with normalization on: nested %r != on its own %r" % (f, a[:3], b[:3])
            out.append((f, d))
        return out
    for i in range(nn):
        sub_schema = g2.schema()
        wrapper = {'type': 'dict', 'schema': sub_schema}
        for opt in ('allow_unknown', 'purge_unknown', 'require_all'):
            if rng.random() < 0.5:
                wrapper[opt] = rng.random() < 0.5
        schema = {'f': wrapper, 'g': {}}
        cfg = g2.config()
        if not isinstance(cfg.get('allow_unknown', False), bool):
            cfg['allow_unknown'] = True
        sub_doc = g2.doc_for(sub_schema, p_present=0.8) if rng.random() > 0.15 else {}      # the empty sub-document too
        if isinstance(sub_doc, dict) and sub_doc and rng.random() < 0.7:
            sub_doc['zz_unknown'] = rng.choice([1, 'x', None])
        doc = {'f': sub_doc, 'g': 1}
        upd = rng.random() < 0.3
        res_c = compose(schema, cfg, doc, upd)
        for f, d in (res_c or []):
            res["cases"] += 1
            res["nontrivial"] += 1
            if d:
                sig = "standalone-normalized:" + d.split(" ")[0]
                if oracles.mentions(schema[f]['schema'], ('readonly',)):
                    # attribution to the recorded finding (a read-only violation stops the field's remaining rules at the root of a
                    # normalized document but not in a child validator): the same case with the readonly rules taken out
                    s2 = _copy.deepcopy(schema)
                    s2[f]['schema'] = without(s2[f]['schema'], ('readonly',))
                    r2 = compose(s2, cfg, doc, upd)
                    if r2 is not None and all(dd is None for ff, dd in r2 if ff == f):
                        sig = "standalone-normalized:readonly-in-child"
                res["violations"].append({"signature": sig, "what": d,
                                          "replay": {"schema": common.jval(schema), "document": common.jval(doc), "config": common.jval(cfg), "update": upd}})
    # ... and the members of a list: each dict member ends, and reports, as it does on its own -- whatever happens to its siblings
    for i in range(nn // 3):
        sub_schema = g2.schema()
        if oracles.has_caret(sub_schema) or oracles.mentions(sub_schema, ('readonly',)):
            continue
        schema = {'f': {'type': 'list', 'schema': {'type': 'dict', 'schema': sub_schema}}}
        cfg = {k: v for k, v in g2.config().items() if k in ('ignore_none_values', 'purge_readonly', 'purge_unknown', 'require_all')}
        members = [g2.doc_for(sub_schema, p_present=0.8) for _ in range(rng.randrange(1, 4))]
        doc = {'f': members}
        upd = rng.random() < 0.3
        try:
            v = _pool.PoolValidator(_copy.deepcopy(schema), **_copy.deepcopy(cfg))
            v.validate(_copy.deepcopy(doc), update=upd)
        except Exception:
            continue
        if not isinstance(v.document.get('f'), list) or len(v.document['f']) != len(members) or \
                [e for e in v._errors if tuple(e.document_path) == ('f',) and e.code != 0x82]:
            continue
        for j, m in enumerate(members):
            if not isinstance(m, dict):
                continue
            try:
                alone = _pool.PoolValidator(_copy.deepcopy(sub_schema), **_copy.deepcopy(cfg))
                alone.validate(_copy.deepcopy(m), update=upd)
            except Exception:
                continue
            res["cases"] += 1
            res["nontrivial"] += 1
            a = sorted([(p[2:], c) for p, c in leaves([e for e in v._errors if tuple(e.document_path)[:1] == ('f',)], 0) if p[:2] == ('f', j)], key=repr)
            b = leaves(alone._errors, 0)
            d = None
            if v.document['f'][j] != alone.document:
                d = "processed member %d of the list under 'f': nested %r, on its own %r" % (j, v.document['f'][j], alone.document)
            elif a != b:
                d = "errors beneath member %d with normalization on: nested %r != on its own %r" % (j, a[:3], b[:3])
            if d:
                res["violations"].append({"signature": "standalone-normalized:list-member", "what": d,
                                          "replay": {"schema": common.jval(schema), "document": common.jval(doc), "config": common.jval(cfg), "update": upd}})
                break
    # directed family: a sub-document key named 'dependencies' below a field that has a `dependencies` rule followed by
    # another rule (the rule's closing look-up reads the DOCUMENT error tree with a SCHEMA path)
    import copy
    import cerberus
    for i in range(20 if ctx["tier"] != "thorough" else 200):
        later = rng.choice([('minlength', 5), ('maxlength', 0), ('allowed', [{'x': 1}])])
        sub = {'a': {'type': 'dict', 'schema': {'dependencies': {'type': 'integer'}}, 'dependencies': ['b'], later[0]: later[1]}, 'b': {}}
        doc = {'a': {'dependencies': rng.choice(['x', None, [1]])}, 'b': 1}
        wrap = rng.choice(['dict', 'list'])
        outer = {'f': {'type': 'dict', 'schema': sub}} if wrap == 'dict' else {'f': {'type': 'list', 'schema': {'type': 'dict', 'schema': sub}}}
        odoc = {'f': doc} if wrap == 'dict' else {'f': [doc]}
        alone = cerberus.Validator(copy.deepcopy(sub))
        alone.validate(copy.deepcopy(doc), normalize=False)
        nested = cerberus.Validator(copy.deepcopy(outer))
        nested.validate(copy.deepcopy(odoc), normalize=False)

        def leaves(errs, strip):
            out = []
            for e in errs:
                if e.child_errors and not e.is_logic_error and e.code in (0x81, 0x82):
                    out.extend(leaves(e.child_errors, strip))
                else:
                    out.append((tuple(e.document_path)[strip:], e.code))
            return sorted(out, key=repr)
        a = leaves(alone._errors, 0)
        b = [x for x in leaves(nested._errors, 1 if wrap == 'dict' else 2)]
        res["cases"] += 1
        res["nontrivial"] += 1
        if a != b:
            res["violations"].append({"signature": "standalone:dependencies-look-up",
                                      "what": "sub-document with a key named 'dependencies': validated alone %r, nested %r" % (a, b),
                                      "replay": {"schema": common.jval(outer), "document": common.jval(odoc), "config": {"d": []}, "update": False}})


def run(ctx):
    return _vfamily.run_family(ctx, oracle, lambda d: "standalone:" + d.split("(")[1][:4] if "(" in d else "standalone", model_compare,
                               nontrivial=nested, extra=extra, n_quick=4000,
                               genkws=({"nested_bias": True, "p_update": 0.5, "deps": False}, {"max_depth": 4, "nested_bias": True},
                                       {"of_rules": False, "nested_bias": True, "p_update": 0.5}),
                               rule="generated schemas with containers nested to depth 4, all options at the root and per-field overrides; "
                                    "oracle: every sub-document under schema(dict/list)/items/valuesrules/keysrules re-validated by a fresh validator "
                                    "of the same configuration (overrides applied) and compared with the child errors after stripping the prefix; "
                                    "directed family for ^ dependencies. Non-trivial = distinct cases with a container rule.")


def replay(rp):
    c = vrun.case_from_json(rp)
    r = vrun.real_validate(c["schema"], c["config"], c["document"], c["update"], want_validator=True)
    print(oracle(c, r["validator"]) if r["r"] == "ok" else r)
    return 0
