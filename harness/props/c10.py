"""C10 -- nested validation is compositional and inherits the configuration."""
import json
import random
import oracles
import vrun
from props import _vfamily

LEVEL = "proof"
COQ_FILES = ['theories/Model/Validate.v', 'theories/Proofs/ChildProofs.v', 'theories/Proofs/PathProofs.v', 'theories/Properties/C10.v']
FACT_GROUPS = ["F6"]
ALLOWED_AXIOMS = []
TRUSTED_BASE = _vfamily.BASE_TRUSTED
ASSUMPTIONS = _vfamily.BASE_ASSUMPTIONS + [
    "standalone oracle: sub-documents reachable through dict-schema nesting; item/value rule sets combining excludes with required are skipped "
    "(documented cross-field semantics); root-relative dependencies are checked by a directed family with a known answer"]


def group_errors(errs):
    out = []
    for e in errs:
        if e["code"] in (0x81, 0x82, 0x83, 0x84, 0x8f):
            out.append(e)
        else:
            out.extend(group_errors(e["ch"]))
    return out


def model_compare(c, which):
    from common import canon_errors
    r, m = c["real"], c[which]
    if r["r"] != "ok" or m["r"] != "ok":
        return None
    kw = dict(with_info=False, with_cv=False, with_sp=False)
    a, b = canon_errors(group_errors(r["errors"]), **kw), canon_errors(group_errors(m["errors"]), **kw)
    if a != b:
        return "errors beneath container fields differ: only real %r; only model %r" % (sorted(set(a) - set(b))[:1], sorted(set(b) - set(a))[:1])
    return None


def oracle(c, v):
    return oracles.c10_oracle(c["schema"], c["config"], c["document"], c["update"], v._errors)


def nested(c, v):
    s = json.dumps(c["schema"], default=str)
    return any(k in s for k in ('"schema"', '"items"', '"valuesrules"', '"keysrules"'))


def extra(ctx, res):
    rng = random.Random(ctx["seed"] + 5)
    n = 3000 if ctx["tier"] == "thorough" else 300
    for _ in range(n):
        case, d = oracles.c10_root_oracle(rng)
        res["cases"] += 1
        if d:
            res["violations"].append({"signature": "root-relative", "what": d, "replay": dict(case, config={"d": []}, update=False)})
    res["samples"].append(case)
    res["nontrivial"] += n


def run(ctx):
    return _vfamily.run_family(ctx, oracle, lambda d: "standalone:" + d.split("(")[1][:4] if "(" in d else "standalone", model_compare,
                               nontrivial=nested, extra=extra, n_quick=4000,
                               genkws=({"nested_bias": True, "p_update": 0.5, "deps": False}, {"max_depth": 4, "nested_bias": True},
                                       {"of_rules": False, "nested_bias": True, "p_update": 0.5}),
                               rule="generated schemas with containers nested to depth 4, all options at the root and per-field overrides; "
                                    "oracle: every sub-document under schema(dict/list)/items/valuesrules/keysrules re-validated by a fresh validator "
                                    "of the same configuration (overrides applied) and compared with the child errors after stripping the prefix; "
                                    "directed family for ^ dependencies. Non-trivial = distinct cases with a container rule.")


def replay(rp):
    c = vrun.case_from_json(rp)
    r = vrun.real_validate(c["schema"], c["config"], c["document"], c["update"], want_validator=True)
    print(oracle(c, r["validator"]) if r["r"] == "ok" else r)
    return 0
