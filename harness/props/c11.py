"""C11 -- error trees contain exactly the reported errors at their paths."""
import collections
import json
import random

import common
from common import cerberus, cerrors, real_error, canon_error, canon_errors
from gen import Gen

LEVEL = "proof"
import vrun as _vrun_refs
_vrun_refs.P_REFS = 0.15      # some generated schemas carry registry references (validator-bound registries)
COQ_FILES = ['theories/Model/Tree.v', 'theories/Proofs/TreeProofs.v', 'theories/Proofs/PathProofs.v', 'theories/Properties/C11.v']
FACT_GROUPS = ["F8"]
ALLOWED_AXIOMS = []
TRUSTED_BASE = [
    "Coq 8.16.1 kernel (coqc), vm_compute for the non-vacuity Example only; no native_compute",
    "Print Assumptions: all C11 theorems 'Closed under the global context'",
    "model of ErrorTree/ErrorTreeNode (Model/Tree.v) is hand-written: tied to errors.py by this run's differential test on random error forests and on the trees of real validations",
    "translator/translate.py reads the group/logic/normalization bit masks from errors.py (fact group F8)",
    "extraction: ExtrOcamlBasic + ExtrOcamlString, driver/driver.ml (parser/printer)",
]
ASSUMPTIONS = [
    "paths are tuples of str/int (or the literal string '__require_all__'); bool/float keys excluded",
    "order of errors inside one node is not compared (list.sort with a non-strict __lt__ is algorithm-dependent on ties)",
]

KEYS = ['a', 'b', 'c', 0, 1, 2, 'schema', 'items', 'anyof', 'type']
LEAF_CODES = [(0x24, 'type'), (0x02, 'required'), (0x42, 'min'), (0x03, None), (0x61, 'coerce'), (0x23, 'nullable')]
GROUP_CODES = [(0x81, 'schema'), (0x82, 'schema'), (0x8f, 'items'), (0x83, 'keysrules'), (0x84, 'valuesrules'),
               (0x93, 'anyof'), (0x92, 'oneof'), (0x94, 'allof'), (0x91, 'noneof')]


def gen_error(r, depth):
    dp = [r.choice(KEYS) for _ in range(r.choice([0, 1, 1, 2, 2, 3, 4]) if r.random() < 0.1 else r.choice([1, 1, 2, 2, 3, 4]))]
    if r.random() < 0.08:
        sp = {"s": r.choice(["__require_all__", "__equire_all__", "_require_all__"])}
    else:
        sp = [r.choice(KEYS) for _ in range(r.choice([0, 1, 2, 2, 3, 4, 5]) if r.random() < 0.1 else r.choice([1, 2, 2, 3, 4, 5]))]
    if depth > 0 and r.random() < 0.4:
        code, rule = r.choice(GROUP_CODES)
        ch = [gen_error(r, depth - 1) for _ in range(r.randrange(0, 4))]
    else:
        code, rule = r.choice(LEAF_CODES)
        ch = []
    return {"dp": dp, "sp": sp, "code": code, "rule": rule, "c": None, "v": r.choice([None, 1, "x"]),
            "info": [], "ch": ch}


def to_real(e):
    ch = [to_real(c) for c in e["ch"]]
    sp = e["sp"]["s"] if isinstance(e["sp"], dict) else tuple(e["sp"])
    info = (ch,) if (e["code"] & 0x80) else ()
    return cerrors.ValidationError(tuple(e["dp"]), sp, e["code"], e["rule"], e["c"], e["v"], info)


def dump_tree(node):
    return {"errs": [real_error(e) for e in node.errors],
            "kids": [[k, dump_tree(c)] for k, c in node.descendants.items()]}


def diff_tree(real, model, path=()):
    a = collections.Counter(canon_error(e) for e in real["errs"])
    b = collections.Counter(canon_error(e) for e in model["errs"])
    if a != b:
        return "errors at %r differ: real-only %r model-only %r" % (list(path), list((a - b))[:2], list((b - a))[:2])
    ka = {json.dumps(k): c for k, c in real["kids"]}
    kb = {json.dumps(k): c for k, c in model["kids"]}
    if set(ka) != set(kb):
        return "children of %r differ: %r vs %r" % (list(path), sorted(ka), sorted(kb))
    for k in ka:
        d = diff_tree(ka[k], kb[k], path + (json.loads(k),))
        if d:
            return d
    return None


def flatten(errs):
    out = []
    for e in errs:
        out.append(e)
        if e.child_errors:
            out.extend(flatten(e.child_errors))
    return out


def all_in_tree(node):
    out = list(node.errors)
    for c in node.descendants.values():
        out.extend(all_in_tree(c))
    return out


def tree_oracle(errs, tree, kind):
    """the property's oracle, on the real objects: every reported error (incl. children)
    is retrievable at its path; nothing else is in the tree; queries agree with node lists"""
    flat = flatten(errs)
    stored = all_in_tree(tree)
    if collections.Counter(map(id, flat)) != collections.Counter(map(id, stored)):
        return "tree content != reported errors: %d stored, %d reported" % (len(stored), len(flat))
    for e in flat:
        p = e.document_path if kind == 'document' else e.schema_path
        if not any(x is e for x in tree.fetch_errors_from(p)):
            return "error not retrievable at its %s_path %r" % (kind, p)
        for i in range(len(p) + 1):
            n = tree.fetch_node_from(p[:i])
            if n is None:
                return "no node for prefix %r of %r" % (p[:i], p)
        node = tree.fetch_node_from(p)
        ctx = tree
        for k in p:           # subscripting
            ctx = ctx[k]
        if ctx is not node:
            return "subscripting and fetch_node_from disagree at %r" % (p,)
        d = cerrors.ErrorDefinition(e.code, e.rule)
        if d not in node or node[d] is None or node[d].code != e.code:
            return "lookup by definition disagrees with the node list at %r" % (p,)
        absent = cerrors.ErrorDefinition(0x7f, None)
        if absent in node or node[absent] is not None:
            return "absent definition found at %r" % (p,)
    empty = (len(tree.errors) == 0 and len(tree.descendants) == 0)
    if empty != (len(errs) == 0):
        return "tree emptiness (%r) != no errors (%r)" % (empty, len(errs) == 0)
    return None


def run(ctx):
    r = random.Random(ctx["seed"])
    thorough = ctx["tier"] == "thorough"
    n_forest = 40000 if thorough else 2000 * ctx.get('scale', 1)
    n_valid = 30000 if thorough else 2500 * ctx.get('scale', 1)
    violations, samples = [], []
    dist = collections.Counter()
    sigs = set()
    # (1) random error forests: real tree classes vs model
    forests = [[gen_error(r, 3) for _ in range(r.randrange(0, 5))] for _ in range(n_forest)]

    def fix_domain(es, has_str):
        # compare_paths_lt cannot order a string path against an empty tuple (RuntimeError); the validator never produces
        # both under one document path (see DESIGN, C11), so forests mixing them are outside the domain
        for e in es:
            if has_str and e["sp"] == []:
                e["sp"] = ["a"]
            fix_domain(e["ch"], has_str)
    for f in forests:
        fix_domain(f, '"s"' in json.dumps(f))
    lines = []
    for f in forests:
        out = ["T", str(len(f))]
        for e in f:
            common.enc_error_json(e, out)
        lines.append(" ".join(out))
    model = common.run_driver_parallel(lines) if ctx["driver_ok"] else [None] * len(lines)
    disagreements = 0
    for f, m in zip(forests, model):
        real_errs = [to_real(e) for e in f]
        dist["forest_size_%d" % min(len(flatten(real_errs)), 12)] += 1
        sigs.add(json.dumps(f, sort_keys=True))
        for kind, cls, key in (("document", cerrors.DocumentErrorTree, "doc"), ("schema", cerrors.SchemaErrorTree, "sch")):
            try:
                tree = cls(real_errs)
            except Exception as ex:
                violations.append({"signature": "tree-raises:" + type(ex).__name__, "what": "building the %s tree raised %r" % (kind, ex),
                                   "replay": {"kind": "forest", "forest": f}})
                continue
            o = tree_oracle_forest(real_errs, tree, kind)
            if o:
                violations.append({"signature": "oracle:" + kind, "what": o, "replay": {"kind": "forest", "forest": f, "tree": kind}})
            if m is not None:
                d = diff_tree(dump_tree(tree), m[key])
                if d:
                    disagreements += 1
                    violations.append({"signature": "model-vs-code:" + kind, "what": "ErrorTree differs from the proved model: " + d,
                                       "replay": {"kind": "forest", "forest": f, "tree": kind}})
    if forests:
        samples.append({"forest": forests[min(3, len(forests) - 1)]})
    # (2) trees of real validations (also with a used validator: 'after any processing')
    g = Gen(ctx["seed"] + 1)
    nontrivial = 0
    for i in range(n_valid):
        schema = g.schema()
        cfg = g.config()
        try:
            v = cerberus.Validator(schema, **cfg)
        except Exception:
            dist["schema_rejected"] += 1
            continue
        docs = [g.doc_for(schema) for _ in range(g.r.choice([1, 1, 2, 3]))]
        for j, doc in enumerate(docs):
            normalize = g.r.random() < 0.5
            try:
                ok = v.validate(doc, update=g.r.random() < 0.2, normalize=normalize)
            except Exception as ex:
                dist["raised_" + type(ex).__name__] += 1
                continue
            dist["valid" if ok else "invalid"] += 1
            fl = flatten(v._errors)
            if len(fl) > len(v._errors):
                dist["with_nested_errors"] += 1
                nontrivial += 1
            elif fl:
                nontrivial += 1
            for kind, tree in (("document", v.document_error_tree), ("schema", v.schema_error_tree)):
                o = tree_oracle(v._errors, tree, kind)
                if o:
                    violations.append({"signature": "oracle:" + kind, "what": o,
                                       "replay": {"kind": "validation", "schema": common.jval(schema), "config": common.jval(cfg),
                                                  "documents": [common.jval(d) for d in docs[:j + 1]], "tree": kind}})
            if g.r.random() < 0.5:
                # reading the rendered errors (any number of times) must leave the recorded errors and the trees in agreement
                try:
                    v.errors
                    if g.r.random() < 0.3:
                        v.errors
                except Exception as ex:
                    dist["errors_raised_" + type(ex).__name__] += 1
                else:
                    dist["reread_after_errors"] += 1
                    for kind, tree in (("document", v.document_error_tree), ("schema", v.schema_error_tree)):
                        o = tree_oracle(v._errors, tree, kind)
                        if o:
                            violations.append({"signature": "oracle-after-errors:" + kind, "what": "after reading Validator.errors: " + o,
                                               "replay": {"kind": "validation", "schema": common.jval(schema), "config": common.jval(cfg),
                                                          "documents": [common.jval(d) for d in docs[:j + 1]], "tree": kind, "read_errors": True}})
            if ok != (len(v.document_error_tree.errors) == 0 and not v.document_error_tree.descendants):
                violations.append({"signature": "oracle:empty-iff-valid", "what": "document tree empty != validation succeeded",
                                   "replay": {"kind": "validation", "schema": common.jval(schema), "config": common.jval(cfg),
                                              "documents": [common.jval(d) for d in docs[:j + 1]]}})
        if i == 5:
            samples.append({"schema": common.jval(schema), "config": common.jval(cfg), "documents": [common.jval(d) for d in docs]})
    return {"violations": violations, "cases": len(forests) + sum(dist[k] for k in ("valid", "invalid")),
            "nontrivial": len(sigs) + nontrivial, "model_cases": len(forests) if ctx["driver_ok"] else 0,
            "disagreements_checked": len(forests) * 2, "samples": samples, "distribution": dict(dist),
            "rule": "random error forests (depth<=3, group/logic/leaf codes, str/int keys, '__require_all__' schema paths) fed to the real "
                    "DocumentErrorTree/SchemaErrorTree and to the extracted model, compared node by node as multisets; plus the two trees of real "
                    "validations (schema-directed documents, 1-3 consecutive documents per validator) checked by the retrievability oracle, again after reading Validator.errors. "
                    "Non-trivial = distinct forests + validations that produced at least one error."}


def tree_oracle_forest(errs, tree, kind):
    """for arbitrary forests the root branch quirk applies: children of an error with an EMPTY path are not inserted"""
    def tflat(es):
        out = []
        for e in es:
            out.append(e)
            p = e.document_path if kind == 'document' else e.schema_path
            if len(p) > 0 and e.child_errors:
                out.extend(tflat(e.child_errors))
        return out
    flat = tflat(errs)
    stored = all_in_tree(tree)
    if collections.Counter(map(id, flat)) != collections.Counter(map(id, stored)):
        return "tree content != specified content: %d stored, %d specified" % (len(stored), len(flat))
    for e in flat:
        p = e.document_path if kind == 'document' else e.schema_path
        if not any(x is e for x in tree.fetch_errors_from(p)):
            return "error not retrievable at its %s_path %r" % (kind, p)
    return None


def replay(rp):
    rep = rp.get("replay", rp)
    if rp.get("kind") == "forest" or rep.get("kind") == "forest":
        f = rp.get("forest") or rep.get("forest")
        real_errs = [to_real(e) for e in f]
        for kind, cls in (("document", cerrors.DocumentErrorTree), ("schema", cerrors.SchemaErrorTree)):
            print(kind, tree_oracle_forest(real_errs, cls(real_errs), kind))
        return 0
    schema = common.unjson(rp["schema"]); cfg = common.unjson(rp["config"])
    v = cerberus.Validator(schema, **cfg)
    for d in rp["documents"]:
        v.validate(common.unjson(d))
        for kind, tree in (("document", v.document_error_tree), ("schema", v.schema_error_tree)):
            print(kind, tree_oracle(v._errors, tree, kind))
    return 0
