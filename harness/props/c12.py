"""C12 -- each error points to the offending value and the violated constraint."""
import json
import oracles
import vrun
from common import canon_errors
from props import _vfamily

LEVEL = "proof"
COQ_FILES = ['theories/Model/Validate.v', 'theories/Proofs/PathProofs.v', 'theories/Proofs/LocProofs.v', 'theories/Proofs/DefProofs.v', 'theories/Proofs/SpProofs.v', 'theories/Properties/C12.v']
FACT_GROUPS = ["F6", "F8"]
ALLOWED_AXIOMS = []
TRUSTED_BASE = _vfamily.BASE_TRUSTED
ASSUMPTIONS = _vfamily.BASE_ASSUMPTIONS + [
    "validation-phase errors of validate(normalize=False); processed document = the validator's document copy"]


def model_compare(c, which):
    r, m = c["real"], c[which]
    if r["r"] != "ok" or m["r"] != "ok":
        return None
    a, b = canon_errors(r["errors"]), canon_errors(m["errors"])   # full keys: paths, code, rule, constraint, value, info, children
    if a != b:
        return "errors differ in path/constraint/value: only real %r; only model %r" % (sorted(set(a) - set(b))[:1], sorted(set(b) - set(a))[:1])
    return None


def oracle(c, v):
    v.errors      # rendering the errors must leave the recorded errors pointing at the same places
    return oracles.c12_oracle(c["schema"], c["config"], v.document, v._errors)


def extra(ctx, res):
    """directed family: rules sets given by registry NAME (validator-bound or module-level): the schema path of every error --
    REQUIRED_FIELD of a missing field included -- must lead THROUGH the registry to the constraint the error carries"""
    import copy
    import random
    import cerberus
    import common
    import refs
    from gen import Gen
    rng = random.Random(ctx["seed"] + 1212)
    g = Gen(ctx["seed"] + 12, nested_bias=True)
    n = 2500 if ctx["tier"] == "thorough" else 200 * ctx.get("scale", 1)
    for i in range(n):
        schema = g.schema()
        # make sure some referenced rules sets spell out `required`
        for f, rs in schema.items():
            if isinstance(rs, dict) and rng.random() < 0.5:
                rs['required'] = rng.choice([True, True, False])
        pos = refs.referenceable(schema)
        if not pos:
            continue
        s2, rdefs, sdefs = refs.substitute(schema, rng.sample(pos, rng.randrange(1, min(4, len(pos)) + 1)))
        rr, sr = refs.make_registries(rdefs, sdefs)
        doc = g.doc_for(schema, p_present=0.5)
        cfg = g.config()
        try:
            v = cerberus.Validator(copy.deepcopy(s2), rules_set_registry=rr, schema_registry=sr, **copy.deepcopy(cfg))
            v.validate(copy.deepcopy(doc), normalize=False)
        except Exception:
            continue
        res["cases"] += 1
        if v._errors:
            res["nontrivial"] += 1
        d = oracles.c12_oracle(s2, dict(cfg, rules_set_registry_obj=rr, schema_registry_obj=sr), v.document, v._errors)
        if not d:
            # a missing field whose (resolved) rules spell out `required: True` is reported under (field, 'required')
            for e in v._errors:
                if e.code == 0x02 and len(e.document_path) == 1:
                    rs = s2.get(e.document_path[0])
                    rs = rr.get(rs) if isinstance(rs, str) else rs
                    spelled = isinstance(rs, dict) and 'required' in rs
                    if spelled != (not isinstance(e.schema_path, str)):
                        d = "required-field error for %r: schema_path %r although the field's rules %s `required`" % (
                            e.document_path[0], e.schema_path, "spell out" if spelled else "do not spell out")
                        break
        if d:
            res["violations"].append({"signature": "locate-by-reference:" + d.split(" ")[0][:24], "what": "(rules sets given by name) " + d,
                                      "replay": {"schema": common.jval(s2), "rules_set_registry": common.jval(rdefs), "schema_registry": common.jval(sdefs),
                                                 "config": common.jval(cfg), "document": common.jval(doc), "update": False}})


def extra_normalized(ctx, res):
    """with normalization on (defaults, renames, coercions, purging first): the validation-phase errors still point into
    the PROCESSED document -- a required-field error only where the processed document lacks the field"""
    import copy
    import random
    import common
    import pool
    from gen import Gen
    g = Gen(ctx["seed"] + 1213, normalization=True, nested_bias=True)
    rng = random.Random(ctx["seed"] + 77)
    n = 3000 if ctx["tier"] == "thorough" else 250 * ctx.get("scale", 1)
    for i in range(n):
        schema = g.schema()
        for f, rs in schema.items():
            if isinstance(rs, dict) and rng.random() < 0.4:
                rs['required'] = True
        cfg = g.config()
        doc = g.doc_for(schema, p_present=0.55)
        try:
            v = pool.PoolValidator(copy.deepcopy(schema), **copy.deepcopy(cfg))
            v.validate(copy.deepcopy(doc), update=False)
        except Exception:
            continue
        res["cases"] += 1
        if v._errors:
            res["nontrivial"] += 1
        try:
            d = oracles.c12_oracle(schema, cfg, v.document, v._errors)
        except Exception:
            continue
        if d and d.startswith("required-field"):
            res["violations"].append({"signature": "locate-normalized:" + d.split(" ")[0][:24], "what": "(normalization on) " + d,
                                      "replay": {"schema": common.jval(schema), "config": common.jval(cfg), "document": common.jval(doc), "update": False}})


def run(ctx):
    def both(c, r):
        extra(c, r)
        extra_normalized(c, r)
    return _vfamily.run_family(ctx, oracle, lambda d: "locate:" + d.split(" ")[0][:24], model_compare,
                               nontrivial=lambda c, v: bool(v._errors), extra=both,
                               rule="every validation-phase error of generated cases (all nesting kinds and combinations): document_path must lead to "
                                    "error.value in the processed document (parent container for required), code/rule from one definition, schema_path "
                                    "must resolve through the schema (conventions of DESIGN section 6 C12) to error.constraint, children exactly on group errors; "
                                    "plus Spec/Impl model diff on full error keys. Non-trivial = distinct cases with at least one error.")


def replay(rp):
    c = vrun.case_from_json(rp)
    r = vrun.real_validate(c["schema"], c["config"], c["document"], c["update"], want_validator=True)
    print(oracle(c, r["validator"]) if r["r"] == "ok" else r)
    return 0
