"""C12 -- each error points to the offending value and the violated constraint."""
import json
import oracles
import vrun
from common import canon_errors
from props import _vfamily

LEVEL = "proof"
COQ_FILES = ['theories/Model/Validate.v', 'theories/Proofs/PathProofs.v', 'theories/Properties/C12.v']
FACT_GROUPS = ["F6", "F8"]
ALLOWED_AXIOMS = []
TRUSTED_BASE = _vfamily.BASE_TRUSTED
ASSUMPTIONS = _vfamily.BASE_ASSUMPTIONS + [
    "validation-phase errors of validate(normalize=False); processed document = the validator's document copy"]


def model_compare(c, which):
    r, m = c["real"], c[which]
    if r["r"] != "ok" or m["r"] != "ok":
        return None
    a, b = canon_errors(r["errors"]), canon_errors(m["errors"])   # full keys: paths, code, rule, constraint, value, info, children
    if a != b:
        return "errors differ in path/constraint/value: only real %r; only model %r" % (sorted(set(a) - set(b))[:1], sorted(set(b) - set(a))[:1])
    return None


def oracle(c, v):
    v.errors      # rendering the errors must leave the recorded errors pointing at the same places
    return oracles.c12_oracle(c["schema"], c["config"], v.document, v._errors)


def run(ctx):
    return _vfamily.run_family(ctx, oracle, lambda d: "locate:" + d.split(" ")[0][:24], model_compare,
                               nontrivial=lambda c, v: bool(v._errors),
                               rule="every validation-phase error of generated cases (all nesting kinds and combinations): document_path must lead to "
                                    "error.value in the processed document (parent container for required), code/rule from one definition, schema_path "
                                    "must resolve through the schema (conventions of DESIGN section 6 C12) to error.constraint, children exactly on group errors; "
                                    "plus Spec/Impl model diff on full error keys. Non-trivial = distinct cases with at least one error.")


def replay(rp):
    c = vrun.case_from_json(rp)
    r = vrun.real_validate(c["schema"], c["config"], c["document"], c["update"], want_validator=True)
    print(oracle(c, r["validator"]) if r["r"] == "ok" else r)
    return 0
