"""C13 -- the errors property is a pure and complete rendering of the errors."""
import collections
import copy
import json

import common
import nrun
import pool
import vrun
from gen import Gen
from common import cerberus, cerrors, real_error, canon_errors

LEVEL = "proof"
import vrun as _vrun_refs
_vrun_refs.P_REFS = 0.15      # some generated schemas carry registry references (validator-bound registries)
COQ_FILES = ["theories/Model/Handler.v", "theories/Proofs/HandlerProofs.v", "theories/Proofs/LocProofs.v", "theories/Properties/C13.v"]
FACT_GROUPS = ["F8", "F10"]
ALLOWED_AXIOMS = []
TRUSTED_BASE = [
    "Coq 8.16.1 kernel; Print Assumptions: closed under the global context",
    "Model/Handler.v: hand-written model of BasicErrorHandler with messages as (code, field) tokens; tied to errors.py by rendering the REAL "
    "error lists of this run with the real handler logic under a token message table and with the extracted model, compared node by node",
    "message wording / str.format are not modelled: the default rendering is compared with the token rendering on shape (keys, nesting, list lengths)",
    "translator: bit masks, message-table keys (F8, F10); extraction + driver",
]
ASSUMPTIONS = [
    "JSON-like documents; order of messages inside one list is not compared",
]


class TokenHandler(cerrors.BasicErrorHandler):
    """the real handler logic with a message table of tokens '<code>|<field>'"""
    messages = {k: "%d|{field!r}" % k for k in cerrors.BasicErrorHandler.messages}


def norm_real(tree, token):
    """real rendering -> [{k, msgs, sub}] ; msgs as tokens (code, field) or plain counts"""
    out = []
    for k, lst in tree.items():
        sub = []
        msgs = list(lst)
        if msgs and isinstance(msgs[-1], dict):
            sub = norm_real(msgs[-1], token)
            msgs = msgs[:-1]
        if any(isinstance(m, dict) for m in msgs):
            raise ValueError("a dict that is not the last element of the list at %r" % (k,))
        if token:
            ms = []
            for m in msgs:
                c, f = m.split("|", 1)
                ms.append((int(c), f))
            msgs = sorted(ms)
        else:
            msgs = len(msgs)
        out.append({"k": k, "msgs": msgs, "sub": sub})
    return out


def norm_model(t):
    return [{"k": e["k"], "msgs": sorted((m[0], repr(m[1])) for m in e["msgs"]), "sub": norm_model(e["sub"])} for e in t]


def diff_rt(a, b, path=()):
    ka = {json.dumps(e["k"]): e for e in a}
    kb = {json.dumps(e["k"]): e for e in b}
    if set(ka) != set(kb):
        return "keys at %r differ: %r vs %r" % (list(path), sorted(ka), sorted(kb))
    for k in ka:
        if ka[k]["msgs"] != kb[k]["msgs"]:
            return "messages at %r differ: %r vs %r" % (list(path) + [json.loads(k)], ka[k]["msgs"], kb[k]["msgs"])
        d = diff_rt(ka[k]["sub"], kb[k]["sub"], path + (json.loads(k),))
        if d:
            return d
    return None


def shape(t):
    return [{"k": e["k"], "msgs": len(e["msgs"]) if not isinstance(e["msgs"], int) else e["msgs"], "sub": shape(e["sub"])} for e in t]


def leaf_count(errs):
    n = 0
    for e in errs:
        if e.is_logic_error:
            n += 1 + leaf_count(e.child_errors)
        elif e.is_group_error:
            n += leaf_count(e.child_errors)
        else:
            n += 1
    return n


def count_msgs(t):
    return sum((e["msgs"] if isinstance(e["msgs"], int) else len(e["msgs"])) + count_msgs(e["sub"]) for e in t)


def purity_oracle(v):
    before = canon_errors([real_error(e) for e in v._errors])
    ids = [id(e) for e in v._errors]
    r1 = v.errors
    r1c = copy.deepcopy(r1)
    r2 = v.errors
    after = canon_errors([real_error(e) for e in v._errors])
    if before != after or ids != [id(e) for e in v._errors]:
        return "reading the errors property altered the recorded errors / their paths"
    if r1c != r2:
        return "reading the errors property twice gave different results"
    if (r2 == {}) != (len(v._errors) == 0):
        return "errors property empty=%r but %d recorded errors" % (r2 == {}, len(v._errors))
    tops = {e.document_path[0] for e in v._errors}
    if set(r2.keys()) != tops:
        return "top-level keys %r != first document-path elements %r" % (sorted(map(repr, r2)), sorted(map(repr, tops)))
    try:
        n = count_msgs(norm_real(r2, False))
    except ValueError as e:
        return str(e)
    if n != leaf_count(v._errors):
        return "%d messages rendered for %d non-group errors (+ *of errors)" % (n, leaf_count(v._errors))
    return None


def run(ctx):
    thorough = ctx["tier"] == "thorough"
    n = 60000 if thorough else 2500 * ctx.get('scale', 1)
    violations, samples = [], []
    dist = collections.Counter()
    distinct = set()
    lines, jobs = [], []
    for part, kw in enumerate(({"normalization": True}, {"max_depth": 4, "nested_bias": True}, {})):
        g = Gen(ctx["seed"] + 13 * part, **kw)
        for i in range(n // 3):
            schema, cfg = g.schema(), g.config()
            doc = g.doc_for(schema, p_valid=0.55)
            upd = g.r.random() < 0.2
            try:
                v = pool.PoolValidator(copy.deepcopy(schema), **copy.deepcopy(cfg))
                vt = pool.PoolValidator(copy.deepcopy(schema), error_handler=TokenHandler, **copy.deepcopy(cfg))
                v.validate(copy.deepcopy(doc), update=upd)
                vt.validate(copy.deepcopy(doc), update=upd)
            except Exception:
                dist["skipped"] += 1
                continue
            case = {"schema": common.jval(schema), "config": common.jval(cfg), "document": common.jval(doc), "update": upd}
            dist["errors_%d" % min(len(v._errors), 6)] += 1
            if v._errors:
                distinct.add(json.dumps(case, sort_keys=True))
            if any(e.is_logic_error for e in v._errors):
                dist["with_of_errors"] += 1
            d = purity_oracle(v)
            if d:
                violations.append({"signature": "purity:" + d.split(" ")[0], "what": d, "replay": case})
            try:
                tok = norm_real(vt.errors, True)
                dflt = norm_real(v.errors, False)
            except ValueError as e:
                violations.append({"signature": "nesting", "what": str(e), "replay": case})
                continue
            if shape(tok) != shape(dflt):
                violations.append({"signature": "shape", "what": "default rendering and token rendering differ in shape", "replay": case})
            errs = [real_error(e) for e in vt._errors]
            try:
                out = ["H", "c", str(len(errs))]
                for e in errs:
                    common.enc_error_json(e, out)
                lines.append(" ".join(out))
                jobs.append((case, tok))
            except ValueError:
                dist["unencodable"] += 1
            if i == 4:
                samples.append(case)
    checked = 0
    if ctx["driver_ok"] and lines:
        for (case, tok), m in zip(jobs, common.run_driver_parallel(lines)):
            checked += 1
            d = diff_rt(tok, norm_model(m))
            if d:
                violations.append({"signature": "model-vs-code", "what": "BasicErrorHandler differs from the proved model: " + d, "replay": case})
    return {"violations": violations, "cases": len(jobs), "nontrivial": len(distinct), "model_cases": checked,
            "disagreements_checked": checked, "samples": samples, "distribution": dict(dist),
            "rule": "error lists of real validations (with and without normalization, nested group and *of errors): purity oracle (two reads, recorded "
                    "errors and paths unchanged, empty iff no errors, top-level keys, one message per non-group error + one per *of error, dict only as last "
                    "list element); real handler logic under a token message table vs the extracted model, node by node; default rendering vs token rendering "
                    "on shape. Non-trivial = distinct cases with at least one error."}


def replay(rp):
    c = vrun.case_from_json(rp)
    v = pool.PoolValidator(c["schema"], **c["config"])
    v.validate(c["document"], update=c["update"])
    print(purity_oracle(v), v.errors)
    return 0
