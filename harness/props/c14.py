"""C14 -- registry references behave exactly like the inlined definition."""
import collections
import copy
import json
import random
import signal

import common
import nrun
import pool
import positions
import refs
import vrun
from gen import Gen
from common import cerberus, real_error, canon_errors

LEVEL = "proof"
COQ_FILES = ['theories/Model/Validate.v', 'theories/Model/Normalize.v', 'theories/Proofs/RefProofs.v', 'theories/Proofs/RefLevel.v', 'theories/Proofs/NormLevel.v', 'theories/Properties/C14.v']
FACT_GROUPS = ['F6']
ALLOWED_AXIOMS = []
TRUSTED_BASE = [
    "Coq 8.16.1 kernel; Print Assumptions: closed under the global context",
    "Model/Validate.v + Model/Normalize.v resolve references through the validator's registries (resolve_rules_set / resolve_schema) at the same use sites as the code; "
    "tied to the code by the inline-vs-reference oracle and the model diff on referenced schemas",
]
ASSUMPTIONS = ["definitions are registered before use; names are fresh strings; termination on the real code is observed under a time bound"]


class Timeout(Exception):
    pass


def _alarm(signum, frame):
    raise Timeout()


def observe(schema, cfg, docs, registries=None, module_level=False):
    kw = copy.deepcopy(cfg)
    saved = None
    if registries is not None:
        rr, sr = registries
        if module_level:
            saved = (dict(cerberus.rules_set_registry.all()), dict(cerberus.schema_registry.all()))
            cerberus.rules_set_registry.extend(rr.all())
            cerberus.schema_registry.extend(sr.all())
        else:
            kw["rules_set_registry"], kw["schema_registry"] = rr, sr
    signal.signal(signal.SIGALRM, _alarm)
    try:
        signal.alarm(5)
        try:
            v = pool.PoolValidator(copy.deepcopy(schema), **kw)
        except cerberus.SchemaError as e:
            return {"accepted": False, "msg": str(e)[:200]}
        except Timeout:
            return {"accepted": "timeout"}
        except RecursionError:
            return {"accepted": "raise:RecursionError"}
        except Exception as e:
            return {"accepted": "raise:" + type(e).__name__, "site": vrun.innermost_cerberus_frame(e)}
        out = {"accepted": True, "runs": []}
        for d in docs:
            try:
                ok = v.validate(copy.deepcopy(d))
                out["runs"].append((ok, canon_errors([real_error(e) for e in v._errors], with_sp=False, with_cv=False, with_info=False),
                                    common.canon_val(common.jval(v.document))))
            except Timeout:
                out["runs"].append(("timeout",))
            except RecursionError:
                out["runs"].append(("raise", "RecursionError"))
            except Exception as e:
                out["runs"].append(("raise", type(e).__name__, vrun.innermost_cerberus_frame(e)))
        return out
    finally:
        signal.alarm(0)
        if saved is not None:
            cerberus.rules_set_registry.clear(); cerberus.schema_registry.clear()
            cerberus.rules_set_registry.extend(saved[0]); cerberus.schema_registry.extend(saved[1])


def compare(a, b):
    if a["accepted"] is not True:
        return None
    if b["accepted"] is not True:
        return "inline schema accepted, referenced form: %s %s" % (b["accepted"], b.get("msg", b.get("site", "")))
    for x, y in zip(a["runs"], b["runs"]):
        if x != y:
            if x[0] == "raise":
                return None      # the inline form itself escapes: C03's business
            if y[0] in ("raise", "timeout"):
                return "referenced form %s where the inline form returns" % (y,)
            return "verdict / errors / normalized document differ from the inline form"
    return None


def sig_of(chosen, d):
    kinds = sorted({c[1] for c in chosen})
    tag = "+".join(kinds) if len(kinds) <= 2 else "multi"
    what = "accept" if "accepted" in d else ("raise" if "referenced form (" in d else "outcome")
    return "%s:%s" % (what, tag)


def run(ctx):
    thorough = ctx["tier"] == "thorough"
    n = 5000 if thorough else 450 * ctx.get('scale', 1)
    violations, samples = [], []
    dist = collections.Counter()
    distinct = set()
    cases = 0
    g = Gen(ctx["seed"] + 14, normalization=True, nested_bias=True)
    rng = random.Random(ctx["seed"] + 1)
    for i in range(n):
        schema = g.schema()
        cfg = g.config()
        docs = [g.doc_for(schema, p_present=0.75) for _ in range(2)]
        a = observe(schema, cfg, docs)
        if a["accepted"] is not True:
            dist["inline_rejected"] += 1
            continue
        pos = refs.referenceable(schema)
        if not pos:
            continue
        choices = [[p] for p in (pos if thorough else rng.sample(pos, min(len(pos), 4)))]
        for _ in range(3 if not thorough else 8):
            choices.append(rng.sample(pos, rng.randrange(1, len(pos) + 1)))
        for chosen in choices:
            s2, rdefs, sdefs = refs.substitute(schema, chosen)
            module_level = rng.random() < 0.35
            b = observe(s2, cfg, docs, refs.make_registries(rdefs, sdefs), module_level)
            cases += 1
            for c in chosen:
                dist["ref@" + c[1]] += 1
            dist["module_level" if module_level else "validator_bound"] += 1
            distinct.add(json.dumps(common.jval(s2), sort_keys=True, default=repr))
            d = compare(a, b)
            if d:
                # shrink the chosen set
                ch = list(chosen)
                changed = True
                while changed and len(ch) > 1:
                    changed = False
                    for j in range(len(ch)):
                        c2 = ch[:j] + ch[j + 1:]
                        s3, r3, sd3 = refs.substitute(schema, c2)
                        d3 = compare(a, observe(s3, cfg, docs, refs.make_registries(r3, sd3), module_level))
                        if d3:
                            ch, d, s2, rdefs, sdefs, changed = c2, d3, s3, r3, sd3, True
                            break
                sg = sig_of(ch, d)
                violations.append({"signature": sg if sg.startswith("raise:") else sg + (":module" if module_level else ":bound"),
                                   "what": "reference at %s (%s registries): %s" % ([c[1] for c in ch], "module-level" if module_level else "validator-bound", d),
                                   "replay": {"inline": common.jval(schema), "referenced": common.jval(s2), "rules_set_registry": common.jval(rdefs),
                                              "schema_registry": common.jval(sdefs), "config": common.jval(cfg), "module_level": module_level,
                                              "documents": [common.jval(x) for x in docs]}})
        if i == 1:
            samples.append({"inline": common.jval(schema), "referenced": common.jval(s2), "rules_set_registry": common.jval(rdefs), "schema_registry": common.jval(sdefs)})
    # allow_unknown given by name (validator level)
    for i in range(n // 4):
        rules = g.simple_rules(1)
        if not rules:
            continue
        doc = {'u': g.value_for(rules, 2, 0.6), 'w': g.arbitrary(1)}
        no_schema = None if i % 2 else {}          # ... also for a validator that holds no schema at all
        a = observe(no_schema, {"allow_unknown": rules}, [doc])
        if a["accepted"] is not True:
            continue
        b = observe(no_schema, {"allow_unknown": "AU"}, [doc], refs.make_registries({"AU": rules}, {}), rng.random() < 0.5)
        cases += 1
        dist["ref@allow_unknown-config"] += 1
        d = compare(a, b)
        if d:
            violations.append({"signature": ("accept" if "accepted" in d else "outcome") + ":allow_unknown-config",
                               "what": "allow_unknown given by name: " + d,
                               "replay": {"allow_unknown": common.jval(rules), "documents": [common.jval(doc)]}})
    # one name in BOTH registries (they are separate name spaces): a rules set 'N' that wraps the schema 'N'
    for i in range(60 if not thorough else 600):
        sub = g.schema(2, ['x', 'y', 'z'], 3)
        if not sub or not refs.is_mapping_schema(sub):
            continue
        rset = {'type': 'dict', 'schema': sub}
        where = rng.choice(['field', 'list-schema', 'valuesrules', 'items', 'dict-schema-field'])
        mk = {'field': lambda r: {'p': r}, 'list-schema': lambda r: {'p': {'type': 'list', 'schema': r}},
              'valuesrules': lambda r: {'p': {'type': 'dict', 'valuesrules': r}}, 'items': lambda r: {'p': {'type': 'list', 'items': [r]}},
              'dict-schema-field': lambda r: {'p': {'type': 'dict', 'schema': {'q': r}}}}[where]
        one = g.doc_for(sub, p_present=0.8)
        wrapd = {'field': lambda d: {'p': d}, 'list-schema': lambda d: {'p': [d, copy.deepcopy(d)]}, 'valuesrules': lambda d: {'p': {'k': d}},
                 'items': lambda d: {'p': [d]}, 'dict-schema-field': lambda d: {'p': {'q': d}}}[where]
        docs = [wrapd(one), wrapd({})]
        cfg = g.config()
        a = observe(mk(copy.deepcopy(rset)), cfg, docs)
        if a["accepted"] is not True:
            continue
        module_level = rng.random() < 0.4
        b = observe(mk('N'), cfg, docs, refs.make_registries({'N': {'type': 'dict', 'schema': 'N'}}, {'N': copy.deepcopy(sub)}), module_level)
        cases += 1
        dist["same-name-in-both-registries@" + where] += 1
        d = compare(a, b)
        if d:
            violations.append({"signature": "same-name:" + ("accept" if "accepted" in d else "outcome"),
                               "what": "a rules set and a schema registered under one name (%s position): %s" % (where, d),
                               "replay": {"inline": common.jval(mk(rset)), "referenced": common.jval(mk('N')), "rules_set_registry": common.jval({'N': {'type': 'dict', 'schema': 'N'}}),
                                          "schema_registry": common.jval({'N': sub}), "config": common.jval(cfg), "module_level": module_level,
                                          "documents": [common.jval(x) for x in docs]}})
    # top-level field rules given by name beside OTHER top-level fields written with shorthands / deprecated names /
    # spaces in their sub-structure: the reference must not disturb the expansion of its siblings
    from props import c15
    for i in range(120 if not thorough else 1500):
        base = c15.inject_of(g.schema(), g)
        tops = [p for p in refs.referenceable(base) if p[1] == 'field' and len(p[0]) == 1]
        if not tops:
            continue
        chosen = rng.sample(tops, rng.randrange(1, min(2, len(tops)) + 1))
        named = {c[0][0] for c in chosen}
        inside = rng.random() < 0.4       # ... or INSIDE the definitions that go to the registry (expanded when registered)
        el = [rw for rw in c15.eligible(base) if ((rw[1][0] in named) if inside else (rw[1][0] not in named and len(rw[1]) > 1))]
        if not el:
            continue
        sh = base
        for rw in sorted(rng.sample(el, rng.randrange(1, min(3, len(el)) + 1)), key=lambda x: -len(x[1])):
            try:
                sh = c15.apply_rewrite(sh, rw)
            except Exception:
                pass
        cfg = g.config()
        docs = [g.doc_for(base, p_present=0.75)]
        a = observe(sh, cfg, docs)
        if a["accepted"] is not True:
            continue
        chosen_sh = [c for c in refs.referenceable(sh) if c[1] == 'field' and len(c[0]) == 1 and c[0][0] in named]
        s2, rdefs, sdefs = refs.substitute(sh, chosen_sh)
        module_level = rng.random() < 0.35
        b = observe(s2, cfg, docs, refs.make_registries(rdefs, sdefs), module_level)
        cases += 1
        dist["ref@field-beside-shorthand-siblings" if not inside else "ref@field-holding-shorthands"] += 1
        d = compare(a, b)
        if d:
            violations.append({"signature": "shorthand-sibling:" + ("accept" if "accepted" in d else "outcome"),
                               "what": "top-level field rules given by name beside fields written in shorthand form: " + d,
                               "replay": {"inline": common.jval(sh), "referenced": common.jval(s2), "rules_set_registry": common.jval(rdefs),
                                          "schema_registry": common.jval(sdefs), "config": common.jval(cfg), "module_level": module_level,
                                          "documents": [common.jval(x) for x in docs]}})
    # a reference beside a field whose name has a space (a legal field name): the sub-schema must still be read as a schema
    for i in range(40 if not thorough else 400):
        other = rng.choice(['first name', 'a b', 'x y z'])
        inner = {'f': {'type': 'integer'}, other: g.simple_rules(1) or {'type': 'string'}}
        wrap = rng.choice(['dict', 'dict-in-dict', 'dict-in-list'])
        def build(sub):
            if wrap == 'dict':
                return {'a': {'type': 'dict', 'schema': sub}}
            if wrap == 'dict-in-dict':
                return {'a': {'type': 'dict', 'schema': {'b': {'type': 'dict', 'schema': sub}}}}
            return {'a': {'type': 'list', 'schema': {'type': 'dict', 'schema': sub}}}
        def wrapdoc(d):
            return {'a': d} if wrap == 'dict' else ({'a': {'b': d}} if wrap == 'dict-in-dict' else {'a': [d]})
        docs = [wrapdoc({'f': rng.choice([1, 'x']), other: g.value_for(inner[other], 1, 0.7)}), wrapdoc({'f': 1})]
        a = observe(build(inner), {}, docs)
        if a["accepted"] is not True:
            continue
        refd = dict(inner, f='RF')
        module_level = rng.random() < 0.5
        b = observe(build(refd), {}, docs, refs.make_registries({'RF': inner['f']}, {}), module_level)
        cases += 1
        dist["ref@field-beside-space-name"] += 1
        d = compare(a, b)
        if d:
            violations.append({"signature": "space-sibling:" + ("accept" if "accepted" in d else "outcome"),
                               "what": "field rules given by name beside the field %r (%s): %s" % (other, wrap, d),
                               "replay": {"inline": common.jval(build(inner)), "referenced": common.jval(build(refd)),
                                          "rules_set_registry": common.jval({'RF': inner['f']}), "schema_registry": {}, "config": {"d": []},
                                          "module_level": module_level, "documents": [common.jval(x) for x in docs]}})
    # recursive definitions: accepted, and terminate on every finite document
    for i in range(60 if not thorough else 600):
        depth = rng.randrange(0, 7)
        kind = rng.choice(["schema", "rules-set", "rules-set-items"])
        cases += 1
        dist["recursive_" + kind] += 1
        if kind == "schema":
            rdefs, sdefs = {}, {"S": {'v': {'type': 'integer'}, 'n': {'type': 'dict', 'schema': 'S'}}}
            schema = {'root': {'type': 'dict', 'schema': 'S'}}
            doc = {'v': 1}
            for _ in range(depth):
                doc = {'v': rng.choice([1, 'x']), 'n': doc}
            doc = {'root': doc}
        elif kind == "rules-set":
            rdefs, sdefs = {"N": {'type': 'dict', 'schema': {'v': {'type': 'integer'}, 'n': 'N'}}}, {}
            schema = {'root': 'N'}
            doc = {'v': 1}
            for _ in range(depth):
                doc = {'v': rng.choice([1, 'x']), 'n': doc}
            doc = {'root': doc}
        else:
            rdefs, sdefs = {"L": {'type': 'list', 'schema': {'anyof': [{'type': 'integer'}, {'type': 'list', 'schema': 'L'}]}}}, {}
            rdefs = {"L": {'type': ['list', 'integer'], 'schema': 'L'}}
            schema = {'root': 'L'}
            doc = 1
            for _ in range(depth):
                doc = [doc, rng.choice([2, 'x'])]
            doc = {'root': doc}
        b = observe(schema, {}, [doc], refs.make_registries(rdefs, sdefs), rng.random() < 0.5)
        bad = None
        if b["accepted"] is not True:
            bad = "self-referential %s definition not accepted: %s" % (kind, b["accepted"])
        elif b["runs"][0][0] in ("raise", "timeout"):
            bad = "self-referential %s definition: processing a document of depth %d ends with %r" % (kind, depth, b["runs"][0])
        if bad:
            violations.append({"signature": "recursive:" + kind + (":accept" if b["accepted"] is not True else ":process"), "what": bad,
                               "replay": {"schema": common.jval(schema), "rules_set_registry": common.jval(rdefs), "schema_registry": common.jval(sdefs),
                                          "documents": [common.jval(doc)]}})
    return {"violations": violations, "cases": cases, "nontrivial": len(distinct), "model_cases": 0, "disagreements_checked": 0,
            "samples": samples, "distribution": dict(dist),
            "rule": "C02-domain schemas; every reference-able position alone plus random subsets (chains arise from nested choices) replaced by registry "
                    "names, registries module-level or validator-bound; oracle: accepted iff inline accepted, same verdict / error keys / normalized document "
                    "on 2 documents; allow_unknown by name; self-referential schema / rules-set definitions on documents of depth <= 6 under a 5 s alarm. "
                    "Non-trivial = distinct referenced schemas."}


def replay(rp):
    print(json.dumps(rp)[:500])
    return 0
