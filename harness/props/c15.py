"""C15 -- schema shorthands mean exactly their canonical form."""
import collections
import copy
import json
import random

import common
import nrun
import pool
import positions
import vrun
from gen import Gen
from common import cerberus, real_error, canon_errors

LEVEL = "proof"
COQ_FILES = ["theories/Model/Expand.v", "theories/Proofs/ExpandProofs.v", "theories/Properties/C15.v"]
FACT_GROUPS = []
ALLOWED_AXIOMS = []
TRUSTED_BASE = [
    "Coq 8.16.1 kernel; Print Assumptions: closed under the global context",
    "Model/Expand.v: hand-written model of DefinitionSchema.expand (in-place rewriting modelled functionally; swallow-all except modelled), tied to "
    "schema.py by diffing validator.schema of shorthand variants against the model's expansion and by the canonical-vs-variant oracle on the real code",
    "translator fact group F18 (of-prefix tuple, split('_', 1), recursion rule tuples, deprecated pairs)",
]
ASSUMPTIONS = ["canonical schemas from the C01/C02 generators; every eligible position rewritten alone (quick) or in random subsets (thorough)"]

OFS = positions.OFS
DEPRECATED = {'keysrules': 'keyschema', 'valuesrules': 'valueschema', 'check_with': 'validator'}
SPACED = ('allow_unknown', 'require_all', 'purge_unknown', 'rename_handler', 'default_setter', 'check_with')


def inject_of(schema, g):
    """plant homogeneous *of rules (eligible for the <of>_<rule> shorthand) at random rule-set positions"""
    r = g.r
    pos = [p for p in positions.rule_sets(schema) if p[1] != 'of-definition' or r.random() < 0.3]
    for path, kind, rules in r.sample(pos, min(len(pos), r.randrange(1, 4))):
        if any(op in rules for op in OFS):
            continue
        op = r.choice(OFS)
        k = r.random()
        if k < 0.4:
            defs = [{'type': t} for t in r.sample(['integer', 'string', 'float', 'list', 'dict', 'boolean'], r.randrange(1, 4))]
        elif k < 0.6:
            defs = [{'min': v} for v in r.sample([0, 1, 5, 10], 2)]
        elif k < 0.75:
            defs = [{'allow_unknown': b} for b in (True, False)]
        elif k < 0.9:
            defs = [{'schema': {'x': {'type': 'integer'}}}, {'schema': {'y': {'type': 'string'}}}]
        else:
            defs = [{'allowed': [1, 2]}, {'allowed': ['a']}]
        rules[op] = defs
    return schema


def eligible(schema):
    out = []
    for path, kind, rules in positions.rule_sets(schema):
        for op in OFS:
            defs = rules.get(op)
            if isinstance(defs, list) and defs and all(isinstance(d, dict) and len(d) == 1 for d in defs) \
                    and len({list(d)[0] for d in defs}) == 1:
                out.append(("of", path, kind, op))
        for new, old in DEPRECATED.items():
            if new in rules:
                out.append(("deprecated", path, kind, new))
        for name in SPACED:
            if name in rules:
                out.append(("spaces", path, kind, name))
    return out


def apply_rewrite(schema, rw):
    what, path, kind, arg = rw

    def fn(rules):
        if what == "of":
            defs = rules.pop(arg)
            rule = list(defs[0])[0]
            rules["%s_%s" % (arg, rule)] = [d[rule] for d in defs]
        elif what == "deprecated":
            rules[DEPRECATED[arg]] = rules.pop(arg)
        else:
            rules[arg.replace("_", " ")] = rules.pop(arg)
    return positions.edit_at(schema, path, fn)


ENTRIES = ("schema-setter", "setitem", "update", "per-call")


def observe(schema, cfg, docs, entry="constructor"):
    try:
        if entry == "constructor":
            v = pool.PoolValidator(copy.deepcopy(schema), **copy.deepcopy(cfg))
        else:
            # the same definition handed over through another documented entry point
            v = pool.PoolValidator({}, **copy.deepcopy(cfg))
            s = copy.deepcopy(schema)
            if entry == "schema-setter":
                v.schema = s
            elif entry == "setitem":
                for k in s:
                    v.schema[k] = s[k]
            elif entry == "update":
                v.schema.update(s)
            else:
                v.validate({}, s)
    except cerberus.SchemaError:
        return {"accepted": False}
    except Exception as e:
        return {"accepted": "raise:" + type(e).__name__}
    out = {"accepted": True, "schema": copy.deepcopy(dict(v.schema)), "runs": []}
    for d in docs:
        try:
            ok = v.validate(copy.deepcopy(d))
            out["runs"].append((ok, canon_errors([real_error(e) for e in v._errors], with_sp=False, with_cv=False, with_info=False),
                                common.canon_val(common.jval(v.document))))
        except Exception as e:
            out["runs"].append(("raise", type(e).__name__))
    return out


def compare(canon_obs, var_obs, canonical):
    if canon_obs["accepted"] is not True:
        return None
    if var_obs["accepted"] is not True:
        return "canonical form accepted, shorthand form %s" % ("rejected" if var_obs["accepted"] is False else var_obs["accepted"])
    if var_obs["schema"] != canon_obs["schema"]:
        return "validator.schema is not the canonical form"
    if var_obs["runs"] != canon_obs["runs"]:
        return "verdict / errors / normalized document differ from the canonical form"
    return None


def signature(rw, schema):
    what, path, kind, arg = rw
    if what == "spaces":
        return "spaces"
    if what == "deprecated" and kind == "list-schema":
        rules = positions.get_at(schema, path)
        if all(isinstance(c, dict) for c in rules.values()):
            return "deprecated@list-schema:all-mapping-constraints"
    return "%s@%s" % (what, kind)


def run(ctx):
    thorough = ctx["tier"] == "thorough"
    n = 6000 if thorough else 500 * ctx.get('scale', 1)
    violations, samples = [], []
    dist = collections.Counter()
    cases = 0
    distinct = set()
    model_lines, model_jobs = [], []
    g = Gen(ctx["seed"] + 15, normalization=True, nested_bias=True)
    rng = random.Random(ctx["seed"])
    for i in range(n):
        canonical = inject_of(g.schema(), g)
        cfg = g.config()
        docs = [g.doc_for(canonical, p_present=0.75) for _ in range(2)]
        if rng.random() < 0.3:
            # some sub-schemas / rule sets are registry references (validator-bound registries, shared by canonical and variant)
            import refs
            pos = refs.referenceable(canonical)
            if pos:
                canonical, rdefs, sdefs = refs.substitute(canonical, rng.sample(pos, rng.randrange(1, min(3, len(pos)) + 1)))
                cfg["rules_set_registry"], cfg["schema_registry"] = refs.make_registries(rdefs, sdefs)
                dist["with_references"] += 1
        cobs = observe(canonical, cfg, docs)
        if cobs["accepted"] is not True:
            dist["canonical_rejected"] += 1
            continue
        el = eligible(canonical)
        picks = el if thorough else rng.sample(el, min(len(el), 6))
        variants = [(rw, apply_rewrite(canonical, rw)) for rw in picks]
        if thorough and len(el) > 1:
            for _ in range(4):
                sub = rng.sample(el, rng.randrange(2, min(len(el), 6) + 1))
                s2 = canonical
                ok = True
                for rw in sorted(sub, key=lambda x: -len(x[1])):     # deepest first keeps paths valid
                    try:
                        s2 = apply_rewrite(s2, rw)
                    except Exception:
                        ok = False
                if ok:
                    variants.append((("multi", (), "multi", [x[0] for x in sub], sub), s2))
        # model-vs-code: the extracted model of expand() on every variant, against the schema the real validator exposes
        if ctx["driver_ok"] and "rules_set_registry" not in cfg:
            for rw, var in variants[:3] + [(None, canonical)]:
                try:
                    out = ["X"]
                    common.enc_value(var, out)
                    model_lines.append(" ".join(out))
                    model_jobs.append((var, cfg))
                except ValueError:
                    pass
        for rw, var in variants:
            cases += 1
            dist[rw[0] + "@" + rw[2]] += 1
            distinct.add(json.dumps(common.jval(var), sort_keys=True, default=repr))
            d = compare(cobs, observe(var, cfg, docs), canonical)
            if not d:
                entry = rng.choice(ENTRIES)
                dist["entry_" + entry] += 1
                d = compare(observe(canonical, cfg, docs, entry), observe(var, cfg, docs, entry), canonical)
                if d:
                    d = "(through %s) %s" % (entry, d)
                    violations.append({"signature": "entry:" + entry, "what": "%s shorthand at %s position: %s" % (rw[0], rw[2], d),
                                       "replay": {"canonical": common.jval(canonical), "variant": common.jval(var), "config": common.jval(cfg),
                                                  "documents": [common.jval(x) for x in docs], "entry": entry}})
                    d = None
            if d and rw[0] == "multi":
                # shrink the set of rewrites: a violation that survives with a single rewrite is reported (and attributed) as that one
                def build(sub):
                    s2 = canonical
                    for r in sorted(sub, key=lambda x: -len(x[1])):
                        s2 = apply_rewrite(s2, r)
                    return s2
                sub = list(rw[4])
                changed = True
                while changed and len(sub) > 1:
                    changed = False
                    for j in range(len(sub)):
                        cand = sub[:j] + sub[j + 1:]
                        try:
                            v2 = build(cand)
                            d2 = compare(cobs, observe(v2, cfg, docs), canonical)
                        except Exception:
                            d2 = None
                        if d2:
                            sub, var, d, changed = cand, v2, d2, True
                            break
                rw = sub[0] if len(sub) == 1 else ("multi", (), "multi", [x[0] for x in sub], sub)
            if d:
                sig = signature(rw, canonical) if rw[0] != "multi" else "multi:" + "+".join(sorted(set(rw[3])))
                violations.append({"signature": sig, "what": "%s shorthand at %s position: %s" % (rw[0], rw[2], d),
                                   "replay": {"canonical": common.jval(canonical), "variant": common.jval(var), "config": common.jval(cfg),
                                              "documents": [common.jval(x) for x in docs]}})
        if i == 2 and variants:
            samples.append({"canonical": common.jval(canonical), "variant": common.jval(variants[0][1])})
    # directed family: deprecated names inside list-schema rule sets built from container rules only
    for i in range(40 if not thorough else 400):
        inner = {}
        if rng.random() < 0.7:
            inner['keysrules'] = {'type': rng.choice(['string', 'integer'])}
        if rng.random() < 0.7 or not inner:
            inner['valuesrules'] = {'type': rng.choice(['string', 'integer'])}
        if rng.random() < 0.3:
            inner['type'] = 'dict'
        canonical = {'a': {'type': 'list', 'schema': inner}}
        docs = [{'a': [{'k': rng.choice(['x', 1])}]}]
        cobs = observe(canonical, {}, docs)
        for rw in eligible(canonical):
            if rw[0] != "deprecated":
                continue
            var = apply_rewrite(canonical, rw)
            cases += 1
            dist["directed_deprecated@list-schema"] += 1
            d = compare(cobs, observe(var, {}, docs), canonical)
            if d:
                violations.append({"signature": signature(rw, canonical), "what": "deprecated name at list-schema position: " + d,
                                   "replay": {"canonical": common.jval(canonical), "variant": common.jval(var), "config": {"d": []},
                                              "documents": [common.jval(x) for x in docs]}})
    # shorthands in the config-level allow_unknown rule set and in registries
    for i in range(n // 5):
        rules = inject_of({'f': g.simple_rules(1)}, g)['f']
        el = [rw for rw in eligible({'f': rules})]
        if not el:
            continue
        rw = rng.choice(el)
        var = apply_rewrite({'f': rules}, rw)['f']
        doc = {'u': g.value_for(rules, 2, 0.6)}
        for where in ("allow_unknown-config", "rules-registry"):
            cases += 1
            dist[rw[0] + "@" + where] += 1
            if where == "allow_unknown-config":
                a = observe({}, {"allow_unknown": rules}, [doc])
                b = observe({}, {"allow_unknown": var}, [doc])
                if b.get("accepted") is True and a.get("accepted") is True:
                    b["schema"] = a["schema"]       # the schema proper is {} in both
            else:
                reg_a = cerberus.schema.RulesSetRegistry()
                reg_a.add('R', copy.deepcopy(rules))
                form = rng.choice(["add", "extend", "constructor"])       # the three ways of filling a registry
                if form == "add":
                    reg_b = cerberus.schema.RulesSetRegistry()
                    reg_b.add('R', copy.deepcopy(var))
                elif form == "extend":
                    reg_b = cerberus.schema.RulesSetRegistry()
                    reg_b.extend({'R': copy.deepcopy(var)})
                else:
                    reg_b = cerberus.schema.RulesSetRegistry({'R': copy.deepcopy(var)})
                dist["registry_filled_by_" + form] += 1
                a = observe({'u': 'R'}, {"rules_set_registry": reg_a}, [doc])
                b = observe({'u': 'R'}, {"rules_set_registry": reg_b}, [doc])
                if a.get("accepted") is True and reg_a.get('R') != reg_b.get('R'):
                    b["schema"] = "registry entry not canonical"
            d = compare(a, b, rules)
            if d:
                sig = "spaces" if rw[0] == "spaces" else "%s@%s" % (rw[0], where)
                violations.append({"signature": sig, "what": "%s shorthand in %s: %s" % (rw[0], where, d),
                                   "replay": {"canonical": common.jval(rules), "variant": common.jval(var), "where": where, "documents": [common.jval(doc)]}})
    modelled = 0
    if model_lines:
        for (var, cfg2), m in zip(model_jobs, common.run_driver_parallel(model_lines)):
            try:
                v = pool.PoolValidator(copy.deepcopy(var), **copy.deepcopy(cfg2))
            except Exception:
                continue
            modelled += 1
            real = common.canon_val(common.jval(dict(v.schema)))
            if m.get("r") != "ok" or common.canon_val(m["schema"]) != real:
                violations.append({"signature": "model-vs-code:expand", "what": "expand(): model %s, validator.schema %s" % (json.dumps(m)[:300], real[:300]),
                                   "replay": {"canonical": common.jval(var), "variant": common.jval(var), "config": common.jval(cfg2), "documents": []}})
    return {"violations": violations, "cases": cases, "nontrivial": len(distinct), "model_cases": modelled, "disagreements_checked": modelled,
            "samples": samples, "distribution": dict(dist),
            "rule": "canonical schemas (C01/C02 generators + planted homogeneous *of rules, incl. rules whose name contains '_'); every eligible position "
                    "(field rules, dict-/list-schema, keysrules, valuesrules, items members, *of definitions, allow_unknown rule sets at rule and validator level, "
                    "registry definitions) rewritten into <of>_<rule> / deprecated-name / spaces form; oracle: accepted iff canonical accepted, validator.schema "
                    "equals the canonical form, same verdict / error keys / normalized document on 2 documents; every variant also through one of the other entry points "
                    "(schema setter, item assignment, update, per-call schema) against the canonical form through the same one. Non-trivial = distinct variant schemas."}


def replay(rp):
    docs = [common.unjson(d) for d in rp["documents"]]
    cfg = common.unjson(rp.get("config", {"d": []}))
    a = observe(common.unjson(rp["canonical"]), cfg, docs, rp.get("entry", "constructor"))
    b = observe(common.unjson(rp["variant"]), cfg, docs, rp.get("entry", "constructor"))
    print(compare(a, b, None))
    return 0
