"""C16 -- extensions work at every depth of their class and nowhere else."""
import collections
import copy
import json
import random

import common
import pool
import positions
import vrun
from gen import Gen
from common import cerberus
from cerberus import TypeDefinition

LEVEL = "proof"
COQ_FILES = ['theories/Model/Validate.v', 'theories/Proofs/ChildProofs.v', 'theories/Properties/C16.v']
FACT_GROUPS = ['F6', 'F21']
ALLOWED_AXIOMS = []
TRUSTED_BASE = [
    "Coq 8.16.1 kernel; Print Assumptions: closed under the global context",
    "oracle: generated subclasses whose extension methods record (class, extra configuration) on every call; availability = the extension planted at a "
    "position of any depth is accepted and actually invoked by an instance of the same class carrying the extra configuration; isolation = base class and "
    "sibling classes reject the extension in every order of definition and use",
]
ASSUMPTIONS = ["extensions: one custom rule, one custom type, one coercer, one default setter, one check_with method per generated subclass"]

CALLS = []


def make_subclass(tag):
    """a fresh Validator subclass with one extension of every kind; every extension records who ran it"""
    def rec(self, what):
        CALLS.append((what, type(self).__name__, self._config.get('my_extra')))

    def _validate_is_odd(self, constraint, field, value):
        """{'type': 'boolean'}"""
        rec(self, 'rule')
        if constraint and isinstance(value, int) and not isinstance(value, bool) and not value % 2:
            self._error(field, "not odd")

    def _normalize_coerce_twice(self, value):
        rec(self, 'coercer')
        return value * 2

    def _normalize_default_setter_seven(self, document):
        rec(self, 'setter')
        return 7

    def _check_with_small(self, field, value):
        rec(self, 'check_with')
        if isinstance(value, int) and value > 100:
            self._error(field, "too big")

    ns = {'_validate_is_odd': _validate_is_odd, '_normalize_coerce_twice_' + tag: _normalize_coerce_twice,
          '_normalize_default_setter_seven_' + tag: _normalize_default_setter_seven, '_check_with_small_' + tag: _check_with_small}
    ns['_validate_is_odd_' + tag] = _validate_is_odd
    del ns['_validate_is_odd']
    cls = type('Sub_' + tag, (cerberus.Validator,), ns)
    cls.types_mapping = cerberus.Validator.types_mapping.copy()
    cls.types_mapping['tiny_' + tag] = TypeDefinition('tiny_' + tag, (int,), (bool,))
    return cls


def extension_rules(tag, kind):
    return {'rule': {'is_odd_' + tag: True}, 'type': {'type': 'tiny_' + tag}, 'type-list': {'type': ['integer', 'tiny_' + tag, 'string']}, 'coercer': {'coerce': 'twice_' + tag},
            'setter': {'default_setter': 'seven_' + tag}, 'check_with': {'check_with': 'small_' + tag},
            'check_with-list': {'check_with': ['small_' + tag, 'small_' + tag]}}[kind]


def plant(schema, path, pkind, tag, kind):
    ext = extension_rules(tag, kind)

    def fn(rules):
        if kind in ('type', 'type-list'):
            rules.pop('type', None)
            for r in ('schema', 'items', 'keysrules', 'valuesrules', 'allow_unknown', 'require_all', 'purge_unknown'):
                rules.pop(r, None)
        if kind == 'coercer':
            rules.pop('coerce', None)
        if kind == 'setter':
            rules.pop('default', None)
        rules.update(copy.deepcopy(ext))
    return positions.edit_at(schema, path, fn)


def doc_reaching(schema, path, g, kind):
    """a document in which the planted position is reached by a value (best effort: near-valid document, repeated)"""
    return [g.doc_for(schema, p_valid=1.0, p_present=1.0, p_unknown=0.0) for _ in range(4)]


def run(ctx):
    thorough = ctx["tier"] == "thorough"
    n = 3000 if thorough else 260 * ctx.get('scale', 1)
    rng = random.Random(ctx["seed"] + 16)
    g = Gen(ctx["seed"] + 160, normalization=False, nested_bias=True, of_rules=True)
    violations, samples = [], []
    dist = collections.Counter()
    cases = 0
    distinct = set()
    for i in range(n):
        tag = "t%d" % i
        order = rng.choice(["sub-first", "base-first"])
        base_schema = g.schema()
        try:
            cerberus.Validator(copy.deepcopy(base_schema))
        except Exception:
            continue
        pos = [p for p in positions.rule_sets(base_schema)]
        if not pos:
            continue
        path, pkind, rules = rng.choice(pos)
        kind = rng.choice(['rule', 'type', 'type-list', 'coercer', 'setter', 'check_with', 'check_with-list'])
        if pkind == 'of-definition' and kind in ('coercer', 'setter'):
            kind = 'rule'
        if pkind == 'keysrules' and kind == 'setter':
            kind = 'check_with'
        planted = plant(base_schema, path, pkind, tag, kind)
        distinct.add(json.dumps(common.jval(planted), sort_keys=True, default=repr))
        rp = {"schema": common.jval(planted), "extension": kind, "position": pkind, "order": order}

        def base_rejects(when):
            for cls, name in ((cerberus.Validator, "base Validator"),) + ((other, "a sibling subclass"),):
                try:
                    cls(copy.deepcopy(planted))
                    violations.append({"signature": "isolation:%s" % kind,
                                       "what": "%s accepts a schema using a %s of another subclass (%s, %s position)" % (name, kind, when, pkind), "replay": rp})
                except cerberus.SchemaError:
                    pass
                except Exception as e:
                    violations.append({"signature": "isolation-raise:%s" % type(e).__name__,
                                       "what": "%s: %r instead of SchemaError for a foreign %s" % (name, e, kind), "replay": rp})
        other = make_subclass("o%d" % i)
        if order == "base-first":
            base_rejects("before the subclass exists")
        Sub = make_subclass(tag)
        if order == "base-first":
            base_rejects("after the subclass was defined, before it was used")
        cases += 1
        dist["%s@%s" % (kind, pkind)] += 1
        # availability
        try:
            v = Sub(copy.deepcopy(planted), my_extra=42)
        except cerberus.SchemaError as e:
            violations.append({"signature": "availability:%s" % kind,
                               "what": "the subclass rejects its own %s at a %s position: %s" % (kind, pkind, str(e)[:150]), "replay": rp})
            continue
        except Exception as e:
            violations.append({"signature": "availability-raise:%s" % type(e).__name__, "what": "constructing the subclass raised %r" % (e,), "replay": rp})
            continue
        del CALLS[:]
        problems = None
        for d in doc_reaching(planted, path, g, kind):
            try:
                v.validate(copy.deepcopy(d))
            except RuntimeError as e:
                problems = "validate raised %r: the extension is not available at that depth" % (e,)
                break
            except Exception as e:
                # nothing may escape from validate() (C03); with an extension planted, an escaping exception means it was not dispatched as at the top level
                dist["validate_raise_" + type(e).__name__] += 1
                problems = "validate raised %r with the extension in the schema" % (e,)
                break
        if problems:
            violations.append({"signature": "availability:%s" % kind, "what": problems + " (%s position)" % pkind, "replay": rp})
        wrong = [c for c in CALLS if c[1] != Sub.__name__ or c[2] != 42]
        if wrong:
            violations.append({"signature": "child-class:%s" % kind,
                               "what": "extension ran in an instance of %s with my_extra=%r (expected %s, 42) at a %s position" % (wrong[0][1], wrong[0][2], Sub.__name__, pkind),
                               "replay": rp})
        if kind not in ('type', 'type-list'):
            dist["invoked" if any(c[0] == kind for c in CALLS) else "not_reached"] += 1
        # isolation after use (both orders)
        base_rejects("after the subclass used it")
        # ... also when the very SAME schema object goes from one instance to the next: a second instance of the subclass with
        # another configuration runs its own extensions, and the other classes still reject the object
        shared = copy.deepcopy(planted)
        try:
            v1 = Sub(shared, my_extra=42)
            for d in doc_reaching(planted, path, g, kind):
                try:
                    v1.validate(copy.deepcopy(d))
                except Exception:
                    pass
            del CALLS[:]
            v2 = Sub(shared, my_extra=43)
            for d in doc_reaching(planted, path, g, kind):
                try:
                    v2.validate(copy.deepcopy(d))
                except Exception:
                    pass
            wrong = [c for c in CALLS if c[1] != Sub.__name__ or c[2] != 43]
            if wrong:
                violations.append({"signature": "child-class:%s" % kind,
                                   "what": "second instance on the same schema object: extension ran with my_extra=%r (expected 43) at a %s position" % (wrong[0][2], pkind),
                                   "replay": rp})
            for cls, name in ((cerberus.Validator, "base Validator"), (other, "a sibling subclass")):
                try:
                    cls(shared)
                    violations.append({"signature": "isolation:%s" % kind,
                                       "what": "%s accepts the schema OBJECT a subclass has used (%s at a %s position)" % (name, kind, pkind), "replay": rp})
                except cerberus.SchemaError:
                    pass
                except Exception as e:
                    violations.append({"signature": "isolation-raise:%s" % type(e).__name__,
                                       "what": "%s: %r instead of SchemaError for the schema object a subclass has used" % (name, e), "replay": rp})
        except cerberus.SchemaError:
            pass
        # the subclass's own extensions of other kinds still known (tables not clobbered by the sibling)
        for k2 in ('rule', 'type', 'type-list', 'coercer', 'setter', 'check_with', 'check_with-list'):
            try:
                Sub({'zz': extension_rules(tag, k2)})
            except cerberus.SchemaError as e:
                violations.append({"signature": "availability:%s" % k2, "what": "subclass lost its %s after a sibling class was defined: %s" % (k2, str(e)[:120]), "replay": rp})
        if i == 3:
            samples.append(rp)
    # subclasses that add only ONE kind of extension (no new rule method), in pairs of siblings
    def accepts(cls, schema):
        try:
            cls(copy.deepcopy(schema))
            return True
        except cerberus.SchemaError:
            return False
    for i in range(200 if thorough else 40 * ctx.get('scale', 1)):
        kind = rng.choice(['check_with', 'coercer', 'setter'])
        prefix = {'check_with': '_check_with_', 'coercer': '_normalize_coerce_', 'setter': '_normalize_default_setter_'}[kind]
        rule = {'check_with': 'check_with', 'coercer': 'coerce', 'setter': 'default_setter'}[kind]
        na, nb = "xa%d" % i, "xb%d" % i
        parent = rng.choice([cerberus.Validator, pool.PoolValidator])
        A = type('OnlyA%d' % i, (parent,), {prefix + na: (lambda self, *a: None)})
        sa = rng.choice([{'f': {'type': 'list', 'schema': {rule: na}}}, {'f': {rule: na}},
                         {'f': {'type': 'dict', 'schema': {'g': {rule: na}}}},
                         {'f': {'type': 'dict', 'schema': {'g': {'type': 'dict', 'schema': {'h': {rule: na}}}}}},
                         {'f': {'type': 'dict', 'valuesrules': {rule: na}}}, {'f': {'anyof': [{rule: na}]}} if kind == 'check_with' else {'f': {'type': 'list', 'items': [{rule: na}]}}])
        ok_before = accepts(A, sa)
        B = type('OnlyB%d' % i, (parent,), {prefix + nb: (lambda self, *a: None)})
        sb = {'f': {rule: nb}}
        cases += 1
        dist["single-kind-pair_" + kind] += 1
        rp = {"kind": kind, "schema_a": common.jval(sa), "schema_b": common.jval(sb), "parent": parent.__name__}
        if not ok_before or not accepts(A, sa):
            violations.append({"signature": "availability:%s" % kind, "what": "a subclass that only adds a %s lost it after a sibling class was defined" % kind, "replay": rp})
        if not accepts(B, sb):
            violations.append({"signature": "availability:%s" % kind, "what": "the sibling subclass rejects its own %s" % kind, "replay": rp})
        for cls, sch, who in ((parent, sa, "parent class"), (parent, sb, "parent class"), (A, sb, "sibling"), (B, sa, "sibling")):
            if rng.random() < 0.5:
                cls.clear_caches()
            if accepts(cls, sch):
                violations.append({"signature": "isolation:%s" % kind, "what": "the %s accepts a %s defined on another subclass" % (who, kind), "replay": rp})
    # the same extension rules behave alike at every depth: a rules set built from a subclass's coercers / rename handlers /
    # check_with methods (some of them failing) gives the same value and the same number of errors at the top level and planted
    # below a dict-schema, a list-schema, valuesrules and items
    class Deep(cerberus.Validator):
        def _normalize_coerce_twice(self, value):
            return value * 2

        def _normalize_coerce_boom(self, value):
            raise ValueError("boom")

        def _normalize_coerce_upper(self, value):
            return value.upper()

        def _check_with_short(self, field, value):
            if isinstance(value, str) and len(value) > 2:
                self._error(field, "too long")
    for i in range(60 if not thorough else 600):
        chain = [rng.choice(['twice', 'boom', 'upper', 'twice']) for _ in range(rng.randrange(1, 4))]
        rules = {'coerce': chain if rng.random() < 0.8 else chain[0]}
        if rng.random() < 0.5:
            rules['check_with'] = 'short'
        if rng.random() < 0.3:
            rules['type'] = 'string'
        val = rng.choice(['x', 'ab', 3, None, ['q']])
        shapes = {'top': ({'f': rules}, {'f': val}, lambda d: d.get('f')),
                  'dict-schema': ({'f': {'type': 'dict', 'schema': {'g': rules}}}, {'f': {'g': val}}, lambda d: d['f'].get('g')),
                  'list-schema': ({'f': {'type': 'list', 'schema': rules}}, {'f': [val]}, lambda d: d['f'][0]),
                  'valuesrules': ({'f': {'type': 'dict', 'valuesrules': rules}}, {'f': {'k': val}}, lambda d: d['f'].get('k')),
                  'items': ({'f': {'type': 'list', 'items': [rules]}}, {'f': [val]}, lambda d: d['f'][0]),
                  'dict-in-list': ({'f': {'type': 'list', 'schema': {'type': 'dict', 'schema': {'g': rules}}}}, {'f': [{'g': val}]}, lambda d: d['f'][0].get('g'))}
        outs = {}
        for name, (sch, doc, get) in shapes.items():
            try:
                v = Deep(copy.deepcopy(sch))
                ok = v.validate(copy.deepcopy(doc))

                def leafs(errs):
                    n = []
                    for e in errs:
                        if e.child_errors and not e.is_logic_error:
                            n.extend(leafs(e.child_errors))
                        else:
                            n.append(e.code)
                    return sorted(n)
                outs[name] = (ok, repr(get(v.document)), leafs(v._errors))
            except Exception as e:
                outs[name] = ("raise", type(e).__name__)
        cases += 1
        dist["same-rules-at-depth"] += 1
        bad = [k for k in outs if outs[k] != outs['top']]
        if bad:
            violations.append({"signature": "depth-uniformity:" + bad[0],
                               "what": "rules %r on %r: at the top level %r, below %s %r" % (rules, val, outs['top'], bad[0], outs[bad[0]]),
                               "replay": {"rules": common.jval(rules), "value": common.jval(val), "outcomes": {k: repr(x) for k, x in outs.items()}}})
    # a subclass's extensions in the rule set for unknown fields given as the validator's OPTION (constructor and setter):
    # available to the subclass, rejected by the base class and by a sibling
    for i in range(20 if not thorough else 200):
        tag = "au%d" % i
        Sub, Other = make_subclass(tag), make_subclass("auo%d" % i)
        kind = rng.choice(['rule', 'type', 'coercer', 'check_with'])
        rules = extension_rules(tag, kind)
        for how in ("constructor", "setter"):
            def build(cls):
                if how == "constructor":
                    return cls({}, allow_unknown=copy.deepcopy(rules))
                v = cls({})
                v.allow_unknown = copy.deepcopy(rules)
                return v
            cases += 1
            dist["allow_unknown-option_" + how] += 1
            try:
                v = build(Sub)
                v.validate({'u': 3})
            except Exception as e:
                violations.append({"signature": "availability:%s" % kind, "what": "the subclass's own %s as allow_unknown option (%s): %r" % (kind, how, e),
                                   "replay": {"rules": common.jval(rules), "how": how}})
            for cls, who in ((cerberus.Validator, "base Validator"), (Other, "a sibling subclass")):
                try:
                    build(cls)
                    violations.append({"signature": "isolation:%s" % kind, "what": "%s accepts a %s of another subclass as allow_unknown option (%s)" % (who, kind, how),
                                       "replay": {"rules": common.jval(rules), "how": how}})
                except cerberus.SchemaError:
                    pass
                except Exception as e:
                    violations.append({"signature": "isolation-raise:%s" % type(e).__name__, "what": "%s: %r instead of SchemaError (allow_unknown option, %s)" % (who, e, how),
                                       "replay": {"rules": common.jval(rules), "how": how}})
    # siblings (and a grandchild) that define a rule of the SAME name with different argument schemas: each class
    # checks constraints against its own declaration, whatever was defined or used before
    def mk(name, parent, doc):
        def _validate_limit(self, constraint, field, value):
            pass
        _validate_limit.__doc__ = doc
        return type(name, (parent,), {'_validate_limit': _validate_limit})
    decls = [("{'type': 'integer'}", 5, 'x'), ("{'type': 'string'}", 'x', 5), ("{'type': 'list'}", [1], 5), ("{'type': 'boolean'}", True, 'x')]
    for i in range(30 if not thorough else 300):
        (d1, ok1, bad1), (d2, ok2, bad2) = rng.sample(decls, 2)
        parent = rng.choice([cerberus.Validator, pool.PoolValidator])
        A = mk('LimitA%d' % i, parent, d1)
        B = mk('LimitB%d' % i, rng.choice([parent, A]), d2)     # a sibling, or a grandchild overriding the rule
        wrap = rng.choice([lambda r: {'f': r}, lambda r: {'f': {'type': 'list', 'schema': r}},
                           lambda r: {'f': {'type': 'dict', 'schema': {'g': r}}}, lambda r: {'f': {'type': 'dict', 'valuesrules': r}}])
        order = [(A, ok1, True), (A, bad1, False), (B, ok2, True), (B, bad2, False)]
        rng.shuffle(order)
        for cls, cons, expect in order:
            cases += 1
            dist["same-name-rule"] += 1
            got = accepts(cls, wrap({'limit': cons}))
            if got != expect:
                violations.append({"signature": "same-name-rule:" + ("availability" if expect else "isolation"),
                                   "what": "%s (rule `limit` declared %s) %s the constraint %r" % (
                                       cls.__name__, d1 if cls is A else d2, "rejects" if expect else "accepts", cons),
                                   "replay": {"decl_a": d1, "decl_b": d2, "constraint": common.jval(cons), "class": cls.__name__}})
    return {"violations": violations, "cases": cases, "nontrivial": len(distinct), "model_cases": 0, "disagreements_checked": 0,
            "samples": samples, "distribution": dict(dist),
            "rule": "per case a fresh subclass (custom rule, type, coercer, default setter, check_with method; every extension records the class and the extra "
                    "configuration of the instance running it) and a fresh sibling; the extension is planted at a random rule-set position of a C01-domain schema "
                    "(any depth / container kind); availability: accepted by the subclass(my_extra=42), no RuntimeError at validation, every recorded call ran in "
                    "the same class with my_extra=42; isolation: base class and sibling reject the schema before definition, after definition and after use. "
                    "Non-trivial = distinct planted schemas."}


def replay(rp):
    print(json.dumps(rp)[:600])
    return 0
