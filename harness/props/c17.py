"""C17 -- default setters resolve in dependency order and always terminate."""
import collections
import copy
import itertools
import json
import random

import common
import nrun
import pool
from common import cerberus, real_error

LEVEL = "proof"
COQ_FILES = ['theories/Model/Worklist.v', 'theories/Proofs/WorklistProofs.v', 'theories/Proofs/DefaultsProofs.v', 'theories/Proofs/LfpProofs.v', 'theories/Proofs/SetterLfp.v', 'theories/Properties/C17.v']
FACT_GROUPS = ['F11', 'F12']
ALLOWED_AXIOMS = []
TRUSTED_BASE = [
    "Coq 8.16.1 kernel; Print Assumptions: closed under the global context",
    "Model/Normalize.v (setter_loop: pop(0) work-list with re-queue on KeyError and seen-set) tied to __normalize_default_fields by the differential run and "
    "the F12 shape tokens (the seen-set holds the pending tuples themselves since be0af7a)",
    "setters are the pool functions rd_/rdx_/rdk_<letters> (read fields, then return / raise ValueError / raise KeyError)",
]
ASSUMPTIONS = [
    "fields already present hold non-None values (a present, non-nullable None that also has a setter is read by other setters before it is replaced: order-dependent, outside the stated domain)",
]

CALLS = [0]


def counting_setter(name):
    f = pool.make_setter(name)

    def s(doc):
        CALLS[0] += 1
        return f(doc)
    s._pool_name = name
    return s


def spec_setter(spec):
    """the setter of a spec over ANY field names (the pool's named setters read one-letter names only)"""
    kind, reads = spec

    def s(doc):
        CALLS[0] += 1
        vals = [doc[r] for r in reads]
        if kind == 'rdx':
            raise ValueError("setter failed")
        if kind == 'rdk':
            raise KeyError("setter raised KeyError itself")
        if kind == 'rdr':
            raise NotImplementedError("setter not implemented")
        return vals
    return s


def expected(fields, present):
    """fields: {name: None | (kind, reads)}; returns (resolved order-free values, failed set, circular set)"""
    resolved = dict(present)
    failed = set()
    changed = True
    while changed:
        changed = False
        for f, spec in fields.items():
            if f in resolved or f in failed or spec is None:
                continue
            kind, reads = spec
            if all(x in resolved for x in reads):
                if kind == 'rd':
                    resolved[f] = [resolved[x] for x in reads]
                    changed = True
                elif kind in ('rdx', 'rdr'):
                    failed.add(f)
                    changed = True
    circular = {f for f, spec in fields.items() if spec is not None and f not in resolved and f not in failed}
    return resolved, failed, circular


def run_graph(order, fields, present, use_names, wrap=None):
    schema = {}
    letters = all(isinstance(f, str) and len(f) == 1 for f in fields)
    for f in order:
        spec = fields[f]
        if spec is None:
            schema[f] = {}
        elif not letters:
            schema[f] = {'default_setter': spec_setter(spec)}
        else:
            name = "%s_%s" % (spec[0], "".join(spec[1]))
            schema[f] = {'default_setter': name if (use_names and name in pool.SETTER_NAMES) else counting_setter(name)}
    doc = {f: present[f] for f in order if f in present}
    # the same graph inside a sub-document (a dict field, or a dict item of a list): resolved by a child validator
    cfg = {}
    if wrap == 'dict':
        schema, doc = {'sub': {'type': 'dict', 'schema': schema}}, {'sub': doc}
    elif wrap == 'list':
        schema, doc = {'rows': {'type': 'list', 'schema': {'type': 'dict', 'schema': schema}}}, {'rows': [{'zz': 1}, doc]}
        schema['rows']['schema']['schema'] = dict(schema['rows']['schema']['schema'], zz={})
    elif wrap == 'values':
        schema, doc = {'table': {'type': 'dict', 'valuesrules': {'type': 'dict', 'schema': schema}}}, {'table': {'k': doc}}
    elif wrap == 'items':
        schema, doc = {'pair': {'type': 'list', 'items': [{'type': 'integer'}, {'type': 'dict', 'schema': schema}]}}, {'pair': [1, doc]}
    elif wrap == 'unknown':
        cfg = {'allow_unknown': {'type': 'dict', 'schema': schema}}
        schema, doc = {'known': {}}, {'extra': doc}
    v = pool.PoolValidator(schema, **cfg)
    CALLS[0] = 0
    out = v.normalized(copy.deepcopy(doc), always_return_document=True)
    errs = v._errors
    inner = {'dict': ('sub',), 'list': ('rows', 1), 'values': ('table', 'k'), 'items': ('pair', 1), 'unknown': ('extra',)}.get(wrap, ())
    if inner:
        errs = [e for e in errs if tuple(e.document_path[:len(inner)]) == inner]
        for k in inner:
            out = out[k] if out is not None else None
    return schema, doc, out, errs, CALLS[0], cfg


def check_graph(order, fields, present, use_names=False, wrap=None):
    n = len([f for f in fields if fields[f] is not None])
    try:
        schema, doc, out, errs, calls, cfg = run_graph(order, fields, present, use_names, wrap)
    except Exception as e:
        return "normalized() raised %r" % (e,), None
    resolved, failed, circular = expected(fields, present)
    if out != resolved:
        return "result %r != least fixpoint %r" % (out, resolved), (schema, doc, cfg)
    got = collections.Counter(e.document_path[-1] for e in errs if e.code == 0x64)
    if any(e.code != 0x64 for e in errs) or got != collections.Counter(list(failed) + list(circular)):
        return "default-setting errors for %r, expected for failed %r + circular %r" % (sorted(got.elements(), key=repr), sorted(failed, key=repr), sorted(circular, key=repr)), (schema, doc, cfg)
    for e in errs:
        f = e.document_path[-1]
        circ = 'Circular' in str(e.info[0])
        if circ != (f in circular):
            return "field %r: circular-dependency message %r but expected %s" % (f, circ, "circular" if f in circular else "own failure"), (schema, doc, cfg)
    if wrap not in ('list',) and calls > n * (n + 1) + 1:      # (in a list the other rows run their setters too)
        return "%d setter calls for %d setters (bound n(n+1)+1)" % (calls, n), (schema, doc, cfg)
    return None, (schema, doc, cfg)


def all_specs(names, small):
    specs = [None]
    for k in range(len(names) + 1):
        for reads in itertools.combinations(names, k):
            specs.append(('rd', reads))
            if k <= (1 if small else len(names)):
                specs.append(('rdx', reads))
                specs.append(('rdk', reads))
            if k == 0:
                specs.append(('rdr', reads))
    return specs


def run(ctx):
    thorough = ctx["tier"] == "thorough"
    rng = random.Random(ctx["seed"])
    violations, samples = [], []
    dist = collections.Counter()
    cases = 0
    model_lines, model_jobs = [], []

    def one(order, fields, present, tag):
        nonlocal cases
        wrap = rng.choice([None] * 10 + ['dict', 'list', 'values', 'items', 'unknown'])
        if any(isinstance(f, tuple) for f in fields):
            wrap = None          # (a tuple is a legal field name; as a crumb of a child validator it is read as a path: outside what is checked here)
        d, sd = check_graph(order, fields, present, use_names=rng.random() < 0.3, wrap=wrap)
        cases += 1
        dist[tag] += 1
        if wrap:
            dist["graph_in_sub_document_" + wrap] += 1
            if d:
                d = "(graph inside a %s sub-document) " % wrap + d
        if d:
            violations.append({"signature": "lfp:" + d.split("sub-document) ")[-1].split(" ")[0], "what": d,
                               "replay": {"order": list(order), "fields": [[k, (list(v[0:1]) + [list(v[1])] if v else None)] for k, v in fields.items()],
                                          "present": [[k, v] for k, v in present.items()], "wrap": wrap}})
        if sd and len(model_lines) < (20000 if thorough else 1500 * ctx.get('scale', 1)) and rng.random() < 0.2:
            try:
                model_lines.append(nrun.encode(sd[0], sd[2], sd[1], False, "normalized", "c"))
                model_jobs.append(sd)
            except ValueError:
                pass

    # exhaustive on 2 fields (all specs, all present subsets, all orders)
    names = ['a', 'b']
    for combo in itertools.product(all_specs(names, False), repeat=2):
        fields = dict(zip(names, combo))
        for k in range(3):
            for pres in itertools.combinations(names, k):
                for order in itertools.permutations(names):
                    one(order, fields, {p: 1 for p in pres}, "exhaustive_2")
    names = ['a', 'b', 'c']
    specs3 = all_specs(names, True)
    space = list(itertools.product(specs3, repeat=3))
    if not thorough:
        space = rng.sample(space, 700)
    for combo in space:
        fields = dict(zip(names, combo))
        for k in range(4):
            for pres in itertools.combinations(names, k):
                orders = list(itertools.permutations(names))
                for order in (orders if thorough else rng.sample(orders, 2)):
                    one(order, fields, {p: rng.choice([1, 'v']) for p in pres}, "graphs_3")
    for nf, cnt in ((4, 30000 if thorough else 1500 * ctx.get('scale', 1)), (5, 15000 if thorough else 600 * ctx.get('scale', 1)), (6, 8000 if thorough else 300 * ctx.get('scale', 1))):
        names = ['a', 'b', 'c', 'd', 'e', 'f'][:nf]
        for _ in range(cnt):
            fields = {}
            for f in names:
                k = rng.random()
                if k < 0.2:
                    fields[f] = None
                else:
                    reads = tuple(rng.sample(names, rng.choice([0, 1, 1, 2, 2, 3])))
                    fields[f] = (rng.choice(['rd', 'rd', 'rd', 'rd', 'rdx', 'rdk', 'rdr']), reads)
            pres = {p: 1 for p in names if rng.random() < 0.3}
            order = names[:]
            rng.shuffle(order)
            one(tuple(order), fields, pres, "random_%d" % nf)
    # field names that are integers (hash(-1) == hash(-2) in CPython: the seen-set must hold the pending tuples, not their hashes)
    pool_names = [-1, -2, 0, 1, 2, 'a', -3, ('k', 1), ('k', 2)]
    for _ in range(6000 if thorough else 900 * ctx.get('scale', 1)):
        names = rng.sample(pool_names, rng.choice([2, 3, 3, 4]))
        fields = {}
        for f in names:
            k = rng.random()
            if k < 0.1:
                fields[f] = None
            else:
                fields[f] = (rng.choice(['rd', 'rd', 'rd', 'rd', 'rdx', 'rdk']), tuple(rng.sample(names, rng.randrange(0, min(3, len(names) + 1)))))
        pres = {f: 1 for f in names if fields[f] is None or rng.random() < 0.1}
        order = list(names)
        rng.shuffle(order)
        one(tuple(order), fields, pres, "integer_names_%d" % len(names))
    samples.append({"order": ['b', 'a', 'c'], "fields": {"a": ["rd", ["b"]], "b": ["rd", ["c"]], "c": ["rdx", []]}, "present": {}})
    # model correspondence on a sample of the same graphs
    dis = 0
    if ctx["driver_ok"] and model_lines:
        for (schema, doc, cfg), m in zip(model_jobs, common.run_driver_parallel(model_lines)):
            r = nrun.real_api(schema, cfg, doc, False, "normalized")
            dis += 1
            d = nrun.compare(r, m)
            if d:
                violations.append({"signature": "model-vs-code", "what": "work-list model vs code: " + d,
                                   "replay": {"schema": common.jval(schema), "document": common.jval(doc), "config": common.jval(cfg)}})
    return {"violations": violations, "cases": cases, "nontrivial": cases, "model_cases": dis, "disagreements_checked": dis,
            "samples": samples, "distribution": dict(dist), "exhaustive": thorough,
            "rule": "dependency graphs of default setters: exhaustive on 2 fields (every setter kind x reads subset incl. self-loops x present subsets x orders); "
                    "on 3 fields %s; random graphs on 4-6 fields; oracle: result = least fixpoint computed independently, SETTING_DEFAULT_FAILED exactly for "
                    "fields on/behind a cycle (circular message) or whose own setter raised (own message), step bound n(n+1)+1 on setter calls; a sample is also "
                    "diffed against the extracted work-list model. Every case counts as non-trivial (distinct by construction within a family)." % (
                        "exhaustive (size-<=1 read sets for raising setters, all orders)" if thorough else "700 sampled graphs x present subsets x 2 orders")}


def replay(rp):
    items = rp["fields"].items() if isinstance(rp["fields"], dict) else rp["fields"]
    fields = {k: ((v[0], tuple(v[1])) if v else None) for k, v in items}
    present = rp["present"] if isinstance(rp["present"], dict) else dict(map(tuple, rp["present"]))
    print(check_graph(tuple(rp["order"]), fields, present, wrap=rp.get("wrap"))[0])
    return 0
