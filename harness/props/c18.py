"""C18 -- validators used from different threads do not interfere (partial: line-granular schedules)."""
import collections
import copy
import json
import random
import sys
import threading

import common
import pool
import sched
import vrun
from gen import Gen
from common import cerberus, real_error, canon_errors
import cerberus.schema as cschema

LEVEL = "proof"
COQ_FILES = ["theories/Model/Threads.v", "theories/Proofs/ThreadsProofs.v", "theories/Properties/C18.v"]
FACT_GROUPS = ["F21"]
ALLOWED_AXIOMS = []
TRUSTED_BASE = [
    "Coq 8.16.1 kernel; Print Assumptions: closed under the global context",
    "harness/sched.py: deterministic scheduler (sys.settrace, one cerberus source line per grant, exactly one thread runs at a time); CPython 3.12",
    "each thread's outcome is compared with the outcome of the same body executed alone from the same initial state",
]
ASSUMPTIONS = [
    "preemption is exhibited at source-line granularity only: a switch between byte codes of one line (inside a comprehension), GIL release inside C code, "
    "dict-iteration invalidation details and free-threaded memory visibility are outside what this check can show",
]


def observe(v, doc):
    ok = v.validate(copy.deepcopy(doc))
    return (ok, canon_errors([real_error(e) for e in v._errors]), common.canon_val(common.jval(v.errors)),
            common.canon_val(common.jval(v.document)),
            # the schema the validator exposes and the registries it is bound to are part of what a thread can see
            common.canon_val(common.jval(dict(v.schema))),
            common.canon_val(common.jval(dict(v.rules_set_registry.all()))), common.canon_val(common.jval(dict(v.schema_registry.all()))))


class Scenario(object):
    """make() -> (bodies, description); called afresh for every execution so that all runs start from the same state"""
    def __init__(self, name, make):
        self.name, self.make = name, make


def reset_process_state(lazy=False):
    for c in (cerberus.Validator, pool.PoolValidator):
        c.clear_caches()
    if lazy and 'SchemaValidator' in cschema.__dict__:
        del cschema.__dict__['SchemaValidator']


def scenarios(g, rng):
    out = []
    canon = {'a': {'type': 'integer', 'min': 1, 'coerce': 'to_int'},
             'b': {'anyof': [{'type': 'string', 'minlength': 2}, {'type': 'list', 'schema': {'type': 'integer'}}]},
             'c': {'type': 'dict', 'keysrules': {'type': 'string'}, 'valuesrules': {'type': 'integer', 'max': 5}},
             'd': {'type': 'list', 'items': [{'type': 'integer'}, {'oneof': [{'type': 'string'}, {'type': 'integer', 'min': 3}]}]}}
    docs = [{'a': '3', 'b': 'x', 'c': {'k': 9}}, {'a': 0, 'b': [1, 'q'], 'd': [1, 2]}, {'a': 'z', 'c': {1: 1}, 'd': ['s', 's']}]

    def shared_canonical(nthreads):
        def make():
            reset_process_state()
            shared = copy.deepcopy(canon)
            return [lambda d=d: observe(pool.PoolValidator(shared), d) for d in docs[:nthreads]]
        return make
    out.append(Scenario("shared-canonical-2", shared_canonical(2)))
    out.append(Scenario("shared-canonical-3", shared_canonical(3)))

    def generated_canonical():
        schema = g.schema()
        ds = [g.doc_for(schema), g.doc_for(schema)]
        try:
            pool.PoolValidator(copy.deepcopy(schema))
        except Exception:
            return None

        def make():
            reset_process_state()
            shared = copy.deepcopy(schema)
            return [lambda d=d: observe(pool.PoolValidator(shared), d) for d in ds]
        return make
    for i in range(3):
        m = generated_canonical()
        if m:
            out.append(Scenario("shared-generated-%d" % i, m))

    shorthand = {'a': {'anyof_type': ['integer', 'string']}, 'b': {'type': 'dict', 'keyschema': {'type': 'string'}, 'valueschema': {'type': 'integer'}},
                 'c': {'type': 'list', 'schema': {'oneof_min': [1, 5]}}}
    sdocs = [{'a': 1.5, 'b': {'k': 'v'}}, {'a': 'x', 'c': [0, 7]}]

    def shared_shorthand():
        reset_process_state()
        shared = copy.deepcopy(shorthand)
        return [lambda d=d: observe(pool.PoolValidator(shared), d) for d in sdocs]
    out.append(Scenario("shared-shorthand", shared_shorthand))

    spaced = {'a': {'type': 'dict', 'allow unknown': True, 'schema': {'x': {'type': 'integer'}}},
              'b': {'type': 'dict', 'require all': True, 'schema': {'y': {'type': 'dict', 'purge unknown': True, 'schema': {'z': {'type': 'string'}}}}}}
    pdocs = [{'a': {'x': 1, 'q': 2}, 'b': {'y': {'z': 'k', 'w': 1}}}, {'a': {'x': 'v'}, 'b': {}}]

    def shared_spaced():
        # rule names written with spaces: canonicalised in place in the shared literal (no recorded finding lives here)
        reset_process_state()
        shared = copy.deepcopy(spaced)
        return [lambda d=d: observe(pool.PoolValidator(shared), d) for d in pdocs]
    out.append(Scenario("shared-spaced-names", shared_spaced))

    def lazy_class():
        reset_process_state(lazy=True)
        return [lambda d=d: observe(pool.PoolValidator(copy.deepcopy(canon)), d) for d in docs[:2]]
    out.append(Scenario("lazy-schema-validator", lazy_class))

    def registry_and_cache():
        reset_process_state()
        rr = cschema.RulesSetRegistry({'R': {'type': 'integer', 'min': 2}})
        sr = cschema.SchemaRegistry({'S': {'x': 'R', 'y': {'type': 'string'}}})
        shared = {'p': {'type': 'dict', 'schema': 'S'}, 'q': 'R',
                  'r': {'type': 'dict', 'schema': {'x': 'R', 'y': {'type': 'string'}}},
                  's': {'type': 'list', 'schema': {'type': 'dict', 'schema': {'x': 'R'}}}}
        ds = [{'p': {'x': 1, 'y': 2}, 'q': 5, 'r': {'x': 1}, 's': [{'x': 1}]}, {'p': {'x': 3}, 'q': 0, 'r': {'x': 7, 'y': 'k'}, 's': []}]
        return [lambda d=d: observe(pool.PoolValidator(shared, rules_set_registry=rr, schema_registry=sr), d) for d in ds]
    out.append(Scenario("shared-registries", registry_and_cache))

    def shared_invalid():
        # one ill-formed schema object submitted by two threads: each alone is rejected, so each must be rejected
        reset_process_state()
        bad = {'name': {'type': 'string', 'maxlength': 'ten'}, 'n': {'type': 'list', 'schema': {'type': 'nosuchtype'}}}

        def attempt(d):
            try:
                v = pool.PoolValidator(bad)
            except cerberus.SchemaError:
                return "rejected"
            return ("accepted",) + tuple(observe(v, d)[:1])
        return [lambda d=d: attempt(d) for d in docs[:2]]
    out.append(Scenario("shared-invalid-schema", shared_invalid))

    def shared_invalid_by_reference():
        # ... and one whose ill-formed part sits behind a registry reference (the reference guard is per validation)
        reset_process_state()
        cerberus.rules_set_registry.add('C18_BAD_RULES', {'type': 'nosuchtype'})
        cerberus.schema_registry.add('C18_BAD_SCHEMA', {'v': {'type': 'nosuchtype'}})
        bad = {'f': {'type': 'dict', 'valuesrules': 'C18_BAD_RULES'}, 'g': {'type': 'dict', 'schema': 'C18_BAD_SCHEMA'}}

        def attempt(d):
            try:
                v = pool.PoolValidator(bad)
            except cerberus.SchemaError:
                return "rejected"
            return ("accepted",) + tuple(observe(v, d)[:1])
        return [lambda d=d: attempt(d) for d in docs[:2]]
    out.append(Scenario("shared-invalid-by-reference", shared_invalid_by_reference))

    def role_twins():
        # one mapping in two roles: a valid SCHEMA (a field named `required`) in one thread, an invalid RULES SET in the other
        reset_process_state()
        S = {'required': {'type': 'boolean'}}

        def attempt(schema, d):
            try:
                v = pool.PoolValidator(schema)
            except cerberus.SchemaError:
                return "rejected"
            return ("accepted",) + tuple(observe(v, d)[:2])
        return [lambda: attempt(S, {'required': True}),
                lambda: attempt({'fields': {'type': 'dict', 'valuesrules': S}}, {'fields': {'k': 1}}),
                lambda: attempt({'rows': {'type': 'list', 'schema': {'type': 'dict', 'schema': S}}}, {'rows': [{'required': 'x'}]})]
    out.append(Scenario("shared-invalid-role-twins", role_twins))

    def of_tails():
        # definitions another thread has validated (and remembered) in front of one that is ill-formed: each list of definitions is
        # checked to its end whatever the cache holds
        reset_process_state()
        good = {'b': {'anyof': [{'type': 'integer'}, {'type': 'string', 'maxlength': 3}]}, 'c': {'type': 'list', 'schema': {'oneof': [{'min': 1}]}}}
        bad1 = {'b': {'anyof': [{'type': 'integer'}, {'type': 'string', 'maxlength': '3'}]}}
        bad2 = {'c': {'type': 'list', 'schema': {'oneof': [{'min': 1}, {'nosuchrule': 1}]}}}

        def attempt(schema, d):
            try:
                v = pool.PoolValidator(schema)
            except cerberus.SchemaError:
                return "rejected"
            return ("accepted",) + tuple(observe(v, d)[:2])
        return [lambda: attempt(good, {'b': 'abcd', 'c': [0]}), lambda: attempt(bad1, {'b': 'abcd'}), lambda: attempt(bad2, {'c': [0]})]
    out.append(Scenario("shared-invalid-of-tails", of_tails))

    def earlier_and_constructing():
        reset_process_state()
        shared = copy.deepcopy(canon)
        v0 = pool.PoolValidator(shared)
        return [lambda: observe(v0, docs[1]), lambda: observe(pool.PoolValidator(shared), docs[0])]
    out.append(Scenario("validate-while-constructing", earlier_and_constructing))

    def two_errors_properties():
        reset_process_state()
        v0, v1 = pool.PoolValidator(copy.deepcopy(canon)), pool.PoolValidator(copy.deepcopy(canon))
        return [lambda: observe(v0, docs[1]), lambda: observe(v1, docs[2])]
    out.append(Scenario("two-validators-errors-property", two_errors_properties))
    return out


def alone(sc):
    """each body executed alone, each from a fresh initial state; also the per-thread traces"""
    outs, traces = [], []
    n = len(sc.make())
    for i in range(n):
        bodies = sc.make()
        res, s = sched.run_threads([bodies[i]], [], record=True)
        outs.append(res[0])
        traces.append([w for (_, w) in s.trace])
    return outs, traces


def make_schedule(rng, traces, k):
    """k preemptions; switch points biased towards lines of schema.py / utils.py (shared-state code)"""
    n = len(traces)
    lens = [len(t) for t in traces]
    hot = [[j for j, w in enumerate(t) if isinstance(w, tuple) and w[0] in ('schema.py', 'utils.py')] for t in traces]
    # the lines that write shared objects: in-place expansion (schema.py 122-250), lazy class creation (37-50), cache insertions
    hotter = [[j for j, w in enumerate(t) if isinstance(w, tuple) and w[0] == 'schema.py' and (37 <= w[1] <= 50 or 122 <= w[1] <= 320)]
              for t in traces]
    sch = []
    done = [0] * n
    cur = rng.randrange(n)
    for _ in range(k):
        remaining = lens[cur] - done[cur]
        if remaining <= 0:
            cur = (cur + 1) % n
            continue
        cands = [j for j in hot[cur] if j >= done[cur]]
        c2 = [j for j in hotter[cur] if j >= done[cur]]
        if c2 and rng.random() < 0.6:
            upto = rng.choice(c2) + rng.choice([0, 1])
        elif cands and rng.random() < 0.5:
            upto = rng.choice(cands) + rng.choice([0, 1])
        else:
            upto = done[cur] + rng.randrange(0, remaining + 1)
        upto = max(upto, done[cur])
        sch += [cur] * (upto - done[cur])
        done[cur] = upto
        cur = rng.choice([t for t in range(n) if t != cur])
    return sch


def compress(schedule):
    out = []
    for t in schedule:
        if out and out[-1][0] == t:
            out[-1][1] += 1
        else:
            out.append([t, 1])
    return out


def expand(runs):
    return [t for t, c in runs for _ in range(c)]


def run(ctx):
    thorough = ctx["tier"] == "thorough"
    rng = random.Random(ctx["seed"] + 18)
    g = Gen(ctx["seed"] + 180, normalization=True)
    scs = scenarios(g, rng)
    violations, samples = [], []
    dist = collections.Counter()
    cases = 0
    per = 200 if thorough else 14 * ctx.get('scale', 1)
    old_switch = sys.getswitchinterval()
    for sc in scs:
        ref, traces = alone(sc)
        dist["lines_" + sc.name] = sum(len(t) for t in traces)
        if any(r[0] != 'ok' for r in ref):
            dist["skipped_" + sc.name] += 1
            continue
        n = len(traces)
        hotter = [[j for j, w in enumerate(t) if isinstance(w, tuple) and w[0] == 'schema.py' and (37 <= w[1] <= 50 or 122 <= w[1] <= 320)]
                  for t in traces]
        if sc.name.startswith("shared-invalid"):
            # small scenarios: every line of schema.py is a preemption point (the reference guards, the cache inserts)
            hotter = [[j for j, w in enumerate(t) if isinstance(w, tuple) and w[0] == 'schema.py' and w[1] >= 268] for t in traces]
        if sc.name == "shared-spaced-names":
            # every line of the in-place expansion is a preemption point
            hotter = [[j for j, w in enumerate(t) if isinstance(w, tuple) and w[0] == 'schema.py' and 122 <= w[1] <= 267] for t in traces]
        plans = []
        # systematic: one preemption right after a line that writes shared state, the other thread(s) then run to completion
        for t in range(n):
            lazy_pts = [j for j in hotter[t] if 37 <= traces[t][j][1] <= 50][:40]
            pts = hotter[t] if (thorough or sc.name.startswith(("shared-invalid", "shared-spaced"))) else sorted(set(rng.sample(hotter[t], min(len(hotter[t]), per)) + lazy_pts))
            if sc.name == "shared-spaced-names":
                core = [j for j in hotter[t] if 127 <= traces[t][j][1] <= 153]          # expand() and _canonicalize_rule_names
                rest = [j for j in hotter[t] if j not in set(core)]
                pts = sorted(core + rng.sample(rest, min(len(rest), 300 if thorough else 60)))
            elif thorough and len(pts) > 300:
                pts = rng.sample(pts, 300)
            for a in pts:
                others = [o for o in range(n) if o != t]
                plans.append(("systematic-1", [t] * (a + 1) + [o for o in others for _ in range(len(traces[o]) + 5)]))
        # two preemptions: the second thread is itself stopped after one of its shared-write lines
        for _ in range(per if not thorough else 6 * per):
            t = rng.randrange(n)
            o = rng.choice([x for x in range(n) if x != t])
            if hotter[t] and hotter[o]:
                a, b = rng.choice(hotter[t]), rng.choice(hotter[o])
                plans.append(("systematic-2", [t] * (a + 1) + [o] * (b + 1) + [t] * (len(traces[t]) + 5)))
        for _ in range(per // 2):
            plans.append(("random-%d" % 0, make_schedule(rng, traces, rng.choice([2, 3, 4]))))
        for j, (ptag, schedule) in enumerate(plans):
            k = ptag
            res, s = sched.run_threads(sc.make(), schedule)
            cases += 1
            dist["plan_%s" % ptag] += 1
            for i, (a, b) in enumerate(zip(res, ref)):
                if a != b:
                    what = "thread %d: %s under the schedule, %s alone" % (
                        i, ("raises " + a[1]) if a[0] != 'ok' else "different outcome", ("raises " + b[1]) if b[0] != 'ok' else "normal outcome")
                    violations.append({"signature": "interference:" + sc.name.rstrip('-0123456789'), "what": sc.name + ": " + what,
                                       "replay": {"scenario": sc.name, "schedule": compress(schedule), "thread": i,
                                                  "under_schedule": repr(a)[:400], "alone": repr(b)[:400]}})
                    break
            if j == 0 and len(samples) < 3:
                samples.append({"scenario": sc.name, "schedule": compress(schedule)})
    # random soak under a minimal switch interval (no tracing): 2-8 threads on the canonical scenario
    sys.setswitchinterval(1e-6)
    try:
        sc = scs[0]
        ref_all, _ = alone(scs[1])
        for rnd in range(60 if thorough else 8 * ctx.get('scale', 1)):
            nthreads = rng.randrange(2, 9)
            reset_process_state()
            bodies3 = scs[1].make()
            bodies = [bodies3[i % 3] for i in range(nthreads)]
            outs = [None] * nthreads

            def w(i):
                try:
                    outs[i] = ('ok', bodies[i]())
                except BaseException as e:
                    outs[i] = ('raise', "%s: %s" % (type(e).__name__, str(e)[:100]))
            ts = [threading.Thread(target=w, args=(i,)) for i in range(nthreads)]
            [t.start() for t in ts]
            [t.join(30) for t in ts]
            cases += 1
            dist["soak_threads_%d" % nthreads] += 1
            for i in range(nthreads):
                if outs[i] != ref_all[i % 3]:
                    violations.append({"signature": "interference:soak", "what": "free-running soak with %d threads: thread %d differs from its outcome alone" % (nthreads, i),
                                       "replay": {"scenario": "soak", "threads": nthreads, "got": repr(outs[i])[:300], "alone": repr(ref_all[i % 3])[:300]}})
                    break
    finally:
        sys.setswitchinterval(old_switch)
    return {"violations": violations, "cases": cases, "nontrivial": cases, "model_cases": 0, "disagreements_checked": 0,
            "samples": samples, "distribution": dict(dist),
            "rule": "scenarios: 2-3 threads constructing validators from one shared schema object (canonical hand-written and generated; shorthand form), first "
                    "use of the lazily created SchemaValidator, shared registries + class-level cache, validating with an earlier-built validator while another "
                    "thread constructs from the same schema object, two validators reading their errors property; per scenario %d schedules with 1-4 "
                    "preemptions at source-line granularity (switch points biased to schema.py / utils.py lines), executed deterministically by harness/sched.py; "
                    "each thread's outcome (verdict, error keys, rendered errors, document) compared with the body executed alone; plus a free-running soak "
                    "with 2-8 threads under a 1 microsecond switch interval. Every (scenario, schedule) pair is a distinct case." % per}


def replay(rp):
    rng = random.Random(0)
    g = Gen(int(rp.get("seed", 20260930)) + 180, normalization=True)
    for sc in scenarios(g, rng):
        if sc.name == rp["scenario"]:
            ref, _ = alone(sc)
            res, _ = sched.run_threads(sc.make(), expand(rp["schedule"]))
            for i, (a, b) in enumerate(zip(res, ref)):
                print(i, "same" if a == b else ("DIFFERENT: %r vs alone %r" % (a, b))[:600])
    return 0
