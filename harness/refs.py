"""Registry references: replace rule sets / sub-schemas of a schema by names of registry
entries holding equal definitions (C14; also used to put references into C05 / C15 cases)."""
import copy

import positions
from gen import is_mapping_schema

import cerberus
from cerberus.schema import RulesSetRegistry, SchemaRegistry


def referenceable(schema):
    """(path, kind, registry) for every position that may hold a reference:
    field rule sets, keysrules, valuesrules, items members, list-schema rule sets, non-empty allow_unknown rule sets -> rules set registry;
    dict-schema constraints -> schema registry"""
    out = []
    for path, kind, rules in positions.rule_sets(schema):
        if kind == 'of-definition' or not rules:
            continue
        if any(k == 'of-definition' for k in ()):
            continue
        # a rule set that is a *of definition (or inside one) cannot be a reference itself, but its nested positions can
        if kind in ('field', 'dict-schema', 'keysrules', 'valuesrules', 'items', 'list-schema', 'allow_unknown-rule'):
            out.append((path, kind, 'rules'))
        sub = rules.get('schema')
        if isinstance(sub, dict) and is_mapping_schema(sub) and rules.get('type') == 'dict' and sub:
            out.append((path + ('schema',), 'schema-constraint', 'schema'))
    return out


def substitute(schema, chosen, prefix="R"):
    """replace the chosen positions (deepest first) by references; returns (schema', rules_defs, schema_defs)"""
    s = copy.deepcopy(schema)
    rules_defs, schema_defs = {}, {}
    for n, (path, kind, reg) in enumerate(sorted(chosen, key=lambda x: -len(x[0]))):
        # any string is a legal registry name: with a space, or spelled around the name of a rule
        name = ("%s%d" % (prefix, n) if n % 3 == 0 else "%s name %d" % (prefix, n) if n % 3 == 2 else
                "%s_%s_%d" % (prefix, ("items", "schema", "anyof", "keysrules", "valuesrules", "oneof", "allow_unknown")[n % 7], n))
        definition = positions.get_at(s, path)
        if not isinstance(definition, dict):
            continue            # already replaced through an enclosing choice
        if reg == 'rules':
            rules_defs[name] = definition
        else:
            schema_defs[name] = definition
        s = positions.set_at(s, path, name)
    return s, rules_defs, schema_defs


_FORM = [0]


def make_registries(rules_defs, schema_defs):
    """the three documented ways of filling a registry, in turn: add() one by one, extend() in bulk, the constructor"""
    _FORM[0] += 1
    form = _FORM[0] % 3
    rd = {k: copy.deepcopy(v) for k, v in rules_defs.items()}
    sd = {k: copy.deepcopy(v) for k, v in schema_defs.items()}
    if form == 0:
        rr, sr = RulesSetRegistry(), SchemaRegistry()
        for k, v in rd.items():
            rr.add(k, v)
        for k, v in sd.items():
            sr.add(k, v)
    elif form == 1:
        rr, sr = RulesSetRegistry(), SchemaRegistry()
        rr.extend(rd)
        sr.extend(sd)
    else:
        rr, sr = RulesSetRegistry(rd), SchemaRegistry(sd)
    return rr, sr
