"""A deterministic line-granular scheduler for real threads running cerberus code.
Every thread installs a trace function; at each 'line' event inside a cerberus source file the
thread hands the CPU back and waits until the schedule grants it the next line.  A schedule is a
list of thread ids, one grant per line; when it is exhausted the remaining threads run to
completion one after the other (lowest id first).  Exactly one thread executes cerberus code at any
time, so an execution is fully determined by (bodies, schedule): replays are exact."""
import os
import sys
import threading

CERB = os.sep + "cerberus" + os.sep


class Deadlock(Exception):
    pass


class Scheduler(object):
    def __init__(self, schedule, n, record=False):
        self.schedule = list(schedule)
        self.pos = 0
        self.cv = threading.Condition()
        self.alive = set(range(n))
        self.running = None
        self.steps = [0] * n
        self.trace = [] if record else None

    def _next(self):
        while self.pos < len(self.schedule) and self.schedule[self.pos] not in self.alive:
            self.pos += 1
        if self.pos < len(self.schedule):
            return self.schedule[self.pos]
        return min(self.alive) if self.alive else None

    def step(self, tid, where=None):
        with self.cv:
            if self.running == tid:
                self.running = None
                self.cv.notify_all()
            waited = 0
            while not (self.running is None and self._next() == tid):
                if not self.cv.wait(timeout=2.0):
                    waited += 1
                    if waited > 5:
                        raise Deadlock("thread %d starved at %r" % (tid, where))
            if self.pos < len(self.schedule):
                self.pos += 1
            self.running = tid
            self.steps[tid] += 1
            if self.trace is not None:
                self.trace.append((tid, where))

    def finish(self, tid):
        with self.cv:
            self.alive.discard(tid)
            if self.running == tid:
                self.running = None
            self.cv.notify_all()


def run_threads(bodies, schedule, record=False, timeout=60):
    """bodies: list of zero-argument callables; returns (results, scheduler). A result is ('ok', value) or ('raise', repr)."""
    n = len(bodies)
    sch = Scheduler(schedule, n, record)
    results = [None] * n

    def make_tracer(tid):
        def local(frame, event, arg):
            if event == 'line':
                sch.step(tid, (os.path.basename(frame.f_code.co_filename), frame.f_lineno) if record else None)
            return local

        def tracer(frame, event, arg):
            if CERB in frame.f_code.co_filename:
                if event == 'call':
                    return local
            return None
        return tracer

    def worker(tid):
        sys.settrace(make_tracer(tid))
        try:
            sch.step(tid, "start")
            results[tid] = ('ok', bodies[tid]())
        except Deadlock as e:
            results[tid] = ('deadlock', str(e))
        except BaseException as e:
            results[tid] = ('raise', "%s: %s" % (type(e).__name__, str(e)[:120]))
        finally:
            sys.settrace(None)
            sch.finish(tid)

    ts = [threading.Thread(target=worker, args=(i,), daemon=True) for i in range(n)]
    for t in ts:
        t.start()
    for t in ts:
        t.join(timeout)
    return results, sch
