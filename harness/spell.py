"""Equivalent spellings of a canonical schema / rule set (the documented shorthands): the real validator is handed the
respelled form, the model the canonical one -- whatever entry point takes the definition (constructor, option, setter)
has to expand it.  Only the top level of a rule set is respelled (nested positions are C15's business, where the recorded
finding lives)."""

OFS = ('allof', 'anyof', 'noneof', 'oneof')
DEPRECATED = {'keysrules': 'keyschema', 'valuesrules': 'valueschema', 'check_with': 'validator'}
SPACED = ('allow_unknown', 'require_all', 'purge_unknown', 'rename_handler', 'default_setter', 'check_with')


def _homogeneous(defs):
    return (isinstance(defs, list) and defs and all(isinstance(d, dict) and len(d) == 1 for d in defs)
            and len({list(d)[0] for d in defs}) == 1 and isinstance(list(defs[0])[0], str))


def eligible(rules):
    if not isinstance(rules, dict):
        return False
    return any((k in OFS and _homogeneous(v)) or k in DEPRECATED or k in SPACED for k, v in rules.items())


def respell_rules(rules, salt=0):
    """one rule set, top level only; dict order is kept where the expansion keeps it (a renamed key moves to the end)"""
    if not isinstance(rules, dict):
        return rules
    out = {}
    for i, (k, v) in enumerate(rules.items()):
        pick = (salt + i) % 2
        if k in OFS and _homogeneous(v):
            rule = list(v[0])[0]
            out["%s_%s" % (k, rule)] = [d[rule] for d in v]
        elif k in DEPRECATED and pick == 0:
            out[DEPRECATED[k]] = v
        elif k in SPACED:
            out[k.replace("_", " ")] = v
        else:
            out[k] = v
    return out


def chosen(schema, doc):
    """deterministic per case: one case in three"""
    return (len(repr(doc)) * 7 + len(repr(schema))) % 3 == 0


def respell(schema, cfg, doc):
    """-> (schema', cfg') for the real validator"""
    if not chosen(schema, doc):
        return schema, cfg
    salt = len(repr(doc))
    if isinstance(schema, dict):
        schema = {k: (respell_rules(v, salt + j) if isinstance(v, dict) else v) for j, (k, v) in enumerate(schema.items())}
    if isinstance(cfg.get("allow_unknown"), dict):
        cfg = dict(cfg, allow_unknown=respell_rules(cfg["allow_unknown"], salt))
    return schema, cfg
